use dnssector::*;

fn build(n: usize) -> Vec<u8> {
    let mut p = vec![0x12, 0x34, 0x81, 0x80, 0, 1, 0, n as u8, 0, 0, 0, 0];
    // question: "q." A IN
    p.extend_from_slice(&[1, b'q', 0, 0, 1, 0, 1]);
    for k in 1..=n {
        // owner: lk.l(k-1)....l1.
        for j in (1..=k).rev() {
            let lab = format!("l{}", j);
            p.push(lab.len() as u8);
            p.extend_from_slice(lab.as_bytes());
        }
        p.push(0);
        p.extend_from_slice(&[0, 1, 0, 1, 0, 0, 0, 60, 0, 4, 10, 0, 0, k as u8]);
    }
    p
}

#[test]
fn nested_suffixes_deeper_than_16() {
    for n in [10usize, 16, 17, 18, 20, 25] {
        let p = build(n);
        let parsed = DNSSector::new(p.clone()).unwrap().parse();
        assert!(parsed.is_ok(), "input must be accepted");
        let c = Compress::compress(&p);
        match c {
            Ok(c) => {
                let r = DNSSector::new(c.clone()).unwrap().parse();
                println!("n={} compressed {} -> {} reparsed: {:?}", n, p.len(), c.len(), r.as_ref().map(|_| ()).map_err(|e| e.to_string()));
                assert!(r.is_ok(), "n={}: compress() output is refused: {:?}", n, r.err().map(|e| e.to_string()));
            }
            Err(e) => panic!("n={}: compress failed: {}", n, e),
        }
    }
}
