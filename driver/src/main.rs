#![feature(rustc_private)]
#![allow(clippy::all)]
extern crate rustc_abi;
extern crate rustc_driver;
extern crate rustc_hir;
extern crate rustc_interface;
extern crate rustc_middle;
extern crate rustc_span;

use std::fmt::Write as _;

use rustc_driver::Compilation;
use rustc_hir::def::DefKind;
use rustc_hir::def_id::DefId;
use rustc_middle::mir::{
    AggregateKind, BasicBlockData, Body, BorrowKind, Operand, Place, PlaceElem, Rvalue,
    StatementKind, TerminatorKind,
};
use rustc_middle::ty::{self, GenericArgsRef, Instance, Ty, TyCtxt, TypingEnv};

// ---------- tiny JSON writer ----------
fn js(s: &str) -> String {
    let mut o = String::with_capacity(s.len() + 2);
    o.push('"');
    for c in s.chars() {
        match c {
            '"' => o.push_str("\\\""),
            '\\' => o.push_str("\\\\"),
            '\n' => o.push_str("\\n"),
            '\t' => o.push_str("\\t"),
            c if (c as u32) < 0x20 => { let _ = write!(o, "\\u{:04x}", c as u32); }
            c => o.push(c),
        }
    }
    o.push('"');
    o
}
fn kv(k: &str, v: String) -> String { format!("{}:{}", js(k), v) }
fn obj(items: Vec<String>) -> String { format!("{{{}}}", items.join(",")) }
fn arr(items: Vec<String>) -> String { format!("[{}]", items.join(",")) }

struct Cx<'tcx> {
    tcx: TyCtxt<'tcx>,
    tenv: TypingEnv<'tcx>,
    /// substitution applied to callee generic args (for default-method instantiations)
    subst: Option<GenericArgsRef<'tcx>>,
}

fn ty_json<'tcx>(tcx: TyCtxt<'tcx>, t: Ty<'tcx>) -> String {
    let s = format!("{}", t);
    let mut items = vec![kv("s", js(&s))];
    match t.kind() {
        ty::Bool => items.push(kv("k", js("bool"))),
        ty::Int(i) => { items.push(kv("k", js("int"))); items.push(kv("signed", "true".into())); items.push(kv("bits", format!("{}", i.bit_width().unwrap_or(64)))); items.push(kv("ptrsized", format!("{}", i.bit_width().is_none()))); }
        ty::Uint(u) => { items.push(kv("k", js("int"))); items.push(kv("signed", "false".into())); items.push(kv("bits", format!("{}", u.bit_width().unwrap_or(64)))); items.push(kv("ptrsized", format!("{}", u.bit_width().is_none()))); }
        ty::Adt(def, _) => { items.push(kv("k", js("adt"))); items.push(kv("adt", js(&tcx.def_path_str(def.did())))); }
        ty::Ref(_, inner, m) => { items.push(kv("k", js("ref"))); items.push(kv("mut", format!("{}", m.is_mut()))); items.push(kv("to", ty_json(tcx, *inner))); }
        ty::RawPtr(inner, m) => { items.push(kv("k", js("ptr"))); items.push(kv("mut", format!("{}", m.is_mut()))); items.push(kv("to", ty_json(tcx, *inner))); }
        ty::Slice(inner) => { items.push(kv("k", js("slice"))); items.push(kv("of", ty_json(tcx, *inner))); }
        ty::Array(inner, n) => { items.push(kv("k", js("array"))); items.push(kv("of", ty_json(tcx, *inner))); items.push(kv("n", js(&format!("{:?}", n)))); }
        ty::Tuple(ts) => { items.push(kv("k", js("tuple"))); items.push(kv("n", format!("{}", ts.len()))); }
        ty::FnDef(did, _) => { items.push(kv("k", js("fndef"))); items.push(kv("fn", js(&tcx.def_path_str(*did)))); }
        ty::FnPtr(sig_tys, hdr) => {
            items.push(kv("k", js("fnptr")));
            let st = sig_tys.skip_binder();
            items.push(kv("inputs", arr(st.inputs().iter().map(|t| ty_json(tcx, *t)).collect())));
            items.push(kv("output", ty_json(tcx, st.output())));
            items.push(kv("abi", js(&format!("{:?}", hdr.abi()))));
            items.push(kv("unsafe", format!("{}", hdr.safety().is_unsafe())));
        }
        ty::Closure(did, _) => { items.push(kv("k", js("closure"))); items.push(kv("def", js(&tcx.def_path_str(*did)))); }
        ty::Never => items.push(kv("k", js("never"))),
        ty::Param(_) => items.push(kv("k", js("param"))),
        ty::Str => items.push(kv("k", js("str"))),
        _ => items.push(kv("k", js("other"))),
    }
    obj(items)
}

fn place_json<'tcx>(cx: &Cx<'tcx>, body: &Body<'tcx>, p: &Place<'tcx>) -> String {
    let tcx = cx.tcx;
    let mut projs = Vec::new();
    let mut pty = rustc_middle::mir::PlaceTy::from_ty(body.local_decls[p.local].ty);
    for elem in p.projection.iter() {
        let j = match elem {
            PlaceElem::Deref => obj(vec![kv("k", js("deref"))]),
            PlaceElem::Field(f, _) => {
                let mut it = vec![kv("k", js("field")), kv("i", format!("{}", f.as_usize()))];
                match pty.ty.kind() {
                    ty::Adt(def, _) => {
                        it.push(kv("adt", js(&tcx.def_path_str(def.did()))));
                        let vidx = pty.variant_index.unwrap_or(rustc_abi::FIRST_VARIANT);
                        if vidx.as_usize() < def.variants().len() {
                            let v = def.variant(vidx);
                            if def.is_enum() { it.push(kv("variant", js(v.name.as_str()))); }
                            if f.as_usize() < v.fields.len() { it.push(kv("name", js(v.fields[f].name.as_str()))); }
                        }
                    }
                    ty::Tuple(_) => it.push(kv("adt", js("(tuple)"))),
                    ty::Closure(..) => it.push(kv("adt", js("(closure)"))),
                    _ => {}
                }
                obj(it)
            }
            PlaceElem::Index(l) => obj(vec![kv("k", js("index")), kv("local", format!("{}", l.as_usize()))]),
            PlaceElem::ConstantIndex { offset, min_length, from_end } => obj(vec![kv("k", js("constindex")), kv("offset", format!("{}", offset)), kv("min_length", format!("{}", min_length)), kv("from_end", format!("{}", from_end))]),
            PlaceElem::Subslice { from, to, from_end } => obj(vec![kv("k", js("subslice")), kv("from", format!("{}", from)), kv("to", format!("{}", to)), kv("from_end", format!("{}", from_end))]),
            PlaceElem::Downcast(name, vidx) => obj(vec![kv("k", js("downcast")), kv("variant", js(&name.map(|n| n.to_string()).unwrap_or_default())), kv("vi", format!("{}", vidx.as_usize()))]),
            _ => obj(vec![kv("k", js("other")), kv("dbg", js(&format!("{:?}", elem)))]),
        };
        projs.push(j);
        pty = pty.projection_ty(tcx, elem);
    }
    obj(vec![kv("local", format!("{}", p.local.as_usize())), kv("proj", arr(projs)), kv("ty", ty_json(tcx, pty.ty))])
}

fn const_json<'tcx>(cx: &Cx<'tcx>, c: &rustc_middle::mir::ConstOperand<'tcx>) -> String {
    let tcx = cx.tcx;
    let ty = c.const_.ty();
    let mut it = vec![kv("k", js("const")), kv("ty", ty_json(tcx, ty))];
    if let ty::FnDef(did, args) = ty.kind() {
        it.push(kv("fn", js(&tcx.def_path_str(*did))));
        it.push(kv("fn_full", js(&tcx.def_path_str_with_args(*did, args))));
    }
    if let rustc_middle::mir::Const::Val(rustc_middle::mir::ConstValue::Scalar(rustc_middle::mir::interpret::Scalar::Ptr(ptr, _)), _) = c.const_ {
        let alloc_id = ptr.provenance.alloc_id();
        if let rustc_middle::mir::interpret::GlobalAlloc::Static(sdid) = tcx.global_alloc(alloc_id) {
            it.push(kv("static", js(&tcx.def_path_str(sdid))));
        }
    }
    if let rustc_middle::mir::Const::Unevaluated(u, _) = c.const_ {
        it.push(kv("named", js(&tcx.def_path_str(u.def))));
        if let Some(p) = u.promoted { it.push(kv("promoted", format!("{}", p.as_usize()))); }
    }
    if ty.is_integral() || ty.is_bool() || ty.is_char() {
        if let Some(si) = c.const_.try_eval_scalar_int(tcx, cx.tenv) {
            let bits = si.to_bits_unchecked();
            let v: i128 = if ty.is_signed() { let size = si.size(); size.sign_extend(bits) as i128 } else { bits as i128 };
            it.push(kv("val", format!("{}", v)));
        }
    } else if matches!(ty.kind(), ty::Ref(_, inner, _) if inner.is_str()) {
        it.push(kv("dbg", js(&format!("{}", c.const_))));
    } else if !matches!(ty.kind(), ty::FnDef(..)) {
        let d = format!("{}", c.const_);
        if d.len() < 120 { it.push(kv("dbg", js(&d))); }
    }
    obj(it)
}

fn op_json<'tcx>(cx: &Cx<'tcx>, body: &Body<'tcx>, o: &Operand<'tcx>) -> String {
    match o {
        Operand::Copy(p) => obj(vec![kv("k", js("copy")), kv("place", place_json(cx, body, p))]),
        Operand::Move(p) => obj(vec![kv("k", js("move")), kv("place", place_json(cx, body, p))]),
        Operand::Constant(c) => const_json(cx, c),
        #[allow(unreachable_patterns)]
        _ => obj(vec![kv("k", js("other")), kv("dbg", js(&format!("{:?}", o)))]),
    }
}

fn rvalue_json<'tcx>(cx: &Cx<'tcx>, body: &Body<'tcx>, rv: &Rvalue<'tcx>) -> String {
    let tcx = cx.tcx;
    match rv {
        Rvalue::Use(o, ..) => obj(vec![kv("k", js("use")), kv("x", op_json(cx, body, o))]),
        Rvalue::Ref(_, bk, p) => obj(vec![kv("k", js("ref")), kv("mut", format!("{}", matches!(bk, BorrowKind::Mut { .. }))), kv("place", place_json(cx, body, p))]),
        Rvalue::RawPtr(k, p) => obj(vec![kv("k", js("rawptr")), kv("kind", js(&format!("{:?}", k))), kv("place", place_json(cx, body, p))]),
        Rvalue::BinaryOp(op, b) => obj(vec![kv("k", js("binop")), kv("op", js(&format!("{:?}", op))), kv("l", op_json(cx, body, &b.0)), kv("r", op_json(cx, body, &b.1))]),
        Rvalue::UnaryOp(op, x) => obj(vec![kv("k", js("unop")), kv("op", js(&format!("{:?}", op))), kv("x", op_json(cx, body, x))]),
        Rvalue::Cast(kind, x, t) => obj(vec![kv("k", js("cast")), kv("kind", js(&format!("{:?}", kind))), kv("x", op_json(cx, body, x)), kv("ty", ty_json(tcx, *t))]),
        Rvalue::Discriminant(p) => obj(vec![kv("k", js("discr")), kv("place", place_json(cx, body, p))]),
        Rvalue::Repeat(x, n) => obj(vec![kv("k", js("repeat")), kv("x", op_json(cx, body, x)), kv("n", js(&format!("{:?}", n)))]),
        Rvalue::Aggregate(ak, ops) => {
            let mut it = vec![kv("k", js("aggregate"))];
            match &**ak {
                AggregateKind::Tuple => it.push(kv("agg", js("tuple"))),
                AggregateKind::Array(_) => it.push(kv("agg", js("array"))),
                AggregateKind::Adt(did, vidx, _, _, _) => {
                    it.push(kv("agg", js("adt")));
                    let def = tcx.adt_def(*did);
                    it.push(kv("adt", js(&tcx.def_path_str(*did))));
                    let v = def.variant(*vidx);
                    it.push(kv("variant", js(v.name.as_str())));
                    it.push(kv("vi", format!("{}", vidx.as_usize())));
                    it.push(kv("fields", arr(v.fields.iter().map(|f| js(f.name.as_str())).collect())));
                }
                AggregateKind::Closure(did, _) => { it.push(kv("agg", js("closure"))); it.push(kv("def", js(&tcx.def_path_str(*did)))); }
                other => { it.push(kv("agg", js("other"))); it.push(kv("dbg", js(&format!("{:?}", other)))); }
            }
            it.push(kv("ops", arr(ops.iter().map(|o| op_json(cx, body, o)).collect())));
            obj(it)
        }
        Rvalue::ThreadLocalRef(did) => obj(vec![kv("k", js("tlsref")), kv("static", js(&tcx.def_path_str(*did)))]),
        Rvalue::CopyForDeref(p) => obj(vec![kv("k", js("use")), kv("x", obj(vec![kv("k", js("copy")), kv("place", place_json(cx, body, p))]))]),
        other => obj(vec![kv("k", js("other")), kv("dbg", js(&format!("{:?}", other)))]),
    }
}

fn span_str<'tcx>(tcx: TyCtxt<'tcx>, sp: rustc_span::Span) -> String {
    let sm = tcx.sess.source_map();
    let sp = sp.source_callsite();
    let lo = sm.lookup_char_pos(sp.lo());
    let name = format!("{}", lo.file.name.prefer_local_unconditionally());
    format!("{}:{}", name, lo.line)
}

fn callee_json<'tcx>(cx: &Cx<'tcx>, func: &Operand<'tcx>) -> String {
    let tcx = cx.tcx;
    if let Some((did, args)) = func.const_fn_def() {
        let args2 = match cx.subst { Some(s) => ty::EarlyBinder::bind(args).instantiate(tcx, s).skip_norm_wip(), None => args };
        let mut it = vec![
            kv("k", js("direct")),
            kv("path", js(&tcx.def_path_str(did))),
            kv("full", js(&tcx.def_path_str_with_args(did, args2))),
            kv("local", format!("{}", did.is_local())),
            kv("krate", js(tcx.crate_name(did.krate).as_str())),
        ];
        if let Some(tr) = tcx.trait_of_assoc(did) { it.push(kv("trait", js(&tcx.def_path_str(tr)))); }
        match Instance::try_resolve(tcx, cx.tenv, did, args2) {
            Ok(Some(inst)) => {
                let rd = inst.def_id();
                it.push(kv("resolved", js(&tcx.def_path_str(rd))));
                it.push(kv("resolved_full", js(&tcx.def_path_str_with_args(rd, inst.args))));
                it.push(kv("resolved_local", format!("{}", rd.is_local())));
                it.push(kv("resolved_krate", js(tcx.crate_name(rd.krate).as_str())));
                it.push(kv("resolved_kind", js(&format!("{:?}", inst.def).split('(').next().unwrap_or("").to_string())));
                if let Some(impl_did) = tcx.impl_of_assoc(rd) {
                    let st = tcx.type_of(impl_did).instantiate_identity().skip_norm_wip();
                    it.push(kv("impl_self", js(&format!("{}", st))));
                }
                it.push(kv("mir_available", format!("{}", tcx.is_mir_available(rd))));
            }
            _ => it.push(kv("resolved", "null".into())),
        }
        obj(it)
    } else {
        obj(vec![kv("k", js("indirect")), kv("dbg", js(&format!("{:?}", func)))])
    }
}

fn block_json<'tcx>(cx: &Cx<'tcx>, body: &Body<'tcx>, data: &BasicBlockData<'tcx>) -> String {
    let tcx = cx.tcx;
    let mut stmts = Vec::new();
    for st in &data.statements {
        let line = span_str(tcx, st.source_info.span);
        match &st.kind {
            StatementKind::Assign(b) => stmts.push(obj(vec![kv("k", js("assign")), kv("place", place_json(cx, body, &b.0)), kv("rv", rvalue_json(cx, body, &b.1)), kv("at", js(&line)), kv("exp", format!("{}", st.source_info.span.from_expansion()))])),
            StatementKind::SetDiscriminant { place, variant_index } => stmts.push(obj(vec![kv("k", js("setdiscr")), kv("place", place_json(cx, body, place)), kv("vi", format!("{}", variant_index.as_usize())), kv("at", js(&line))])),
            StatementKind::StorageDead(l) => stmts.push(obj(vec![kv("k", js("dead")), kv("local", format!("{}", l.as_usize()))])),
            StatementKind::StorageLive(_) | StatementKind::Nop | StatementKind::FakeRead(..) | StatementKind::PlaceMention(..) | StatementKind::AscribeUserType(..) | StatementKind::Coverage(..) | StatementKind::ConstEvalCounter | StatementKind::BackwardIncompatibleDropHint { .. } => {}
            other => stmts.push(obj(vec![kv("k", js("other")), kv("dbg", js(&format!("{:?}", other))), kv("at", js(&line))])),
        }
    }
    let t = data.terminator();
    let line = span_str(tcx, t.source_info.span);
    let exp = t.source_info.span.from_expansion();
    let term = match &t.kind {
        TerminatorKind::Goto { target } => obj(vec![kv("k", js("goto")), kv("target", format!("{}", target.as_usize()))]),
        TerminatorKind::SwitchInt { discr, targets } => {
            let ts: Vec<String> = targets.iter().map(|(v, bb)| format!("[{},{}]", v, bb.as_usize())).collect();
            obj(vec![kv("k", js("switch")), kv("discr", op_json(cx, body, discr)), kv("targets", arr(ts)), kv("otherwise", format!("{}", targets.otherwise().as_usize())), kv("at", js(&line))])
        }
        TerminatorKind::Return => obj(vec![kv("k", js("return")), kv("at", js(&line))]),
        TerminatorKind::Unreachable => obj(vec![kv("k", js("unreachable"))]),
        TerminatorKind::UnwindResume => obj(vec![kv("k", js("resume"))]),
        TerminatorKind::UnwindTerminate(_) => obj(vec![kv("k", js("terminate"))]),
        TerminatorKind::Drop { place, target, .. } => obj(vec![kv("k", js("drop")), kv("place", place_json(cx, body, place)), kv("target", format!("{}", target.as_usize()))]),
        TerminatorKind::Call { func, args, destination, target, fn_span, .. } => obj(vec![
            kv("k", js("call")),
            kv("callee", callee_json(cx, func)),
            kv("args", arr(args.iter().map(|a| op_json(cx, body, &a.node)).collect())),
            kv("dest", place_json(cx, body, destination)),
            kv("target", target.map(|t| format!("{}", t.as_usize())).unwrap_or("null".into())),
            kv("at", js(&span_str(tcx, *fn_span))),
            kv("exp", format!("{}", exp)),
        ]),
        TerminatorKind::Assert { cond, expected, msg, target, .. } => {
            let kind = format!("{:?}", msg);
            let kind_short = kind.split('(').next().unwrap_or("").to_string();
            obj(vec![kv("k", js("assert")), kv("cond", op_json(cx, body, cond)), kv("expected", format!("{}", expected)), kv("msg", js(&kind_short)), kv("msg_full", js(&kind)), kv("target", format!("{}", target.as_usize())), kv("at", js(&line)), kv("exp", format!("{}", exp))])
        }
        other => obj(vec![kv("k", js("other")), kv("dbg", js(&format!("{:?}", other))), kv("succ", arr(t.successors().map(|b| format!("{}", b.as_usize())).collect()))]),
    };
    obj(vec![kv("stmts", arr(stmts)), kv("term", term), kv("cleanup", format!("{}", data.is_cleanup))])
}

fn body_json<'tcx>(cx: &Cx<'tcx>, did: DefId, key: &str, self_ty: Option<String>) -> String {
    let tcx = cx.tcx;
    let body = tcx.optimized_mir(did);
    let kind = tcx.def_kind(did);
    let mut it = vec![
        kv("key", js(key)),
        kv("path", js(&tcx.def_path_str(did))),
        kv("kind", js(&format!("{:?}", kind))),
        kv("at", js(&span_str(tcx, tcx.def_span(did)))),
        kv("arg_count", format!("{}", body.arg_count)),
    ];
    if let Some(s) = self_ty { it.push(kv("inst_self", js(&s))); }
    if matches!(kind, DefKind::Fn | DefKind::AssocFn) {
        it.push(kv("vis", js(&format!("{:?}", tcx.visibility(did)))));
        let sig = tcx.fn_sig(did).instantiate_identity().skip_norm_wip().skip_binder();
        it.push(kv("unsafe", format!("{}", sig.safety().is_unsafe())));
        it.push(kv("abi", js(&format!("{:?}", sig.abi()))));
        if let Some(tr) = tcx.trait_of_assoc(did) { it.push(kv("trait", js(&tcx.def_path_str(tr)))); }
        if let Some(im) = tcx.impl_of_assoc(did) {
            let st = tcx.type_of(im).instantiate_identity().skip_norm_wip();
            it.push(kv("impl_self", js(&format!("{}", st))));
            if let Some(tr) = tcx.impl_opt_trait_ref(im) { it.push(kv("impl_trait", js(&tcx.def_path_str(tr.skip_binder().def_id)))); }
        }
    }
    if matches!(kind, DefKind::Closure) { it.push(kv("parent", js(&tcx.def_path_str(tcx.typeck_root_def_id(did))))); }
    let mut locals = Vec::new();
    for (_l, decl) in body.local_decls.iter_enumerated() { locals.push(ty_json(tcx, decl.ty)); }
    it.push(kv("locals", arr(locals)));
    let mut dbg = Vec::new();
    for vdi in &body.var_debug_info {
        if let rustc_middle::mir::VarDebugInfoContents::Place(p) = &vdi.value { if p.projection.is_empty() { dbg.push(format!("[{},{}]", p.local.as_usize(), js(vdi.name.as_str()))); } }
    }
    it.push(kv("debug", arr(dbg)));
    let mut blocks = Vec::new();
    for (_bb, data) in body.basic_blocks.iter_enumerated() { blocks.push(block_json(cx, body, data)); }
    it.push(kv("blocks", arr(blocks)));
    if did.is_local() && !matches!(kind, DefKind::Closure) || matches!(kind, DefKind::Closure) {
        let mut proms = Vec::new();
        for pbody in tcx.promoted_mir(did).iter() {
            let mut pl = Vec::new();
            for (_l, decl) in pbody.local_decls.iter_enumerated() { pl.push(ty_json(tcx, decl.ty)); }
            let mut pb = Vec::new();
            for (_bb, data) in pbody.basic_blocks.iter_enumerated() { pb.push(block_json(cx, pbody, data)); }
            proms.push(obj(vec![kv("locals", arr(pl)), kv("blocks", arr(pb))]));
        }
        it.push(kv("promoted", arr(proms)));
    }
    obj(it)
}

struct Cb;
impl rustc_driver::Callbacks for Cb {
    fn after_analysis<'tcx>(&mut self, _c: &rustc_interface::interface::Compiler, tcx: TyCtxt<'tcx>) -> Compilation {
        let out_dir = match std::env::var("MIRFACTS_OUT") { Ok(d) => d, Err(_) => return Compilation::Continue };
        let krate = tcx.crate_name(rustc_span::def_id::LOCAL_CRATE).to_string();
        let only = std::env::var("MIRFACTS_CRATES").unwrap_or_default();
        if !only.is_empty() && !only.split(',').any(|c| c == krate) { return Compilation::Continue; }
        let mut fns = Vec::new();
        let mut nbodies = 0usize;
        for &ldid in tcx.mir_keys(()).iter() {
            let did = ldid.to_def_id();
            let kind = tcx.def_kind(did);
            if !matches!(kind, DefKind::Fn | DefKind::AssocFn | DefKind::Closure) { continue; }
            let cx = Cx { tcx, tenv: TypingEnv::post_analysis(tcx, did), subst: None };
            let key = tcx.def_path_str(did);
            fns.push(body_json(&cx, did, &key, None));
            nbodies += 1;
        }
        // per-impl instantiations of provided trait methods
        for id in tcx.hir_free_items() {
            let tdid = id.owner_id.to_def_id();
            if tcx.def_kind(tdid) != DefKind::Trait { continue; }
            for impl_did in tcx.all_impls(tdid) {
                if !impl_did.is_local() { continue; }
                let self_ty = tcx.type_of(impl_did).instantiate_identity().skip_norm_wip();
                let overridden: Vec<DefId> = tcx.associated_items(impl_did).in_definition_order().filter_map(|i| i.trait_item_def_id()).collect();
                for item in tcx.associated_items(tdid).in_definition_order() {
                    if !item.is_fn() || !item.defaultness(tcx).has_value() { continue; }
                    let mdid = item.def_id;
                    if overridden.contains(&mdid) { continue; }
                    if !tcx.is_mir_available(mdid) { continue; }
                    let margs = ty::GenericArgs::for_item(tcx, mdid, |p, _| if p.index == 0 { self_ty.into() } else { tcx.mk_param_from_def(p) });
                    let cx = Cx { tcx, tenv: TypingEnv::post_analysis(tcx, impl_did), subst: Some(margs) };
                    let key = format!("{}@{}", tcx.def_path_str(mdid), self_ty);
                    fns.push(body_json(&cx, mdid, &key, Some(format!("{}", self_ty))));
                }
            }
        }
        // ADTs, statics, consts
        let mut adts = Vec::new();
        let mut statics = Vec::new();
        let mut consts = Vec::new();
        let mut traits = Vec::new();
        for ldid in tcx.hir_crate_items(()).definitions() {
            let did = ldid.to_def_id();
            match tcx.def_kind(did) {
                DefKind::Struct | DefKind::Enum | DefKind::Union => {
                    let def = tcx.adt_def(did);
                    let mut vs = Vec::new();
                    for (vi, v) in def.variants().iter_enumerated() {
                        let fields: Vec<String> = v.fields.iter().map(|f| obj(vec![kv("name", js(f.name.as_str())), kv("ty", ty_json(tcx, tcx.type_of(f.did).instantiate_identity().skip_norm_wip())), kv("vis", js(&format!("{:?}", f.vis)))])).collect();
                        let discr = if def.is_enum() { format!("{}", def.discriminant_for_variant(tcx, vi).val) } else { "null".into() };
                        vs.push(obj(vec![kv("name", js(v.name.as_str())), kv("discr", discr), kv("fields", arr(fields))]));
                    }
                    adts.push(obj(vec![kv("path", js(&tcx.def_path_str(did))), kv("kind", js(&format!("{:?}", tcx.def_kind(did)))), kv("repr_c", format!("{}", def.repr().c())), kv("variants", arr(vs)), kv("at", js(&span_str(tcx, tcx.def_span(did))))]));
                }
                DefKind::Static { mutability, nested, .. } => {
                    let t = tcx.type_of(did).instantiate_identity().skip_norm_wip();
                    statics.push(obj(vec![kv("path", js(&tcx.def_path_str(did))), kv("thread_local", format!("{}", tcx.is_thread_local_static(did))), kv("mutable", format!("{}", mutability.is_mut())), kv("nested", format!("{}", nested)), kv("freeze", format!("{}", t.is_freeze(tcx, TypingEnv::fully_monomorphized()))), kv("ty", js(&format!("{}", t))), kv("at", js(&span_str(tcx, tcx.def_span(did))))]));
                }
                DefKind::Const { .. } => {
                    let t = tcx.type_of(did).instantiate_identity().skip_norm_wip();
                    let mut it = vec![kv("path", js(&tcx.def_path_str(did))), kv("ty", js(&format!("{}", t)))];
                    if t.is_integral() {
                        if let Ok(v) = tcx.const_eval_poly(did) { if let Some(s) = v.try_to_scalar_int() { it.push(kv("val", format!("{}", s.to_bits_unchecked()))); } }
                    }
                    consts.push(obj(it));
                }
                DefKind::Trait => {
                    let impls: Vec<String> = tcx.all_impls(did).map(|i| js(&format!("{}", tcx.type_of(i).instantiate_identity().skip_norm_wip()))).collect();
                    traits.push(obj(vec![kv("path", js(&tcx.def_path_str(did))), kv("impls", arr(impls))]));
                }
                _ => {}
            }
        }
        let doc = obj(vec![
            kv("crate", js(&krate)),
            kv("nbodies", format!("{}", nbodies)),
            kv("fns", arr(fns)),
            kv("adts", arr(adts)),
            kv("statics", arr(statics)),
            kv("consts", arr(consts)),
            kv("traits", arr(traits)),
        ]);
        let crate_type = format!("{:?}", tcx.crate_types().first());
        let path = format!("{}/{}.{}.{}.json", out_dir, krate, crate_type.replace(|c: char| !c.is_alphanumeric(), ""), std::process::id());
        std::fs::write(&path, doc).expect("write facts");
        Compilation::Continue
    }
}

fn main() {
    let mut args: Vec<String> = std::env::args().collect();
    if args.len() > 1 && (args[1].ends_with("rustc") || args[1].contains("/rustc")) { args.remove(1); }
    rustc_driver::run_compiler(&args, &mut Cb);
}
