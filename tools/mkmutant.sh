#!/bin/bash
# usage: tools/mkmutant.sh <Cxx-name> "<expect rule ids or 'silent'>" "<what>"
# Takes the uncommitted diff of the authoring worktree /tmp/w/mutwt, stores it as a self-test mutant, resets the worktree.
set -e
WT=${MUTWT:-/tmp/w/mutwt}
name=$1; expect=$2; what=$3
out=/verif/selftest/mutants/$name.patch
{ echo "# expect: $expect"; echo "# what: $what"; git -C $WT diff; } > $out
git -C $WT checkout -q -- .
echo wrote $out; grep -c '^[-+][^-+]' $out
