#!/bin/bash
# usage: tools/confirm_refactor.sh <dir with patch.diff and seeded_demo.rs>
# Confirms, in a scratch worktree of /repo outside /repo and /verif, that the seeded change compiles,
# keeps the 46 baseline tests green, and that the differential test passes with and without it (behaviour-preserving refactor).
set -u
d=$(realpath $1)
wt=$(mktemp -d /tmp/verif-seedwt-XXXX)
git -C /repo worktree add -q --detach $wt HEAD || exit 2
cleanup() { git -C /repo worktree remove --force $wt >/dev/null 2>&1; rm -rf $wt; }
trap cleanup EXIT
cd $wt
export CARGO_NET_OFFLINE=true
cp $d/seeded_demo.rs tests/seeded_demo.rs
echo "== demo WITHOUT the change (must pass)"
cargo test --offline --test seeded_demo 2>&1 | grep -E "^test result|error(\[|:)" | head -3
git apply $d/patch.diff || { echo "PATCH DOES NOT APPLY"; exit 3; }
echo "== build with the change"
cargo build --offline --features hooks 2>&1 | grep -cE "^warning" | sed "s/^/warnings=/"; cargo build --offline 2>&1 | tail -1
echo "== baseline tests with the change (must be 46 passed)"
mv tests/seeded_demo.rs /tmp/seeded_demo_$$.rs
cargo test --workspace --no-fail-fast --offline 2>&1 | grep -E "^test result" | awk '{p+=$4; f+=$6} END {print "passed="p" failed="f}'
mv /tmp/seeded_demo_$$.rs tests/seeded_demo.rs
echo "== demo WITH the change (must pass too)"
cargo test --offline --test seeded_demo 2>&1 | grep -E "^test result|error(\[|:)" | head -3
