#!/bin/bash
# usage: tools/run_seed_scratch.sh <dir with patch.diff> <Cxx> [Cxx ...]
# Like run_seed.sh but leaves /repo alone: copies /repo's working tree to a scratch directory outside /repo and
# /verif, applies the change there and runs the quick checks against the copy (VERIF_REPO). Removes the copy.
d=$(realpath $1); shift
here=$(cd "$(dirname "$0")/.." && pwd)
work=$(mktemp -d /tmp/verif-seedrun-XXXX)
trap 'rm -rf $work' EXIT
rsync -a --exclude target --exclude .git /repo/ $work/repo/
( cd $work/repo && patch -p1 -s -i $d/patch.diff ) || { echo "PATCH DOES NOT APPLY"; exit 3; }
for p in "$@"; do
  VERIF_REPO=$work/repo VERIF_EVIDENCE_DIR=$work/ev $here/check $p --tier quick | grep -vE "^  path" | cut -c1-260
done
