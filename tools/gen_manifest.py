#!/usr/bin/env python3
"""Regenerates MANIFEST.json from tools/manifest_src.py (kept as python so that long texts stay readable)."""
import json, os, sys
sys.path.insert(0, os.path.dirname(os.path.abspath(__file__)))
import manifest_src as M
ids = ['C%02d' % i for i in range(1, 19)]
checks = []
for pid in ids:
    c = M.CHECKS.get(pid)
    if not c:
        continue
    checks.append({
        'property_id': pid,
        'quick_cmd': './check %s --tier quick' % pid,
        'thorough_cmd': './check %s --tier thorough' % pid,
        'evidence_file': '/verif/evidence/%s.json' % pid,
        'replay_cmd_template': './check %s --explain {path}' % pid,
        'engine': c['engine'],
        'level_claimed': {'category': c['level'], 'text': c['text'], 'design_ref': c['design_ref']},
        'level_note': c['note'],
        'technique': c['technique'],
    })
na = [{'property_id': pid, 'reason': M.NOT_APPLICABLE[pid]} for pid in ids if pid not in M.CHECKS]
for pid in ids:
    assert (pid in M.CHECKS) != (pid in M.NOT_APPLICABLE), pid
m = {
    'version': 1,
    'setup_cmd': 'cd /verif/driver && CARGO_NET_OFFLINE=true cargo build --release --offline',
    'hooks': {
        'guard': 'dnssector_verif',
        'enable': 'none needed: the checks read the MIR of the unmodified sources (RUSTC_WORKSPACE_WRAPPER=/verif/driver/target/release/mirfacts under cargo +nightly check)',
        'baseline_off_cmd': 'cd /repo && cargo test --workspace --no-fail-fast --offline',
        'source_commits': [],
        'add_only': True,
    },
    'engines': M.ENGINES,
    'checks': checks,
    'notes': M.NOTES,
    'not_applicable': na,
}
json.dump(m, open(os.path.join(os.path.dirname(os.path.dirname(os.path.abspath(__file__))), 'MANIFEST.json'), 'w'), indent=1)
print('checks', len(checks), 'not_applicable', len(na))
