#!/bin/bash
# usage: tools/run_seed.sh <seeded dir> [Cxx ...]   (default: the property named in meta.json)
# Applies the seeded change to /repo, runs the quick checks (evidence redirected to a scratch dir), undoes the change.
d=$(realpath $1); shift
props="$@"
[ -z "$props" ] && props=$(python3 -c "import json,sys; print(json.load(open('$d/meta.json'))['property'])")
[ -n "$(git -C /repo status --porcelain --untracked-files=no)" ] && { echo "/repo has uncommitted changes"; exit 2; }
git -C /repo apply $d/patch.diff || exit 3
ev=$(mktemp -d /tmp/verif-seedev-XXXX)
for p in $props; do
  VERIF_EVIDENCE_DIR=$ev /verif/check $p --tier quick | grep -vE "^  path" | cut -c1-260
done
git -C /repo checkout -- .
rm -rf $ev
