#!/bin/bash
# usage: tools/ingest_refactor.sh <agent out dir> <Cxx> <suffix>
# Stores a behaviour-preserving refactor written by an independent sub-agent under refactors/<Cxx>-<suffix>/, confirms it
# (builds, 46 tests, differential test green on both sides) and runs the property's quick check against a scratch copy with it applied.
set -u
src=$1; p=$2; suf=$3
d=/verif/refactors/$p-$suf
mkdir -p $d
cp $src/patch.diff $src/seeded_demo.rs $src/notes.md $d/ 2>/dev/null
echo "#### confirm $p-$suf"
/verif/tools/confirm_refactor.sh $d 2>&1 | tee $d/.confirm.txt | grep -E "==|test result|passed=|warnings=|PATCH"
echo "#### check $p"
/verif/tools/run_seed_scratch.sh $d $p 2>&1 | tee $d/.check.txt | grep -E "^VIOLATION|quick:|KNOWN"
