#!/bin/bash
# usage: tools/ingest_seed.sh <out dir of a seeding agent> <Cxx> <suffix>
# Copies patch.diff / seeded_demo.rs / notes.md to seeded/<Cxx>-<suffix>/, confirms the change in a scratch
# worktree (tools/confirm_seed.sh) and runs the property's quick check against a scratch copy carrying it.
src=$1; p=$2; sfx=$3
here=$(cd "$(dirname "$0")/.." && pwd)
dst=$here/seeded/$p-$sfx
mkdir -p $dst
cp $src/patch.diff $src/seeded_demo.rs $src/notes.md $dst/
echo "#### confirm $p-$sfx"
$here/tools/confirm_seed.sh $dst 2>&1 | tee $dst/.confirm.txt
echo "#### check $p"
$here/tools/run_seed_scratch.sh $dst $p 2>&1 | tee $dst/.check.txt | grep -E "VIOLATION|KNOWN|quick:|PATCH" | cut -c1-400
