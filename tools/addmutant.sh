#!/bin/bash
# usage: tools/addmutant.sh <patch file> <name> "<expect>" "<what>"
{ echo "# expect: $3"; echo "# what: $4"; cat $1; } > /verif/selftest/mutants/$2.patch; echo added $2
