#!/bin/bash
# usage: tools/run_all.sh [quick|thorough]   runs every registered check, prints one line each, validates the evidence files
tier=${1:-quick}
cd "$(dirname "$(dirname "$(readlink -f "$0")")")"
fail=0
for id in $(python3 -c "import json; print(' '.join(c['property_id'] for c in json.load(open('MANIFEST.json'))['checks']))"); do
  out=$(./check $id --tier $tier 2>&1); rc=$?
  echo "$out" | tail -1
  [ $rc -ne 0 ] && { fail=1; echo "$out" | grep -A4 VIOLATION | head -20; }
done
python3-vt - <<'PY'
import json,jsonschema,glob
sch=json.load(open('/root/.vp/EVIDENCE.schema.json'))
jsonschema.validate(json.load(open('MANIFEST.json')), json.load(open('/root/.vp/MANIFEST.schema.json')))
bad=0
for f in sorted(glob.glob('evidence/C*.json')):
    try: jsonschema.validate(json.load(open(f)), sch)
    except Exception as e: print('INVALID', f, str(e)[:200]); bad+=1
print('evidence files valid' if not bad else '%d invalid evidence files'%bad)
PY
exit $fail
