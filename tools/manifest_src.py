ENGINES = [
    {'name': 'E0 mirfacts', 'path': 'driver/', 'serves_properties': ['C%02d' % i for i in range(1, 19)],
     'kind_free_text': 'rustc_private driver dumping type-checked MIR (resolved callees, field names, evaluated constants, statics, promoted bodies) as JSON; injected with RUSTC_WORKSPACE_WRAPPER under cargo +nightly check on the current working tree'},
    {'name': 'E1 call graph + effects', 'path': 'analysis/facts.py analysis/effects.py', 'serves_properties': ['C16', 'C17'],
     'kind_free_text': 'whole-crate call graph (fn items as values and closures are edges, CHA for unresolved trait calls) and transitive effect sets'},
    {'name': 'E3 bit-precise evaluator', 'path': 'analysis/bits.py rules/layout.py', 'serves_properties': ['C04', 'C12'],
     'kind_free_text': 'integers as vectors of bits, each bit a truth table over <= 8 named input bits; byte arrays at constant offsets; loop-free code only'},
    {'name': 'E4 relational abstract interpreter', 'path': 'analysis/interp.py analysis/lin.py analysis/e4.py', 'serves_properties': ['C01', 'C02', 'C05', 'C06', 'C07', 'C13', 'C14', 'C18'],
     'kind_free_text': 'abstract interpretation of MIR over linear constraints between immutable symbols; entailment by Fourier-Motzkin with gcd tightening; summaries with bad-region lifting; weak join, widening with thresholds, progress-ratio candidates; post-fixpoint ranking search'},
    {'name': 'E5 tables (clang AST vs MIR)', 'path': 'rules/C15.py tables/', 'serves_properties': ['C15'],
     'kind_free_text': 'clang -Xclang -ast-dump=json of src/bin/c_hook/c_hook.h compared with the ADT/fn-pointer types of the type-checked Rust crate'},
    {'name': 'E2 event automata', 'path': 'analysis/cfg.py analysis/pkt.py', 'serves_properties': ['C03', 'C08', 'C09', 'C10', 'C11'],
     'kind_free_text': 'forward data-flow of (automaton state, known enum variants) over the MIR CFG with per-callee summaries; keeps Ok/Err outcomes apart until the ? has branched'},
]
NOTES = ('Static analysis only: no registered check executes dnssector code or calls a solver. Each ./check re-extracts MIR facts from '
         "$VERIF_REPO (default /repo)'s working tree into a fresh temporary target directory. See DESIGN.md. "
         'One known finding is reported on every run (C06: D18, pointer chains deeper than the parser follows; known_findings.json). '
         'The rules were exercised with 180 independently seeded breaking changes (seeded/; wave i hides the defect inside a refactoring '
         'commit, wave j aims at the clause least likely to be watched) and 105 behaviour-preserving refactors (refactors/: 18 small everyday edits, all silent under all 18 checks; two independent medium '
         'waves, 17 of 18 silent each - the second one 15 of 18 as the checks stood, before anything was adjusted to it; 18 heavy restructurings, 10 '
         'silent; a last wave of 18 larger clean-ups, 10 silent as the checks stood and 11 now; 15 repaired halves of the hidden-defect wave, 13 silent while their seeded twins alarm); the restructurings that still raise an '
         'alarm although the property holds are listed in DESIGN.md section 7 and kept under selftest/pending.')
PENDING = 'rule engine for this property is not committed yet in this revision of /verif (see DESIGN.md section 6, build order); not claimed until it is'
CHECKS = {
    'C16': {
        'engine': 'E1 call graph + effects',
        'level': 'proof',
        'technique': 'effect/ownership analysis on MIR: non-interference via thread-local confinement of the error slot',
        'design_ref': 'DESIGN.md section 4, C16',
        'text': ('Proof by non-interference for every interleaving: (1) no process-wide mutable or interior-mutable static is reachable from any C-table entry, '
                 '(2) every store to CErr.description_cs and the store of the out-pointer sit in a closure run by LocalKey::with on a key backed only by #[thread_local] statics, '
                 'and the published pointer is traced back to that thread-local RefCell, (3) error_description reads nothing but its argument, '
                 '(4) throw_err is called only with the payload of an Err, so the slot changes only on a failure of the calling thread. '
                 'and no body that stores to the slot is reachable from the C table once throw_err is cut out of the call graph. '
                 'Under Rust TLS semantics no other thread can reach the slot, so all schedules are covered without enumerating any.'
             ' The body that stores the description cannot reach its return without storing (what is retrieved is the most recent failure).'),
        'note': 'Trusted: rustc MIR/trait resolution, Rust thread_local semantics, the rule engines. Assumes a hook does not hand a CErr pointer to another thread.',
    },
}
CHECKS['C17'] = {
    'engine': 'E1 call graph + effects',
    'level': 'proof',
    'technique': 'transitive effect analysis on the MIR call graph: effect freedom of the pure entry points',
    'design_ref': 'DESIGN.md section 4, C17',
    'text': ('Proof by effect freedom over all call histories and schedules: the local bodies reachable from parse, (un)compress, both rename entry points and record synthesis '
             '(fn items passed as values and closures are call edges) reference no static, thread-local or LocalKey, make no indirect call and no pointer<->integer conversion, '
             'and every external callee belongs to a crate classified pure (core/std/alloc/byteorder/hex/chomp/anyhow) and matches none of the ambient-state deny patterns '
             '(rand, time, env, fs, io, sockets, process, thread, RandomState/HashMap, sync, libc, uninitialised memory). rand is called only from ParsedPacket::empty and its value flows only into set_tid. '
             'With no state surviving a call and no ambient input, equal arguments give equal results whatever ran before or runs concurrently.'
             ' The same holds below every getter of the parsed object and every C-table entry, with throw_err (the only legitimate user of the thread-local error slot) cut out of the call graph.'),
    'note': 'Trusted: the per-crate classification in tables/extern_effects.json (dependency MIR is not re-analysed), rustc MIR/trait resolution. Unclassified leaves fail closed.',
}
CHECKS['C03'] = {
    'engine': 'E2 event automata', 'level': 'other',
    'technique': 'path-sensitive typestate/pairing automata on the MIR CFG + call-graph effect check',
    'design_ref': 'DESIGN.md section 4, C03',
    'text': ('Decides structural necessary conditions, for all paths: (a) in every body that moves a cursor, advances (offset <- Some(offset_next)) and rrs_left decrements are paired on every path '
             'to every exit and each decrement is dominated by the rrs_left == 0 test; (b) none of the accessors / next* / into_iter_* can reach a store to or a mutable borrow of any ParsedPacket field; '
             '(d) ResponseIterator::next is next_including_opt followed by a skip that advances only under rr_type() == Type::OPT. '
             'Does NOT decide that the values returned equal an independent decode for every accepted packet, nor panic-freedom of the trusted readers (run-time invariants of accepted packets).'
             ' (f) a step function returns None only on the true side of a `<header count | edns_count | rrs_left> == 0` test.'
             ' (g) the premise of the unchecked address readers: every accepting path with type A / AAAA passed the exact-size test.'
             ' (h) every assertion in the trusted name skipper is implied (linear entailment) by what the validator guarantees behind a name position.'
             ' (j) who may produce an owner name: the vector filled by copy_raw_name reaches no callee but Compress::copy_uncompressed_name, name() hands out only the result of Compress::raw_name_to_str.'
             ' (i) every length demand of rr_ip beyond the 10 fixed record bytes (assertion or constant sub-slice) is dominated by the true edge of the record-type test whose validated size covers it.'),
    'note': 'Structural clauses only; the behavioural equality with an RFC 1035 decode is not claimed. Trusted: rustc MIR, the rule engines.',
}
CHECKS['C08'] = {
    'engine': 'E2 event automata + E4', 'level': 'other',
    'technique': 'path-sensitive must-pass / protocol automata on the MIR CFG with packet-buffer provenance, plus sibling cross-checks of field-write tables',
    'design_ref': 'DESIGN.md section 4, C08',
    'text': ('Decides, for all paths through the listed mutating operations (and fails closed on any other public mutator found by effects): (a) a path that shifts a section offset also shifts offset_edns; '
             '(b) every successful path that replaces, resizes or overwrites name bytes of the packet buffer (provenance-tracked) stores cached = None, with maybe_compressed tracked so that recompute\'s early return is only taken where feasible; '
             '(d) each in-place decompression site takes the reference offset from offset(), stores the translated offset with set_offset before recompute_rr and calls recompute_sections; '
             '(e) RRIterator::recompute derives offset_next per section exactly as the iterator of that section does; (f) re-parse writers copy all five offsets from same-named fields, compare the EDNS summaries and install the parsed bytes; '
             '(h, E4) every closure that shifts a recorded offset in resize_rr / insert_rr returns x or x + the splice amount on each path, identity paths confined to offsets at or before the cursor, and the offset_edns closure of resize_rr distinguishes OPT before / behind the resized record; '
             '(g) no operation returns Ok with the packet taken out. These are necessary conditions of "object view == fresh parse"; the equality itself over arbitrary operation sequences is a run-time relation and is NOT decided.'
             ' (i) no cursor position read before the packet is replaced by its decompressed form is used after the replacement.'
             ' (f) path-sensitively: no successful path installs new packet bytes without refreshing all five recorded offsets.'),
    'note': 'Structural clauses only. Known unclaimed corner: in-place decompression under an EDNS-option cursor (D19, DESIGN.md section 5). Trusted: rustc MIR, the rule engines.',
}
CHECKS['C10'] = {
    'engine': 'E2 event automata', 'level': 'other',
    'technique': 'path-sensitive check-before-modify / ordering automata on the MIR CFG with packet-buffer provenance',
    'design_ref': 'DESIGN.md section 4, C10',
    'text': ('Decides for all paths through the mutating operations: (a) no path reaches an Err return after a destructive event (packet replaced by anything but decompressor output, packet taken, buffer length change, '
             'packet/header/count bytes overwritten, offset or summary field stored), with three listed one-call exceptions; (b) in insert_rr every buffer growth is preceded, on every path, by a comparison against '
             'DNS_MAX_UNCOMPRESSED_SIZE (= 8192) made after the last replacement of the packet, i.e. on the buffer that is spliced; (c) the tombstone test (and in set_raw_name the name validation) precedes every destructive event. '
             'The arithmetic side of the limit (no wrap-around in the comparison) is left to the E4 rule when built; run-time equality "still decodes to the same message" is NOT decided.'),
    'note': 'Exceptions in tables/exceptions.json (printed in evidence; stale ones are reported). Trusted: rustc MIR, rule engines.',
}
CHECKS['C11'] = {
    'engine': 'E2 event automata', 'level': 'other',
    'technique': 'protocol automaton over every successful path of delete + dominance checks in the iterators',
    'design_ref': 'DESIGN.md section 4, C11',
    'text': ('Decides: (a) on every successful path of TypedIterable::delete (both instantiations): section computed before the splice, exactly one resize_rr by -(offset_next - offset), set_offset_next(offset), invalidate, '
             'exactly one rrcount_dec of the section obtained from current_section, and the start offset of that very section is cleared exactly under the count <= 0 test; (b) in every next*: the unwrap of the section start is dominated by '
             'the count == 0 -> None test on the current header count and rrs_left is re-initialised only under offset.is_none(); (c) advances and rrs_left decrements are paired on all paths (termination measure). '
             'Which records are yielded/survive for every deletion pattern is a run-time sequence property and is NOT decided.'
             ' (d) in delete the cursor offset is tested (VoidRecord) before any destructive event and before any unwrap/expect of it, in the ok_or, match and is_some forms.'
             ' (e) current_section answers only sections rrcount_dec has an arm for, each non-Question verdict dominated by offset >= that section\'s start.'
             ' (f) the splice of a deletion happens only where the packet is known to be pointer-free (the C09.e automaton on delete).'
             ' (a, stale cursor) no cursor position that flows into the length handed to resize_rr is read where a relocation of the cursor can still follow; set_offset_next(offset) may be left to resize_rr when that ends with offset_next += shift.'
             ' (g) every successful deletion resets the cached question (the C08.b automaton on delete): an emptied question reads as absent through the cached getters too.'),
    'note': 'Structural clauses only. Trusted: rustc MIR, rule engines.',
}
CHECKS['C12'] = {
    'engine': 'E3 bit-precise evaluator', 'level': 'proof',
    'technique': 'bit-precise abstract evaluation of loop-free MIR: exact Boolean function of every header bit, compared with the RFC 1035 spec table',
    'design_ref': 'DESIGN.md section 4, C12',
    'text': ('Proof for all 2^16 header words x all argument values: for set_flags, set_opcode, set_rcode, set_response (both), set_tid and the four count setters the exact Boolean function of each of the 96 header bits '
             'after the call is computed from the MIR and equals the specification (own field <- argument bits, every other bit unchanged, upper half of the set_flags argument unused); for tid, flags, opcode, rcode, '
             'is_response (both) and the count getters each result bit equals the specified header bit and the header is untouched; getter(setter(a)) is evaluated directly as well. '
             'Every bit is an exact function of <= 2 input bits, so truth-table equality covers every input; a bit the evaluator cannot track is reported, never passed.'),
    'note': 'Trusted: the transcription of RFC 1035 4.1.1 in rules/C12.py, the transfer functions of analysis/bits.py, rustc MIR. Panics on a missing packet (packet() on None) are outside this property.',
}
CHECKS['C09'] = {
    'engine': 'E2 event automata + E3 layout', 'level': 'other',
    'technique': 'per-section path automata extracting the insertion / shift / count tables from the MIR, bit-exact setter-vs-getter field check, pointer-free typestate',
    'design_ref': 'DESIGN.md section 4, C09',
    'text': ('Decides: (b) set_rr_ttl writes bit-exactly the field rr_ttl reads; set_rr_ip writes [10,14)/[10,26) where rr_ip reads, 4 bytes under Type::A and 16 under Type::AAAA; rrcount_inc/dec read and write the same header count per Section and step by one; '
             '(c) insertion_offset consults exactly the later sections\' offsets in wire order; insert_rr per Section records its own start and shifts exactly the later offsets plus offset_edns; (d) exactly one rrcount_inc of the section argument on every successful path; '
             '(e) insert_rr / set_raw_name / delete resize the buffer or overwrite name bytes only on paths where maybe_compressed is known false (so no other record\'s pointer is invalidated). '
             'The splice geometry (C09.a) is decided by the E4 clause when built. Byte identity of all other records after an operation is a run-time equality and is NOT decided.'
             ' (a-offsets, E4) the closures shifting recorded offsets add exactly the splice amount with the right confinement to the cursor; (d-delete) delete lowers the count of the section determined before the splice.'
             ' (d-sections) current_section answers only sections the count helpers handle, each verdict guarded by that section\'s start offset.'
             ' (g) a refused insertion returns before any byte, count or offset was touched (the C10.a automaton on insert_rr).'),
    'note': 'Structural clauses only. Trusted: tables/rfc_layout.json, rustc MIR, rule engines.',
}
CHECKS['C04'] = {
    'engine': 'E3 bit-precise evaluator + layout tuples + E2', 'level': 'other',
    'technique': 'bit-precise evaluation of the header getters, layout-tuple extraction for the OPT capture, role/value-flow tables, counting automaton',
    'design_ref': 'DESIGN.md section 4, C04',
    'text': ('Decides: (a) tid, flags, opcode, rcode, is_response and dnssec are bit-for-bit the specified functions of the header bytes and the optional extended flags (exact Boolean functions, all inputs); '
             '(b) parse_opt reads max_payload/ext_rcode/version/flags/rdlength at the RFC 6891 offsets relative to the end of the OPT owner name, before the 10-byte skip, each summary fed by the getter of its role; '
             'new() starts with 512 and None; parse() copies each summary into the same-role ParsedPacket field; (c) edns_count is zeroed and incremented exactly once per skipped option on every successful path; '
             '(d) the three question getters read type/class at (0,2)/(2,2) behind a position derived from the wire length of the name, never from its decompressed length. '
             '(e) the name component of every (name,type,class) the question getters build comes from the pointer-following decoder applied to (packet(), offset_question) or from the cache, raw copies only where maybe_compressed is known false. '
             'The three textual forms of the question name (loops over labels) are NOT decided.'
             ' The five OPT getters are evaluated bit for bit (E3 with enum values) against the RFC 6891 fields.'),
    'note': 'Trusted: tables/rfc_layout.json and the bit specs, analysis/bits.py, rustc MIR.',
}
CHECKS['C01'] = {
    'engine': 'E4 relational abstract interpreter + E1', 'level': 'proof',
    'technique': 'relational numeric abstract interpretation of MIR (linear constraints, Fourier-Motzkin entailment, per-callee summaries with lifted preconditions, widening, automatic ranking functions) + effect analysis',
    'design_ref': 'DESIGN.md section 4, C01',
    'text': ('Proof of obligations for all byte strings / offsets / increments: in the validator call tree (about 45 bodies) there is no unsafe operation, recursion or indirect call; every potential panic '
             '(about 175 Assert terminators and modelled preconditions: index < len, every add/sub overflow, slice ranges, read_u16, unwrap) is discharged by the interpreter or lifted to the entry point, where parse, new, '
             'set_offset and both name checkers need no precondition and increment_offset / rr_rdlen / edns_rr_rdlen need only the struct invariant offset <= len /\\ (edns_end = None \\/ offset <= edns_end <= len); '
             'every loop has a strictly increasing bounded measure (termination); nothing in the scope writes DNSSector.packet and parse moves it into the result. Unmodelled constructs fail closed.'),
    'note': 'Trusted: the ~45 std/byteorder contracts in analysis/interp.py, the linear domain (analysis/lin.py), rustc MIR. Assumes callers do not poke the pub fields of DNSSector into states violating the invariant.',
}
CHECKS['C18'] = {
    'engine': 'E4 relational abstract interpreter', 'level': 'proof',
    'technique': 'automatic ranking functions with ranges from the relational abstract interpreter: constant bounds for per-name loops, buffer-relative bounds with a minimum step for the record/option loops',
    'design_ref': 'DESIGN.md section 4, C18',
    'text': ('Proof of loop bounds for every input: each per-name loop (both name walkers) has a constant iteration bound found automatically (name_len - refs_allowed in [-16,255] => <= 272; name_len <= 255 => <= 128); '
             'the three section loops advance `offset` (<= len) by >= 11 bytes per iteration and the option loop is bounded; parse_rr / parse_question / skip_name are loop-free with a constant number of walk call sites. '
             'Both arithmetic configurations (overflow checks on and off) are ranked on every run and a bound that is only the range of a counter\'s integer type is refused; '
             'with overflow checks off every addition / subtraction / multiplication in the validator scope must be shown not to wrap (the measures assume exact arithmetic). '
             'Hence steps <= a*len + b (the derived formula is printed in the evidence). A per-name loop whose best measure is only bounded by the buffer length is reported as quadratic.'
             ' Every external callee reachable from the per-record functions (walkers excluded) is listed as constant-time in tables/extern_cost.json and the validator keeps no growable collection besides the packet.'),
    'note': 'Trusted: analysis/interp.py, analysis/lin.py, rustc MIR. The cost model counts loop iterations and label bytes, as the property does; no step-counter hook is needed.',
}
CHECKS['C15'] = {
    'engine': 'E5 tables (clang AST vs MIR) + E2', 'level': 'other',
    'technique': 'cross-check of the clang JSON AST of c_hook.h against the type-checked Rust FnTable (order, arity, ABI classes), call-graph dispatch table, dominance checks for caller buffers, path automaton for the error protocol',
    'design_ref': 'DESIGN.md section 4, C15',
    'text': ('Decides: (a) the Rust #[repr(C)] table and the header struct agree entry by entry in order, arity and ABI class of every parameter/result (callbacks included), abi_version last and equal, buffer sizes 256/8192; '
             '(b) fn_table() fills each slot with the function of the same name, which reaches the native operation of tables/fn_table_map.json (and not its sibling\'s), on the right Section, value getters returning the native value unchanged; '
             '(c) from_raw_parts_mut on caller pointers is dominated by a capacity test, name copy-outs are length-tested against 255 and NUL-terminated at index == length, raw_packet tests the capacity before copying, optional (ptr,len) pairs become Some only when non-null and non-empty; '
             '(d) every int-returning entry returns 0 on the native Ok path and throw_err(..) (= -1, out-pointer stored only if non-null) on the Err path. '
             'Equality of results with the native API over whole hook scripts is NOT decided (it follows from thinness only informally).'
             ' (e) CErr\'s field is a CString which throw_err replaces by whole assignment with CString::new(<the reported error>.to_string()), never through a mutable borrow.'
             ' For the value getters every source of the result must be the native call; the description store in throw_err cannot be skipped.'
             ' The iteration entries advance with next() and never use the OPT-including walk.'
             " The slice built over a caller buffer has, on its path, a constant length equal to the size of the array copied into it (the caller's capacity is only a lower bound)."),
    'note': 'Trusted: clang 14 AST, tables/fn_table_map.json, rustc MIR. Fixed-size array parameters are bounds-checked by Rust itself once their sizes match the header (checked).',
}
CHECKS['C14'] = {
    'engine': 'E4 relational abstract interpreter', 'level': 'other',
    'technique': 'relational abstract interpretation of the text->wire conversion with value probes at the push sites, plus a value-flow lemma',
    'design_ref': 'DESIGN.md section 4, C14',
    'text': ('Decides for every input string: (a) the conversion cannot panic (slice ranges, u8 counter overflow), the one obligation needing label_start <= len discharged by a checked structural lemma; '
             '(b) every label length byte it emits lies in [1, 62] (exactly the documented limit, hence never a pointer marker) and the terminator is 0; (c) every Ok exit leaves at most 253 bytes in the output buffer. '
             'NOT decided: that the emitted labels are exactly the dot-separated input labels (needs the invariant label_len = i - label_start, which the domain does not derive), the read-back through raw_name_to_str, and the exact accepted language.'
             ' (d) in name() and question() every decoded name passes the standard ASCII lower-casing on every path to the return.'
             ' (e) a rejection decided on the text length alone refuses only lengths >= 253; (d) uses the decoder\'s per-byte map evaluated for all 256 values.'),
    'note': 'Trusted: slice-iterator/enumerate/Vec contracts and the linear domain. The round-trip equality is a run-time relation.',
}
CHECKS['C02'] = {
    'engine': 'E4 point queries + E3 truth table + E5 siblings', 'level': 'other',
    'technique': 'relational abstract interpretation with value probes per dispatch arm and a hypothesis run (is_response = false), bit-exact truth table of the label-byte predicate, guard-constant and dispatch-set extraction',
    'design_ref': 'DESIGN.md section 4, C02',
    'text': ('Decides each clause of the acceptance policy that is visible in the code, on every accepting path: exactly one question, class IN, nothing left over, header present (dominating guards); '
             'answer/authority loops unreachable when is_response is false (hypothesis run); per record type the exact consumption facts (A 4/14, AAAA 16/26, NS/CNAME/PTR and DNAME names filling rdlen exactly, MX name at +2, SOA two names + exactly 20 bytes, default 10+rdlen); '
             'OPT only in Additional with a 1-byte owner and at most once; limit constants 63 / 255 / 16 with the E4 ranges they produce; the label-byte predicate refuses exactly {0x00-0x1f, 0x7f, ., \\} (256-entry truth table) and DNAME has none; '
             'the name-bearing type sets of validator, decompressor, compressor and renamer coincide. '
             'NOT decided: that these clauses together are the whole accepted language (both directions of the iff), "never to a root label", completeness beyond the numeric limits.'
             ' Also decided: every successful path of parse_opt raises the flag (edns_end = Some) that its only-one-OPT test reads.'
             ' Path-sensitively: every Ok path of parse_rr on which the type is A / AAAA passes the rdlen == 4 / 16 test.'
             ' Path-sensitively: in every loop iteration of check_compressed_name that accounts a label, the label-byte predicate is run and found false before the next iteration or the acceptance.'),
    'note': 'Trusted: tables/policy.json, analysis/interp.py contracts, analysis/bits.py. Language equality is not a static object; only its visible clauses are claimed.',
}
CHECKS['C05'] = {
    'engine': 'E4 + E2 + E5 siblings', 'level': 'other',
    'technique': 'relational abstract interpretation with probes at the data-length rewrites, cursor value-flow typestate, ordering automaton, sibling comparison of the two name walkers',
    'design_ref': 'DESIGN.md section 4, C05',
    'text': ('Decides: (a) uncompress_rdata expands names in exactly the validator\'s name-bearing types; (b) each data length it rewrites provably equals the bytes emitted behind the record header (E4 equalities, incl. the lemma that copy_uncompressed_name returns the growth of its output), '
             'fixed parts 4/10/12/20 and name-walk start positions (second SOA name at the first one\'s wire end); (c) the additional section is walked with OPT included in every re-emitter; (d) the reference-offset test precedes the first append of each record and the end-of-packet boundary is translated; '
             '(e) copy_uncompressed_name keeps the position behind the first pointer exactly like the validator\'s walker. NOT decided: byte identity of the expanded names, idempotence, acceptance of the output (run-time relations).'
             ' (g) every section walk expands the owner name with copy_raw_name in the same loop iteration; no name_slice bytes are appended to the output.'
             ' Every name re-emitted inside record data is followed by a data-length rewrite on every successful path; no append below the decompressor copies a whole wire name verbatim.'
             ' (h) path-sensitively: every path of uncompress_rdata that finishes a record of a name-bearing type has handed all of its names (1, SOA 2) to the expansion, directly or through a helper.'),
    'note': 'Trusted: analysis/interp.py contracts, tables/policy.json, rustc MIR.',
}
CHECKS['C06'] = {
    'engine': 'E4 + E2 + E5', 'level': 'other',
    'technique': 'relational abstract interpretation: the dictionary-offset obligation is lifted out of the worker loop and discharged at every call site; pointer-byte expression and guard-dominance checks',
    'design_ref': 'DESIGN.md section 4, C06',
    'text': ('Decides: (a) at SuffixDict::insert inside the worker the offset recorded equals the current output length: E4 derives len(out) - len0 = offset - offset0 in the loop and discharges base_offset + offset0 = len(out) at all three call sites; '
             '(b) compress_rdata: name-bearing set, data-length accounting (E4), fixed parts, OPT-including walk in compress(); (c) pointer bytes are (ref >> 8) | 0xc0, ref & 0xff of the dictionary result, an offset is stored / a hit returned only under offset < 16384 (exact constant, dominating test) and only for suffixes >= 3 bytes. '
             'NOT decided: that decompressing gives the input back, table wrap-around.'
             ' (d) no copy from the input packet below compress() takes an open-ended range packet[a..] (records behind the copied one would be emitted twice).'
             ' (e) the comparison step of the suffix dictionary is ASCII case-insensitive equality for all 65536 byte pairs (E3).'
             ' Every name re-emitted inside record data is followed by a data-length rewrite on every successful path.'
             " (f) the same for compress_rdata and the compressor. (g) every dictionary hit is conditioned on a per-entry hop count within the validator's pointer budget - violated on the pinned tree (known finding D18: nested suffixes give chains deeper than 16 and the output is refused)."),
    'note': 'SuffixDict::insert is opaque for the accounting. Trusted: analysis/interp.py contracts.',
}
CHECKS['C07'] = {
    'engine': 'E4 + E2', 'level': 'other',
    'technique': 'relational abstract interpretation (havoc mode) with probes at the data-length rewrites, cursor typestate through helper parameters, range-shape check, decision-order automaton',
    'design_ref': 'DESIGN.md section 4, C07',
    'text': ('Decides: (a) the data lengths the renamer writes for NS/CNAME/PTR, MX and SOA provably equal the bytes emitted behind the record header; (b) it rewrites names in exactly the validator\'s name-bearing types and copies header + rdlen bytes otherwise; '
             '(c) OPT is carried once, in place: the additional section is walked with OPT included (through the helper\'s parameter) and no copy from the input packet is open-ended; (d) replace_raw refuses an over-long result only for names that matched (no Ok(None) behind the length test). '
             'Validation-before-commit is decided under C10.a. NOT decided: which names match (run-time comparison), identity-rename equality.'
             ' (e) typestate over the label walk of replace_raw: a rewritten name is returned only on paths where name.len() - source.len() was found equal to a label boundary of the name.'
             ' (f, E4) the bytes compared for a label are exactly the label_len bytes behind its length byte, aligned with the source (per-byte closure analysed for a generic index, or slices).'
             ' (g) every comparison between name and source is the standard eq_ignore_ascii_case or a closure that E3 shows to be ASCII case-insensitive equality for all 65536 byte pairs.'
             ' (h) every offset / index range into the input packet in rename_response_section is computed from the input only; data lengths are rewritten on every successful path.'
             ' (i) every path of rename_response_section that finishes a record of a name-bearing type has compared all of its names with the source.'),
    'note': 'Helpers above the size threshold are havocked for the accounting. Trusted: analysis/interp.py contracts.',
}
CHECKS['C13'] = {
    'engine': 'E4 per-body + E3 layout + E5 tables', 'level': 'other',
    'technique': 'per-body relational abstract interpretation of every function and closure reachable from RR::from_string with contract-checked residual obligations; layout tuples of the builders; dispatch and keyword table extraction',
    'design_ref': 'DESIGN.md section 4, C13',
    'text': ('Decides: (a) for every string: each of the ~15 local bodies below from_string that contains a potential panic is analysed with arbitrary arguments; every overflow assert, array range, byteorder write and unwrap is discharged outright or under one of four stated contracts, each tied to a MIR check '
             '(digit source, sum of lengths of input substrings, unit-increment usize counter, ASCII-only predicate before from_utf8().unwrap()); any other unwrap on input-derived data is reported; '
             '(b) RR::new writes TTL/CLASS/TYPE/RDLENGTH at the RFC offsets with rdlength = len(rdata); SOA counters at 0/4/8/12/16 from the right arguments; MX/DS 16-bit field first; every TXT length byte is the length of a chunks(255) item, hence in [1,255]; '
             '(c) mnemonic -> Type and Type -> (parser, builder) are the expected tables; (d) decimal folds use checked arithmetic only; '
             '(e) every byte predicate handed to take_while / take_while1 below from_string refuses each byte the field separator class accepts (bit-level evaluation, stateful closures along every branch of their state), so no token can swallow the fields behind it. '
             'NOT decided: the rest of the accepted text grammar (escapes, exact field counts) and wire-form equality beyond these layouts.'),
    'note': 'Contracts listed under assumptions in the evidence. chomp combinators are opaque, effect-free models. Trusted: tables/rfc_layout.json.',
}
NOT_APPLICABLE = {('C%02d' % i): PENDING for i in range(1, 19) if ('C%02d' % i) not in CHECKS}
