"""Thin, rule-facing wrapper around the E4 abstract interpreter (analysis/interp.py)."""
import collections
import time

from . import interp
from .interp import Analyzer, Int, Enum, OBLIGATIONS, UNMODELLED, PROBES
from .lin import CSet, le, ge, eq, lin


class E4:
    def __init__(self, facts, havoc=None, keep_instates=False, soft_widen=False, probes=(), rule_c06a=False, force_ret=None, opaque=(), assume_offsets_in_packet=False, budget_s=900, track_loads=False):
        """facts: analysis.facts.Facts.  budget_s: wall-clock limit for the fixpoint iterations of this instance (a change that makes a
        loop lose its bound can make the relational domain converge very slowly: fail closed instead of hanging)."""
        OBLIGATIONS.clear()
        UNMODELLED.clear()
        PROBES.clear()
        self.facts = facts
        self.an = Analyzer(facts.doc)
        self.an.record = True
        self.an.keep_instates = keep_instates
        if havoc is not None:
            self.an.havoc_threshold = havoc
        self.an.soft_widen_on = soft_widen
        self.an.probe_spec = list(probes)
        self.an.rule_c06a = rule_c06a
        self.an.force_ret = dict(force_ret or {})
        self.an.opaque = list(opaque)
        self.an.assume_offsets_in_packet = assume_offsets_in_packet
        self.an.wrap_obligations = (facts.config == 'release')
        self.an.deadline = (time.time() + budget_s) if budget_s else None
        self.an.track_loads = track_loads
        self.times = {}

    def summarize(self, key):
        t0 = time.time()
        S = self.an.summarize(key)
        self.times[key] = round(time.time() - t0, 2)
        return S

    def obligations(self):
        return list(OBLIGATIONS)

    def open_obligations(self):
        seen = set()
        out = []
        for o in OBLIGATIONS:
            if o.get('status') in ('open', None):
                k = (o['site'].split(' <= ')[0], o['kind'])
                if k not in seen:
                    seen.add(k)
                    out.append(o)
        return out

    def probes(self):
        return list(PROBES)

    def unmodelled(self):
        return dict(UNMODELLED)

    def counts(self):
        return collections.Counter(o.get('status', '?') for o in OBLIGATIONS)

    # ---- struct invariant of DNSSector as constraints over a summary's entry symbols ---------------
    def invariant_cases(self, S, key):
        """List of constraint lists: each is one disjunct of  offset <= len  /\\  (edns_end = None \\/ offset <= edns_end <= len)."""
        base = 'A0:%s' % key
        off = S.init.get(base + '.offset')
        ln = S.init.get(base + '.packet#len')
        ee = S.init.get(base + '.edns_end')
        common = []
        if off is not None and ln is not None and isinstance(off[0], Int) and isinstance(ln[0], Int):
            common.append(le(off[0].e, ln[0].e))
        cases = [common]
        if ee is not None and isinstance(ee[0], Enum):
            d = ee[0].discr
            pay = ee[0].fields.get((1, 0))
            c_none = common + [eq(d, 0)]
            c_some = common + [eq(d, 1)]
            if pay is not None and isinstance(pay, Int):
                if off is not None and isinstance(off[0], Int):
                    c_some.append(le(off[0].e, pay.e))
                if ln is not None and isinstance(ln[0], Int):
                    c_some.append(le(pay.e, ln[0].e))
            cases = [c_none, c_some]
        return cases

    def region_within(self, region, cases):
        """True iff the bad region is infeasible under every disjunct of the invariant."""
        for cons in cases:
            t = region.copy()
            for c in cons:
                t.add(c)
            if not t.infeasible():
                return False
        return True

    def rank(self, key):
        if key not in self.an.last_instate:
            return []
        return self.an.rank_loops(key)

    def loop_functions(self):
        return sorted(k for k, v in self.an.last_instate.items() if v[2])
