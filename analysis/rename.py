"""Rename normalisation: a known function that is missing and a new function with the same body shape are the same function.

Anchors are def-paths.  A pure rename of a private function (and of nothing else) would make every rule anchored on it fail
closed although no behaviour changed.  tables/known_fns.json records a structural fingerprint of every function of the pinned
tree: parameter count, return type, and per block the number of statements, the kind of the terminator and the callee when it is
not a function of this crate (local callees are left out, they may have been renamed too), plus the integer literals.  When a
known key is absent and exactly one function absent from the table has its fingerprint (and no other missing key shares it), the
new path is rewritten to the known one everywhere in the fact base before any rule runs.  Anything less than a unique match is left
alone, and the rules report the missing anchor as before.
"""
import hashlib
import json
import os
import re

TABLE = os.path.join(os.path.dirname(os.path.dirname(os.path.abspath(__file__))), 'tables', 'known_fns.json')


def fingerprint(f, crate_prefixes):
    def is_local(c):
        p = c.get('resolved') or c.get('path') or ''
        return bool(c.get('resolved_local') or c.get('local')) or p.split('::')[0] in crate_prefixes or p.startswith('<') and any(('<' + m + '::') in p or (' as ' + m + '::') in p for m in crate_prefixes)
    consts = []

    def walk(o):
        if isinstance(o, dict):
            if o.get('k') == 'const' and isinstance(o.get('val'), int) and not isinstance(o.get('val'), bool):
                consts.append(o['val'])
            for k, v in o.items():
                if k != 'callee':
                    walk(v)
        elif isinstance(o, list):
            for v in o:
                walk(v)
    blocks = []
    for b in f['blocks']:
        t = b['term']
        callee = None
        if t['k'] == 'call':
            c = t['callee']
            callee = '<indirect>' if c.get('k') != 'direct' else ('<local>' if is_local(c) else (c.get('resolved') or c.get('path')))
        blocks.append([sum(1 for s in b['stmts'] if s['k'] == 'assign'), t['k'], callee, len(t.get('targets', [])) if t['k'] == 'switch' else 0])
        walk(b['stmts'])
        walk(t.get('args', []))
    sig = [f.get('arg_count'), f['locals'][0].get('s') if f.get('locals') else None, f.get('kind'), f.get('impl_self'), blocks, sorted(consts)]
    return hashlib.sha1(json.dumps(sig, sort_keys=True).encode()).hexdigest()[:16]


def crate_modules(doc):
    return sorted({f['path'].split('::')[0] for f in doc['fns'] if not f['path'].startswith('<')})


def normalise(doc):
    """returns (doc, {new path: known path}); doc is rewritten only when something was renamed"""
    if os.environ.get('VERIF_NO_RENAME'):
        return doc, {}
    try:
        with open(TABLE) as fh:
            tab = json.load(fh)
    except OSError:
        return doc, {}
    fps = (tab.get('fingerprints') or {}).get(doc.get('_config') or 'debug') or {}
    known = set(tab.get('keys') or [])
    if not fps:
        return doc, {}
    present = {f['key']: f for f in doc['fns']}
    missing = [k for k in known if k not in present and '{closure' not in k and '@' not in k and k in fps]
    new = [k for k in present if k not in known and '{closure' not in k and '@' not in k]
    if not missing or not new:
        return doc, {}
    mods = crate_modules(doc)
    new_fp = {}
    for k in new:
        new_fp.setdefault(fingerprint(present[k], mods), []).append(k)
    by_fp = {}
    for k in missing:
        by_fp.setdefault(fps[k], []).append(k)
    ren = {}
    for fp, ms in by_fp.items():
        ns = new_fp.get(fp, [])
        if len(ms) == 1 and len(ns) == 1:
            ren[present[ns[0]]['path']] = ms[0]
    if not ren:
        return doc, {}
    text = json.dumps(doc)
    for n, m in sorted(ren.items(), key=lambda x: -len(x[0])):
        text = re.sub(r'(?<![A-Za-z0-9_])' + re.escape(n) + r'(?![A-Za-z0-9_])', m.replace('\\', '\\\\'), text)
    return json.loads(text), ren
