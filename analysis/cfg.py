"""E2: path-sensitive event automata on the MIR control-flow graph.

A rule supplies an *automaton*: a small set of states, a reaction to each
statement / terminator, and (optionally) how a call to a local function is to be
treated.  `PathFlow` pushes (automaton state, known enum variants) pairs forward
through a function, forking at calls per callee outcome and pruning `switchInt`
edges whose discriminant is known.  This is what keeps the `Ok` and `Err`
outcomes of a callee apart until the `?` has branched (the dominant idiom of the
code base), without any numeric reasoning.

A function summary is a relation  q_in -> {(q_out, exit kind)}  with exit kinds
'Ok' / 'Err' / 'Some' / 'None' / 'ret' (plain return) and is computed on demand
(the crate has no recursion; a cycle would be cut and reported as 'undecided').
"""
import collections

from . import facts as F

RESULT = 'std::result::Result'
OPTION = 'std::option::Option'
CFLOW = 'std::ops::ControlFlow'
VARIANTS = {RESULT: ('Ok', 'Err'), OPTION: ('None', 'Some'), CFLOW: ('Continue', 'Break')}


def exit_kind(f, known):
    rt = f['locals'][0]
    adt = rt.get('adt')
    v = known.get(0)
    if adt in (RESULT, OPTION):
        if v is None:
            return None  # unknown: caller must assume either
        return VARIANTS[adt][v]
    return 'ret'


def all_exit_kinds(f):
    adt = f['locals'][0].get('adt')
    if adt in (RESULT, OPTION):
        return list(VARIANTS[adt])
    return ['ret']


#: std combinators that run a closure argument: path -> (variant of the receiver that triggers the closure, result variant rule)
COMBINATORS = {
    'std::option::Option::<T>::and_then': (1, 'closure'),
    'std::option::Option::<T>::map': (1, 'same'),
    'std::result::Result::<T, E>::map': (0, 'same'),
    'std::result::Result::<T, E>::map_err': (1, 'same'),
    'std::result::Result::<T, E>::and_then': (0, 'closure'),
    'std::option::Option::<T>::unwrap_or_else': (0, None),
    'std::result::Result::<T, E>::unwrap_or_else': (1, None),
    'std::option::Option::<T>::ok_or_else': (0, {1: 0, 0: 1}),
    'std::option::Option::<T>::or_else': (0, 'closure'),
}


class Automaton:
    """Base class; override what the rule needs."""
    init = 0
    #: states from which a function may be entered (summaries are computed per entry state)

    def on_stmt(self, q, f, bi, s, env):
        """Return the new state (or a list of states) after statement `s`."""
        return q

    def on_term(self, q, f, bi, t, env):
        """Reaction to a non-call terminator (switch / assert / return / drop)."""
        return q

    def on_call(self, q, f, bi, t, env, flow):
        """Reaction to a call.  Return None to get the default treatment (summary of a local callee,
        no effect for an external one), or a list of (q', dest_variant_or_None)."""
        return None

    def on_return(self, q, f, bi, kind, env):
        return q

    def on_edge(self, q, f, bi, t, value, target, env):
        """Called for every outgoing edge of a switchInt (value is the matched integer, or None for `otherwise`).
        Return the state to continue with, or 'PRUNE' when the edge is infeasible for this state."""
        return q


class Env:
    """What is known about enum-typed locals / discriminant temporaries on the current path."""
    __slots__ = ('known',)

    def __init__(self, known=None):
        self.known = dict(known or {})

    def key(self):
        return frozenset(self.known.items())

    def copy(self):
        return Env(self.known)


def _kill_moves(env, rv_or_term):
    def visit(o):
        if isinstance(o, dict):
            if o.get('k') == 'move' and not o['place']['proj']:
                env.known.pop(o['place']['local'], None)
            for k, v in o.items():
                if k != 'callee':
                    visit(v)
        elif isinstance(o, list):
            for v in o:
                visit(v)
    visit(rv_or_term)


class PathFlow:
    def __init__(self, facts, automaton, max_states=20000):
        self.facts = facts
        self.au = automaton
        self.memo = {}
        self.stack = []
        self.cut = []          # recursion cuts (reported as undecided by the rule)
        self.max_states = max_states
        self.trace = {}        # (key, q_in) -> {(q_out, kind): witness block path}

    # ---- summaries ------------------------------------------------------
    def summary(self, key, q_in):
        mk = (key, q_in)
        if mk in self.memo:
            return self.memo[mk]
        if mk in self.stack:
            self.cut.append(mk)
            f = self.facts.fns[key]
            return {(q_in, k) for k in all_exit_kinds(f)}
        self.stack.append(mk)
        try:
            res = self._run(key, q_in)
        finally:
            self.stack.pop()
        self.memo[mk] = res
        return res

    # ---- intraprocedural run ---------------------------------------------
    def _run(self, key, q_in):
        f = self.facts.fns[key]
        au = self.au
        exits = {}
        start = (0, q_in, frozenset())
        seen = {start}
        work = [start]
        pred = {start: None}
        nstates = 0
        while work:
            node = work.pop()
            bi, q, kn = node
            nstates += 1
            if nstates > self.max_states:
                raise RuntimeError('state explosion in %s' % key)
            b = f['blocks'][bi]
            env = Env(dict(kn))
            qs = [q]
            for s in b['stmts']:
                if s['k'] == 'dead':
                    env.known.pop(s['local'], None)
                    continue
                if s['k'] == 'assign':
                    nq = []
                    for q1 in qs:
                        r = au.on_stmt(q1, f, bi, s, env)
                        nq.extend(r if isinstance(r, list) else [r])
                    qs = sorted(set(nq), key=repr)
                    self._assign(f, s, env)
                elif s['k'] == 'setdiscr':
                    if not s['place']['proj']:
                        env.known[s['place']['local']] = s['vi']
            t = b['term']
            k = t['k']
            outs = []  # (target block, q, env)
            if k == 'call':
                for q1 in qs:
                    for (q2, dv, tgt_env) in self._call(f, bi, t, q1, env):
                        if t.get('target') is not None:
                            outs.append((t['target'], q2, tgt_env))
            elif k == 'switch':
                qs2 = []
                for q1 in qs:
                    r = au.on_term(q1, f, bi, t, env)
                    qs2.extend(r if isinstance(r, list) else [r])
                d = t['discr']
                val = None
                if d['k'] in ('copy', 'move') and not d['place']['proj']:
                    val = env.known.get(d['place']['local'])
                elif d['k'] == 'const' and 'val' in d:
                    val = d['val']
                e2 = env.copy()
                src = None
                if d['k'] in ('copy', 'move') and not d['place']['proj']:
                    src = e2.known.pop(('d', d['place']['local']), None)
                if d['k'] == 'move' and not d['place']['proj']:
                    e2.known.pop(d['place']['local'], None)
                if val is not None:
                    tg = [x[1] for x in t['targets'] if x[0] == val]
                    tgts = tg[:1] if tg else [t['otherwise']]
                    for q1 in qs2:
                        q1e = au.on_edge(q1, f, bi, t, val if tg else None, tgts[0], env)
                        if q1e != 'PRUNE':
                            outs.append((tgts[0], q1e, e2))
                else:
                    for (v, tb) in t['targets']:
                        e3 = e2.copy()
                        if d['k'] in ('copy',) and not d['place']['proj']:
                            e3.known[d['place']['local']] = v
                        if src is not None:
                            e3.known[src] = v
                        for q1 in qs2:
                            q1e = au.on_edge(q1, f, bi, t, v, tb, env)
                            if q1e != 'PRUNE':
                                outs.append((tb, q1e, e3))
                    e4 = e2
                    if src is not None and len(t['targets']) == 1 and t['targets'][0][0] in (0, 1) and f['locals'][src].get('adt') in VARIANTS:
                        e4 = e2.copy()
                        e4.known[src] = 1 - t['targets'][0][0]
                    for q1 in qs2:
                        q1e = au.on_edge(q1, f, bi, t, None, t['otherwise'], env)
                        if q1e != 'PRUNE':
                            outs.append((t['otherwise'], q1e, e4))
            elif k == 'return':
                kind = exit_kind(f, env.known)
                kinds = [kind] if kind is not None else all_exit_kinds(f)
                for q1 in qs:
                    for kd in kinds:
                        q2 = au.on_return(q1, f, bi, kd, env)
                        for q3 in (q2 if isinstance(q2, list) else [q2]):
                            if (q3, kd) not in exits:
                                exits[(q3, kd)] = self._path(pred, node)
            elif k in ('goto', 'drop', 'assert'):
                for q1 in qs:
                    r = au.on_term(q1, f, bi, t, env)
                    for q2 in (r if isinstance(r, list) else [r]):
                        if t.get('target') is not None:
                            outs.append((t['target'], q2, env))
            elif k == 'other':
                for q1 in qs:
                    for m in t.get('succ', []):
                        outs.append((m, q1, env))
            # unreachable / resume / terminate: path ends
            for (tb, q2, e2) in outs:
                if f['blocks'][tb]['cleanup']:
                    continue
                n2 = (tb, q2, e2.key())
                if n2 not in seen:
                    seen.add(n2)
                    pred[n2] = node
                    work.append(n2)
        self.trace[(key, q_in)] = exits
        return set(exits.keys())

    def _path(self, pred, node):
        out = []
        while node is not None:
            out.append(node[0])
            node = pred[node]
        return list(reversed(out))

    def witness(self, key, q_in, q_out, kind):
        """Block path (list of block indices) of one execution leading to the given exit."""
        self.summary(key, q_in)
        return self.trace.get((key, q_in), {}).get((q_out, kind))

    def describe_path(self, key, blocks):
        f = self.facts.fns[key]
        sites = []
        for bi in blocks or []:
            b = f['blocks'][bi]
            at = b['term'].get('at') or (b['stmts'][0].get('at') if b['stmts'] else None)
            if at and (not sites or sites[-1] != at):
                sites.append(at)
        return sites

    def _closure_key(self, f, op):
        if op['k'] not in ('copy', 'move'):
            return None
        ty = op['place']['ty']
        if ty.get('k') == 'closure' and ty.get('def') in self.facts.fns:
            return ty['def']
        return None

    # ---- transfer helpers ---------------------------------------------------
    def _assign(self, f, s, env):
        pl = s['place']
        rv = s['rv']
        if pl['proj']:
            # writing a field of a tracked enum local invalidates nothing we track (variants are set whole)
            _kill_moves(env, rv)
            return
        x = pl['local']
        new = None
        if rv['k'] == 'aggregate' and rv.get('agg') == 'adt' and rv.get('adt') in VARIANTS:
            new = rv['vi']
        elif rv['k'] == 'use':
            o = rv['x']
            if o['k'] in ('copy', 'move') and not o['place']['proj']:
                new = env.known.get(o['place']['local'])
            elif o['k'] == 'const' and 'val' in o and f['locals'][x].get('k') in ('int', 'bool'):
                new = o['val']
        elif rv['k'] == 'discr':
            p = rv['place']
            if not p['proj']:
                new = env.known.get(p['local'])
                if new is None and f['locals'][p['local']].get('k') == 'adt':
                    _kill_moves(env, rv)
                    env.known.pop(x, None)
                    env.known[('d', x)] = p['local']
                    return
        _kill_moves(env, rv)
        env.known.pop(('d', x), None)
        if new is None:
            env.known.pop(x, None)
        else:
            env.known[x] = new

    def _call(self, f, bi, t, q, env):
        """Yield (q', dest variant, env') for each outcome of the call."""
        au = self.au
        dest = t['dest']
        dl = dest['local'] if not dest['proj'] else None
        path = F.call_path(t) or ''
        a0 = t['args'][0] if t['args'] else None
        a0l = a0['place']['local'] if a0 is not None and a0['k'] in ('copy', 'move') and not a0['place']['proj'] else None
        k0 = env.known.get(a0l) if a0l is not None else None
        over = au.on_call(q, f, bi, t, env, self)
        res = []
        if over is not None:
            outcomes = over
        else:
            outcomes = None
            dty = dest['ty'].get('adt')
            if path.endswith('as std::ops::Try>::branch'):
                outcomes = [(q, k0)]
            elif 'FromResidual' in path and path.endswith('::from_residual'):
                outcomes = [(q, 1 if dty == RESULT else 0 if dty == OPTION else None)]
            elif path in ('std::result::Result::<T, E>::unwrap', 'std::result::Result::<T, E>::expect') and k0 == 1:
                outcomes = []   # unwrap of a known Err: the path ends in a panic
            elif path in ('std::option::Option::<T>::unwrap', 'std::option::Option::<T>::expect') and k0 == 0:
                outcomes = []
            elif path.startswith('core::panicking::') or path.startswith('std::rt::begin_panic'):
                outcomes = []
            elif path in ('std::option::Option::<T>::ok_or', 'std::option::Option::<T>::ok_or_else'):
                outcomes = [(q, None if k0 is None else (0 if k0 == 1 else 1))]
            elif path in ('std::result::Result::<T, E>::map', 'std::result::Result::<T, E>::map_err', 'std::option::Option::<T>::map',
                          'std::result::Result::<T, E>::ok', 'std::option::Option::<T>::as_ref', 'std::option::Option::<T>::as_mut',
                          'std::result::Result::<T, E>::as_ref', 'std::option::Option::<T>::take', 'std::option::Option::<T>::cloned',
                          'std::option::Option::<T>::copied'):
                kk = k0
                if path.endswith('Result::<T, E>::ok') and k0 is not None:
                    kk = 1 if k0 == 0 else 0
                outcomes = [(q, kk)]
            elif path in COMBINATORS and len(t['args']) >= 2 and self._closure_key(f, t['args'][1]) is not None:
                trig, resmap = COMBINATORS[path]
                ck = self._closure_key(f, t['args'][1])
                cf = self.facts.fns[ck]
                cadt = cf['locals'][0].get('adt')
                outcomes = []
                for kv in ([k0] if k0 is not None else [0, 1]):
                    if kv == trig:
                        for (q2, kind) in sorted(self.summary(ck, q), key=repr):
                            cv = VARIANTS[cadt].index(kind) if cadt in (RESULT, OPTION) and kind in VARIANTS[cadt] else None
                            outcomes.append((q2, cv if resmap == 'closure' else (kv if resmap == 'same' else resmap.get(kv) if isinstance(resmap, dict) else None)))
                    else:
                        outcomes.append((q, kv if resmap in ('same', 'closure') else (resmap.get(kv) if isinstance(resmap, dict) else None)))
            else:
                keys = [ck for ck in self.facts.callee_keys(f, t) if not ck.startswith('ext:') and ck != '<indirect>']
                if keys:
                    outcomes = []
                    for ck in keys:
                        cf = self.facts.fns[ck]
                        adt = cf['locals'][0].get('adt')
                        for (q2, kind) in sorted(self.summary(ck, q), key=repr):
                            dv = VARIANTS[adt].index(kind) if adt in (RESULT, OPTION) and kind in VARIANTS[adt] else None
                            outcomes.append((q2, dv))
                else:
                    outcomes = [(q, None)]
        for (q2, dv) in outcomes:
            e2 = env.copy()
            _kill_moves(e2, t['args'])
            if dl is not None:
                if dv is None:
                    e2.known.pop(dl, None)
                else:
                    e2.known[dl] = dv
            res.append((q2, dv, e2))
        return res


def must_pass(facts, key, a_blocks, b_blocks):
    """Path-sensitive domination: does every FEASIBLE path of `key` that reaches the end of a block in b_blocks pass the end of some
    block in a_blocks first?  Feasibility is what PathFlow knows: the variant of Result / Option values and constant flags, so that the
    Ok and Err outcomes of a helper spliced into the body (which share a join block in the CFG) are kept apart.  Returns the set of
    blocks of b_blocks that can be reached without passing A (empty = holds), or None if the exploration failed."""
    class _Au(Automaton):
        init = (False, frozenset())

        def _at(self_, q, f, bi):
            if f['key'] != key:
                return q
            seen, bad = q
            if bi in b_blocks and not seen:
                bad = bad | {bi}
            if bi in a_blocks:
                seen = True
            return (seen, bad)

        def on_term(self_, q, f, bi, t, env):
            return self_._at(q, f, bi)

        def on_return(self_, q, f, bi, kind, env):
            return self_._at(q, f, bi)

        def on_call(self_, q, f, bi, t, env, flow):
            if f['key'] != key:
                return None
            q2 = self_._at(q, f, bi)
            if q2 == q:
                return None
            # keep the default treatment of the call (outcome forks) but with the updated state
            outs = []
            saved = flow.au
            try:
                class _Plain(Automaton):
                    init = q2
                flow.au = _Plain()
                for (q3, dv, e3) in flow._call(f, bi, t, q2, env):
                    outs.append((q2, dv))
            finally:
                flow.au = saved
            return outs or [(q2, None)]
    a_blocks, b_blocks = set(a_blocks), set(b_blocks)
    try:
        flow = PathFlow(facts, _Au())
        exits = flow.summary(key, _Au.init)
    except Exception:  # noqa
        return None
    bad = set()
    for (q, kind) in exits:
        bad |= set(q[1])
    return bad
