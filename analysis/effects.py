"""E1: per-body effects read off the MIR, and their transitive closure over the call graph."""
import collections

from . import facts as F


def walk(o, fn):
    """Call fn(dict) on every dict nested in a statement/terminator (skipping resolved-callee metadata)."""
    if isinstance(o, dict):
        fn(o)
        for k, v in o.items():
            if k != 'callee':
                walk(v, fn)
    elif isinstance(o, list):
        for v in o:
            walk(v, fn)


def places_of(o):
    out = []

    def f(d):
        if 'local' in d and 'proj' in d:
            out.append(d)
    walk(o, f)
    return out


def body_effects(f, facts):
    """List of (kind, detail, site) for one body.

    kinds: static, tls, localkey, ptr2int, int2ptr, transmute, indirect, rawderef, ext, fnptr-call
    """
    out = []
    locals_ = f['locals']
    ub = ub_check_locals(f)
    for i, b in F.blocks(f):
        for s in F.stmts_and_term(b):
            site = s.get('at') or f['at']
            is_ub = (s.get('k') == 'assign' and not s['place']['proj'] and s['place']['local'] in ub)

            def visit(d, site=site, is_ub=is_ub):
                k = d.get('k')
                if k == 'const':
                    if 'static' in d:
                        out.append(('static', d['static'], site))
                    ty = d.get('ty', {})
                    if ty.get('k') == 'adt' and ty.get('adt') == 'std::thread::LocalKey':
                        out.append(('localkey', d.get('named') or d.get('dbg') or ty.get('s'), site))
                elif k == 'tlsref':
                    out.append(('tls', d['static'], site))
                elif k == 'cast':
                    kind = d.get('kind', '')
                    if 'PointerExposeProvenance' in kind or 'PointerExposeAddress' in kind:
                        out.append(('ptr2int', kind, site))
                    elif 'PointerWithExposedProvenance' in kind or 'PointerFromExposedAddress' in kind:
                        out.append(('int2ptr', kind, site))
                    elif 'Transmute' in kind and not is_ub:
                        src = d['x'].get('place', {}).get('ty', d['x'].get('ty', {}))
                        out.append(('transmute', '%s -> %s' % (src.get('s'), d['ty'].get('s')), site))
                if 'local' in d and 'proj' in d:
                    # raw pointer dereference
                    ty = locals_[d['local']]
                    cur = ty
                    for p in d['proj']:
                        if p['k'] == 'deref':
                            if cur.get('k') == 'ptr':
                                out.append(('rawderef', cur.get('s'), site))
                            cur = cur.get('to', {}) if isinstance(cur, dict) else {}
                        else:
                            cur = {}
            walk(s, visit)
        t = b['term']
        if t['k'] == 'call':
            if t['callee']['k'] != 'direct':
                out.append(('indirect', t['callee'].get('dbg', ''), t.get('at')))
            else:
                p = F.call_path(t)
                if not (facts.bypath.get(p) or facts.bypath.get(t['callee']['path'])):
                    if not any(not ck.startswith('ext:') for ck in facts.callee_keys(f, t)):     # a local trait method resolved by class hierarchy is no external leaf
                        out.append(('ext', p, t.get('at')))
    for p in facts.fnitems_of(f):
        if p not in facts.bypath:
            out.append(('ext', p, f['at']))
    # promoted constants of this body (e.g. the `&CERR` LocalKey of a thread_local!)
    for pb in f.get('promoted', []):
        for blk in pb['blocks']:
            for s in F.stmts_and_term(blk):
                def pvisit(d):
                    if d.get('k') == 'const':
                        if 'static' in d:
                            out.append(('static', d['static'], f['at']))
                        ty = d.get('ty', {})
                        if ty.get('k') == 'adt' and ty.get('adt') == 'std::thread::LocalKey':
                            out.append(('localkey', d.get('named') or ty.get('s'), f['at']))
                    elif d.get('k') == 'tlsref':
                        out.append(('tls', d['static'], f['at']))
                walk(s, pvisit)
    return out


def ub_check_locals(f):
    """Locals that only exist for the compiler-inserted pointer checks of debug builds
    (`ptr as *const () -> usize` feeding Misaligned/NullPointerDereference asserts)."""
    cand = set()
    for i, b in F.blocks(f):
        for s in b['stmts']:
            if s['k'] == 'assign' and not s['place']['proj'] and s['rv']['k'] == 'cast' and 'Transmute' in s['rv'].get('kind', ''):
                src = s['rv']['x'].get('place', {}).get('ty', {})
                if src.get('s') == '*const ()' and s['rv']['ty'].get('s') == 'usize':
                    cand.add(s['place']['local'])
    if not cand:
        return cand
    bad = set()
    for i, b in F.blocks(f):
        for s in F.stmts_and_term(b):
            if s.get('k') == 'assign' and s['rv']['k'] == 'binop' and s['rv']['op'] in ('BitAnd', 'Eq', 'Ne'):
                continue
            if s.get('k') == 'assert' and ('PointerDereference' in s.get('msg_full', '')):
                continue
            if s.get('k') == 'assign' and not s['place']['proj'] and s['place']['local'] in cand and s['rv']['k'] == 'cast':
                continue
            for pl in places_of(s):
                if pl['local'] in cand:
                    bad.add(pl['local'])
    return cand - bad


class Effects:
    def __init__(self, facts):
        self.facts = facts
        self._memo = {}

    def of(self, key):
        if key not in self._memo:
            self._memo[key] = body_effects(self.facts.fns[key], self.facts)
        return self._memo[key]

    def transitive(self, entries, avoid=()):
        """{(kind, detail): [(body key, site)]} over everything reachable from entries (never entering `avoid`), plus the reach info."""
        seen, ext, indirect, parent = self.facts.reach(entries, avoid=avoid)
        agg = collections.defaultdict(list)
        for k in sorted(seen):
            for kind, detail, site in self.of(k):
                agg[(kind, detail)].append((k, site))
        return agg, seen, parent
