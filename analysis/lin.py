"""Linear integer constraints: expressions, constraint sets, Fourier-Motzkin projection,
entailment, weak join.  Prototype for engine E4."""
from math import gcd
from functools import reduce
import itertools

_fresh = itertools.count()

def fresh(prefix="s"):
    return f"{prefix}#{next(_fresh)}"


class Lin:
    """c0 + sum(coef[a] * a); immutable-ish."""
    __slots__ = ("t", "c")

    def __init__(self, terms=None, const=0):
        self.t = {k: v for k, v in (terms or {}).items() if v != 0}
        self.c = const

    @staticmethod
    def const(n):
        return Lin({}, n)

    @staticmethod
    def var(a):
        return Lin({a: 1}, 0)

    def __add__(self, o):
        o = lin(o)
        t = dict(self.t)
        for k, v in o.t.items():
            t[k] = t.get(k, 0) + v
        return Lin(t, self.c + o.c)

    def __neg__(self):
        return Lin({k: -v for k, v in self.t.items()}, -self.c)

    def __sub__(self, o):
        return self + (-lin(o))

    def scale(self, n):
        return Lin({k: v * n for k, v in self.t.items()}, self.c * n)

    def is_const(self):
        return not self.t

    def atoms(self):
        return set(self.t)

    def subst(self, a, e):
        if a not in self.t:
            return self
        k = self.t[a]
        t = dict(self.t)
        del t[a]
        return Lin(t, self.c) + lin(e).scale(k)

    def key(self):
        return (tuple(sorted(self.t.items())), self.c)

    def __eq__(self, o):
        return isinstance(o, Lin) and self.key() == o.key()

    def __hash__(self):
        return hash(self.key())

    def __repr__(self):
        parts = []
        for k, v in sorted(self.t.items()):
            parts.append((f"{v}*" if v != 1 else "") + k)
        if self.c or not parts:
            parts.append(str(self.c))
        return " + ".join(parts)


def lin(x):
    if isinstance(x, Lin):
        return x
    if isinstance(x, int):
        return Lin.const(x)
    if isinstance(x, str):
        return Lin.var(x)
    raise TypeError(x)


class Con:
    """e >= 0 (kind 'ge') or e == 0 (kind 'eq'), normalised."""
    __slots__ = ("e", "kind")

    def __init__(self, e, kind="ge"):
        e = lin(e)
        g = reduce(gcd, [abs(v) for v in e.t.values()], 0)
        if g > 1:
            if kind == "ge":
                # g*x + c >= 0  ->  x + floor(c/g) >= 0
                e = Lin({k: v // g for k, v in e.t.items()}, e.c // g)
            elif e.c % g == 0:
                e = Lin({k: v // g for k, v in e.t.items()}, e.c // g)
        if kind == "eq" and e.t:
            # canonical sign: first atom positive
            k0 = min(e.t)
            if e.t[k0] < 0:
                e = -e
        self.e = e
        self.kind = kind

    def key(self):
        return (self.kind, self.e.key())

    def __eq__(self, o):
        return self.key() == o.key()

    def __hash__(self):
        return hash(self.key())

    def atoms(self):
        return self.e.atoms()

    def trivial(self):
        """True if tautology, False if contradiction, None otherwise."""
        if self.e.t:
            if self.kind == "eq":
                g = reduce(gcd, [abs(v) for v in self.e.t.values()], 0)
                if g > 1 and self.e.c % g != 0:
                    return False
            return None
        if self.kind == "ge":
            return self.e.c >= 0
        return self.e.c == 0

    def __repr__(self):
        return f"{self.e} {'>=' if self.kind == 'ge' else '=='} 0"


def ge(a, b):
    return Con(lin(a) - lin(b), "ge")


def le(a, b):
    return ge(b, a)


def gt(a, b):
    return Con(lin(a) - lin(b) - 1, "ge")


def lt(a, b):
    return gt(b, a)


def eq(a, b):
    return Con(lin(a) - lin(b), "eq")


class Infeasible(Exception):
    pass


FM_LIMIT = 4000
WJ_LIMIT = 36
ENT_OVF = 0


class CSet:
    """Conjunction of constraints. `bottom` = infeasible."""

    def __init__(self, cons=()):
        self.cons = set()
        self.bottom = False
        self._cache = None
        for c in cons:
            self.add(c)

    def copy(self):
        n = CSet()
        n.cons = set(self.cons)
        n.bottom = self.bottom
        n._cache = self._cache
        return n

    def add(self, c):
        self._cache = None
        if self.bottom:
            return
        t = c.trivial()
        if t is True:
            return
        if t is False:
            self.bottom = True
            return
        self.cons.add(c)

    def atoms(self):
        s = set()
        for c in self.cons:
            s |= c.atoms()
        return s

    # ---- projection -------------------------------------------------
    @staticmethod
    def _eliminate(cons, a):
        """Eliminate atom a from list of Con. Returns new list (may raise Infeasible)."""
        # use an equality if available (prefer coefficient +-1)
        eqs = [c for c in cons if c.kind == "eq" and a in c.e.t]
        if eqs:
            eqs.sort(key=lambda c: (abs(c.e.t[a]), len(c.e.t)))
            e0 = eqs[0]
            k = e0.e.t[a]
            out = []
            for c in cons:
                if c is e0:
                    continue
                if a not in c.e.t:
                    out.append(c)
                    continue
                m = c.e.t[a]
                # c.e * |k| - sign * e0.e * m   eliminates a
                if c.kind == "eq":
                    ne = c.e.scale(k) - e0.e.scale(m)
                    nc = Con(ne, "eq")
                else:
                    s = 1 if k > 0 else -1
                    ne = c.e.scale(abs(k)) - e0.e.scale(m * s)
                    nc = Con(ne, "ge")
                t = nc.trivial()
                if t is False:
                    raise Infeasible()
                if t is None:
                    out.append(nc)
            return out
        pos, neg, rest = [], [], []
        for c in cons:
            k = c.e.t.get(a, 0)
            if k > 0:
                pos.append(c)
            elif k < 0:
                neg.append(c)
            else:
                rest.append(c)
        out = dict.fromkeys(rest)
        if len(pos) * len(neg) > 4 * FM_LIMIT:
            raise OverflowError("FM blowup")
        for p in pos:
            for n in neg:
                kp, kn = p.e.t[a], -n.e.t[a]
                ne = p.e.scale(kn) + n.e.scale(kp)
                nc = Con(ne, "ge")
                t = nc.trivial()
                if t is False:
                    raise Infeasible()
                if t is None:
                    out[nc] = None
        if len(out) > FM_LIMIT:
            raise OverflowError("FM blowup")
        return list(out)

    @staticmethod
    def _prune(cons):
        """Drop syntactically dominated inequalities (same terms, weaker constant)."""
        best = {}
        others = []
        for c in cons:
            if c.kind == "ge":
                k = tuple(sorted(c.e.t.items()))
                if k not in best or c.e.c < best[k].e.c:
                    best[k] = c
            else:
                others.append(c)
        return others + list(best.values())

    def project(self, keep):
        """Return CSet over atoms in `keep` only (existentially eliminating the rest)."""
        if self.bottom:
            return self.copy()
        cons = sorted(self.cons, key=lambda c: c.key())
        elim = self.atoms() - set(keep)
        try:
            # eliminate atoms with equalities first, then fewest pos*neg products
            while elim:
                npos = {}; nneg = {}; haseq = set()
                for c in cons:
                    iseq = c.kind == "eq"
                    for a, k in c.e.t.items():
                        if a in elim:
                            if iseq: haseq.add(a)
                            elif k > 0: npos[a] = npos.get(a, 0) + 1
                            else: nneg[a] = nneg.get(a, 0) + 1
                best = None; bestc = None
                for a in sorted(elim):
                    if a in haseq: cst = -1
                    else:
                        p = npos.get(a, 0); n = nneg.get(a, 0)
                        cst = p * n - p - n
                    if bestc is None or cst < bestc:
                        best, bestc = a, cst
                        if cst == -1 and a in haseq: break
                a = best
                elim.discard(a)
                if a not in haseq and a not in npos and a not in nneg:
                    continue
                cons = self._prune(self._eliminate(cons, a))
        except Infeasible:
            r = CSet()
            r.bottom = True
            return r
        r = CSet()
        for c in cons:
            r.add(c)
        return r

    def restrict(self, keep):
        """cheap, lossy stand-in for project(): atoms bound by an equality are substituted away, then only the constraints written
        over `keep` atoms are kept (sound: a weaker set)"""
        if self.bottom:
            return self.copy()
        keep = set(keep)
        cons = sorted(self.cons, key=lambda c: c.key())
        try:
            for a in sorted(self.atoms() - keep):
                if any(c.kind == "eq" and a in c.e.t for c in cons):
                    cons = self._eliminate(cons, a)
        except Infeasible:
            r = CSet()
            r.bottom = True
            return r
        r = CSet()
        for c in cons:
            if set(c.e.t) <= keep:
                r.add(c)
        return r

    def minimized(self, limit=80):
        """the same set of solutions with the constraints the others already imply left out (kept small for summaries,
        which are instantiated at every call site)"""
        if self.bottom or len(self.cons) > limit:
            return self
        cons = sorted(self.cons, key=lambda c: (-len(c.e.t), c.key()))
        kept = list(cons)
        for c in cons:
            rest = CSet([x for x in kept if x is not c])
            try:
                if rest.entails(c):
                    kept = [x for x in kept if x is not c]
            except OverflowError:
                pass
        r = CSet(kept)
        return r

    def infeasible(self):
        if self.bottom:
            return True
        try:
            return self.project(()).bottom
        except OverflowError:
            return False

    # ---- queries ------------------------------------------------------
    def _relevant(self, atoms):
        """Constraints transitively connected to `atoms`."""
        todo = set(atoms)
        seen = set()
        out = []
        remaining = sorted(self.cons, key=lambda c: c.key())
        while todo:
            a = todo.pop()
            seen.add(a)
            nxt = []
            for c in remaining:
                if a in c.e.t:
                    out.append(c)
                    todo |= (c.atoms() - seen)
                else:
                    nxt.append(c)
            remaining = nxt
        return out

    def entails(self, c):
        """True if every integer model of self satisfies c (sound, incomplete)."""
        if self.bottom:
            return True
        t = c.trivial()
        if t is True:
            return True
        if c in self.cons:
            return True
        if c.kind == "eq":
            return self.entails(Con(c.e, "ge")) and self.entails(Con(-c.e, "ge"))
        if self._cache is None:
            self._cache = {}
        ck = c.key()
        if ck in self._cache:
            return self._cache[ck]
        r = self._entails_uncached(c)
        if self._cache is not None:
            self._cache[ck] = r
        return r

    def _entails_uncached(self, c):
        rel = self._relevant(c.atoms())
        neg = Con(-c.e - 1, "ge")  # e <= -1
        test = CSet(rel)
        test.add(neg)
        try:
            return test.project(()).bottom
        except OverflowError:
            global ENT_OVF
            ENT_OVF += 1
            return False

    def refutes(self, c):
        """True if self entails NOT c."""
        if c.kind == "ge":
            return self.entails(Con(-c.e - 1, "ge"))
        return self.entails(Con(c.e - 1, "ge")) or self.entails(Con(-c.e - 1, "ge"))

    def bounds(self, e):
        """(lo, hi) constant bounds of linear expr e (None = unbounded)."""
        e = lin(e)
        if self.bottom:
            return (None, None)
        v = fresh("q")
        test = CSet(self._relevant(e.atoms()))
        test.add(eq(v, e))
        try:
            p = test.project({v})
        except OverflowError:
            return (None, None)
        if p.bottom:
            return (None, None)
        lo = hi = None
        for c in p.cons:
            k = c.e.t.get(v, 0)
            if c.kind == "eq" and k:
                val = -c.e.c // k
                return (val, val)
            if k > 0:  # k*v + c >= 0 -> v >= ceil(-c/k)
                b = -(c.e.c // k)
                lo = b if lo is None else max(lo, b)
            elif k < 0:  # v <= floor(c/(-k))
                b = c.e.c // (-k)
                hi = b if hi is None else min(hi, b)
        return (lo, hi)

    def __repr__(self):
        if self.bottom:
            return "BOTTOM"
        return "{" + "; ".join(sorted(map(repr, self.cons))) + "}"


def weak_join(a, b, relax=True, thresholds=None):
    """Constraints of each side entailed by the other (both over the same atoms); a constraint that is
    not entailed is relaxed by the smallest constant that makes it hold on the other side
    (supporting half-space of the hull in that direction)."""
    if a.bottom:
        return b.copy()
    if b.bottom:
        return a.copy()
    r = CSet()
    relaxed = []
    def side(x, y):
        for c in sorted(x.cons, key=lambda c: c.key()):
            if y.entails(c):
                r.add(c); continue
            halves = (Con(c.e, "ge"), Con(-c.e, "ge")) if c.kind == "eq" else (c,)
            for h in halves:
                if y.entails(h):
                    r.add(h)
                elif relax and len(h.e.t) >= 2:
                    lo, _ = y.bounds(h.e)
                    if lo is not None and lo < 0 and -lo < (1 << 40):
                        d = -lo
                        if thresholds is not None:
                            ts = [t for t in thresholds if t >= d]
                            if not ts: continue
                            d = min(ts)
                        relaxed.append(Con(h.e + d, "ge"))
    side(a, b); side(b, a)
    # relaxed half-spaces are a precision bonus; keep the polyhedron small (dropping a constraint is always sound):
    # the tightest per direction, few-atom ones first, and none at all beyond WJ_LIMIT constraints
    relaxed = CSet._prune(relaxed)
    relaxed.sort(key=lambda c: (len(c.e.t), c.key()))
    for c in relaxed:
        if len(r.cons) >= WJ_LIMIT:
            break
        r.add(c)
    r.cons = set(CSet._prune(r.cons))
    return r


def widen(old, new, thresholds=()):
    """Keep constraints of old still entailed by new; a dropped bound on a single atom is
    relaxed to the nearest program constant (widening with thresholds)."""
    if old.bottom:
        return new.copy()
    if new.bottom:
        return old.copy()
    r = CSet()
    def relax(h):
        # h: k*a + c >= 0 with single atom
        if len(h.e.t) != 1:
            return
        (a, k), = h.e.t.items()
        if abs(k) != 1:
            return
        if k == -1:      # a <= c
            for t in sorted(thresholds):
                if t >= h.e.c:
                    cand = Con(Lin({a: -1}, t), "ge")
                    if new.entails(cand):
                        r.add(cand)
                        return
        else:            # a >= -c
            for t in sorted(thresholds, reverse=True):
                if t <= -h.e.c:
                    cand = Con(Lin({a: 1}, -t), "ge")
                    if new.entails(cand):
                        r.add(cand)
                        return
    for c in sorted(old.cons, key=lambda c: c.key()):
        if new.entails(c):
            r.add(c)
        else:
            halves = (Con(c.e, "ge"), Con(-c.e, "ge")) if c.kind == "eq" else (c,)
            for h in halves:
                if c.kind == "eq" and new.entails(h):
                    r.add(h)
                else:
                    relax(h)
    return r


if __name__ == "__main__":
    # smoke tests
    C = CSet([ge("x", 0), le("x", "n"), eq("y", Lin.var("x") + 1), le("n", 100)])
    assert C.entails(ge("y", 1))
    assert C.entails(le("y", 101))
    assert not C.entails(le("y", 100))
    print(C.bounds("y"))
    A = CSet([eq("len", "len0"), eq("nl", 0)])
    B = CSet([eq("len", Lin.var("len0") + Lin.var("p")), eq("nl", "p"), ge("p", 1)]).project({"len", "len0", "nl"})
    print("B", B)
    print("J", weak_join(A, B))
    print("ok")
