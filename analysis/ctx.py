"""Run context shared by all rule modules: lazy fact extraction per build
configuration, violation bookkeeping (keys without line numbers), the
known-findings filter, evidence and replay files."""
import hashlib
import json
import os
import sys
import time

from . import facts as F

VERIF = F.VERIF
LEVELS = None


def _manifest_level(prop):
    try:
        with open(os.path.join(VERIF, 'MANIFEST.json')) as fh:
            m = json.load(fh)
        for c in m.get('checks', []):
            if c['property_id'] == prop:
                return c['level_claimed']['category']
    except Exception:
        pass
    return 'other'


class Ctx:
    def __init__(self, prop, tier, repo, seed=0, selftest=True):
        self.prop = prop
        self.tier = tier
        self.repo = repo
        self.seed = seed
        self.selftest = selftest
        self._facts = {}
        self.violations = []      # dict(key, rule, fn, instance, msg, site, kind, path)
        self.rules = {}           # rule id -> dict(desc, instances, checked, samples)
        self.obligations = 0
        self.discharged = 0
        self.assumptions = []
        self.trusted = []
        self.samples = []
        self.extra = {}
        self.extract_s = 0.0
        self.configs_used = []

    # ---- facts ------------------------------------------------------------
    def facts(self, config='debug'):
        if config not in self._facts:
            doc = F.extract(self.repo, config)
            self.extract_s += doc.get('_extract_s', 0)
            self.configs_used.append(config)
            self._facts[config] = F.Facts(doc)
        return self._facts[config]

    def positive(self):
        """Facts of the tiny positive-example crate (selftest/positive): zero-expected rules must match there."""
        if '_positive' not in self._facts:
            doc = F.extract(os.path.join(VERIF, 'selftest', 'positive'), 'debug', crate='verif_positive')
            self.extract_s += doc.get('_extract_s', 0)
            self._facts['_positive'] = F.Facts(doc)
        return self._facts['_positive']

    def configs(self):
        """Build configurations a rule must hold in: one for quick, three for thorough."""
        if os.environ.get('VERIF_CONFIGS'):   # debugging aid: analyse the named configurations only
            return os.environ['VERIF_CONFIGS'].split(',')
        return ['debug'] if self.tier == 'quick' else ['debug', 'release', 'hooks']

    # ---- bookkeeping ------------------------------------------------------
    def rule(self, rid, desc):
        r = self.rules.setdefault(rid, {'desc': desc, 'instances': 0, 'ok': 0, 'samples': []})
        return r

    def instance(self, rid, what, ok=True, site=None):
        """Record one checked rule instance (for evidence and floors)."""
        r = self.rules.setdefault(rid, {'desc': '', 'instances': 0, 'ok': 0, 'samples': []})
        r['instances'] += 1
        self.obligations += 1
        if ok:
            r['ok'] += 1
            self.discharged += 1
        if len(r['samples']) < 6:
            r['samples'].append({'instance': what, 'site': site, 'ok': bool(ok)})

    def floor(self, rid, n, what):
        """Fail closed when a rule matched fewer instances than counted by hand."""
        got = self.rules.get(rid, {}).get('instances', 0)
        if got < n:
            self.violation(rid, '<floor>', what, 'rule %s matched %d instance(s) of "%s", expected at least %d '
                           '(anchor moved or rule no longer sees the code)' % (rid, got, what, n), kind='below-floor')

    def missing(self, rid, anchor):
        self.violation(rid, '<anchor>', anchor, 'anchor %s not found in the fact base' % anchor, kind='anchor-missing')

    def violation(self, rule, fn, instance, msg, site=None, kind='rule-violated', path=None, config=None):
        key = '%s:%s:%s' % (rule, _short(fn), instance)
        for v in self.violations:
            if v['key'] == key:
                if config and config not in v['configs']:
                    v['configs'].append(config)
                return
        self.violations.append({'key': key, 'rule': rule, 'fn': fn, 'instance': instance, 'msg': msg, 'site': site,
                                'kind': kind, 'path': path, 'configs': [config] if config else []})

    def assume(self, text):
        if text not in self.assumptions:
            self.assumptions.append(text)

    def trust(self, text):
        if text not in self.trusted:
            self.trusted.append(text)

    def sample(self, obj):
        if len(self.samples) < 12:
            self.samples.append(obj)

    # ---- tentative sub-runs (portfolio of analysis settings) ----------------
    def fork(self):
        """A scratch context sharing the extracted facts; its findings count only if merged."""
        c = Ctx(self.prop, self.tier, self.repo, self.seed, self.selftest)
        c._facts = self._facts
        return c

    def merge(self, sub):
        for v in sub.violations:
            for cfg in (v['configs'] or [None]):
                self.violation(v['rule'], v['fn'], v['instance'], v['msg'], site=v['site'], kind=v['kind'], path=v['path'], config=cfg)
        for rid, r in sub.rules.items():
            mine = self.rules.setdefault(rid, {'desc': r.get('desc', ''), 'instances': 0, 'ok': 0, 'samples': []})
            mine['instances'] += r['instances']
            mine['ok'] += r['ok']
            mine['samples'] += r['samples'][:max(0, 12 - len(mine['samples']))]
        self.obligations += sub.obligations
        self.discharged += sub.discharged
        for a in sub.assumptions:
            self.assume(a)
        for t in sub.trusted:
            self.trust(t)
        for x in sub.samples:
            self.sample(x)
        self.extra.update(sub.extra)

    # ---- finish -----------------------------------------------------------
    def finish(self, wall):
        with open(os.path.join(VERIF, 'known_findings.json')) as fh:
            kf = json.load(fh)
        known = {(k['property'], k['key']): k for k in kf.get('findings', [])}
        evdir = os.environ.get('VERIF_EVIDENCE_DIR') or os.path.join(VERIF, 'evidence')
        os.makedirs(os.path.join(evdir, 'replay'), exist_ok=True)
        new = []
        seen_known = set()
        for v in self.violations:
            k = (self.prop, v['key'])
            if k in known and v['kind'] == 'rule-violated':
                seen_known.add(k)
                print('KNOWN-FINDING: property=%s %s — %s' % (self.prop, v['key'], known[k]['what']))
                continue
            new.append(v)
        for v in new:
            h = hashlib.sha1(v['key'].encode()).hexdigest()[:10]
            rp = os.path.join(evdir, 'replay', '%s-%s.json' % (self.prop, h))
            with open(rp, 'w') as fh:
                json.dump({'property': self.prop, 'repo': self.repo, 'tier': self.tier, **v}, fh, indent=1)
            print('VIOLATION property=%s replay=%s' % (self.prop, rp))
            print('  kind=%s rule=%s' % (v['kind'], v['rule']))
            print('  at   %s  (%s)' % (v['site'] or '?', v['fn']))
            for line in str(v['msg']).split('\n'):
                print('  ' + line)
            if v['path']:
                print('  path ' + ' -> '.join(str(x) for x in v['path']))
        level = _manifest_level(self.prop)
        rules_ev = {rid: {'desc': r['desc'], 'instances': r['instances'], 'holding': r['ok'], 'samples': r['samples']}
                    for rid, r in sorted(self.rules.items())}
        distinct = sum(1 for r in self.rules.values() for _ in range(r['instances']))
        cov = {
            'explanation': 'static analysis of the MIR of %s (configs %s): %d rule(s), %d rule instance(s)/obligation(s) decided, %d holding; '
                           'every instance is a construct of the current source, none is an execution'
                           % (self.repo, ','.join(self.configs_used) or '-', len(self.rules), self.obligations, self.discharged),
            'obligations': self.obligations,
            'discharged': self.discharged,
            'checker_cmd': './check %s --tier %s' % (self.prop, self.tier),
            'trusted_base': ['rustc nightly MIR construction and trait resolution (mirfacts driver)',
                             'python rule engines under /verif/analysis'] + self.trusted,
            'evaluations': max(self.obligations, 1),
            'distinct_nontrivial': max(distinct, 0),
            'rule': 'one evaluation per rule instance (function, call site, field, table entry or proof obligation) found in the MIR; '
                    'distinct = distinct (rule, site) pairs',
            'samples': (self.samples or [s for r in self.rules.values() for s in r['samples']][:12]) or ['(no instance)'],
            'rules': rules_ev,
            'configs': self.configs_used,
            'fact_extraction_s': round(self.extract_s, 2),
            'known_findings_reported': sorted(k[1] for k in seen_known),
            'exhaustive': True,
        }
        cov.update(self.extra)
        ev = {
            'property_id': self.prop,
            'tier': self.tier,
            'seed': self.seed,
            'level': level,
            'coverage': cov,
            'assumptions': self.assumptions,
            'wall_s': round(wall, 2),
            'violations': len(new),
        }
        with open(os.path.join(evdir, self.prop + '.json'), 'w') as fh:
            json.dump(ev, fh, indent=1)
        print('%s %s: %d rule(s), %d instance(s), %d holding, %d violation(s), %d known finding(s), %.1fs'
              % (self.prop, self.tier, len(self.rules), self.obligations, self.discharged, len(new), len(seen_known), wall))
        return 1 if new else 0


def _short(fn):
    """Function key without lifetimes/generic noise, stable across line moves."""
    return fn.replace("<'_>", '').replace("<'t>", '').replace("::<'t>", '').replace("::<'_>", '')
