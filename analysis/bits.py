"""E3: bit-precise evaluation of loop-free header accessors over MIR facts.

Every integer is a vector of bits, every bit an exact Boolean function (truth table) of at most MAXV named
input bits, or TOP.  Because each tracked bit is an exact function of a few inputs, equality with a spec is
decided for all inputs at once; a TOP anywhere is reported as "not decided", never as a pass.
Unsupported constructs raise Undecided (the rule turns that into a fail-closed report).
"""
import json, glob, os, sys, itertools

MAXV = 8


class Undecided(Exception):
    pass

class BF:
    """Boolean function over a sorted tuple of variable names, as a truth table (int bitmask)."""
    __slots__ = ("vs", "tt")
    def __init__(self, vs, tt): self.vs, self.tt = tuple(vs), tt
    @staticmethod
    def const(b): return BF((), 1 if b else 0)
    @staticmethod
    def var(n): return BF((n,), 0b10)
    def is_const(self): return not self.vs
    def _lift(self, vs):
        if self.vs == vs: return self.tt
        idx = [vs.index(v) for v in self.vs]
        tt = 0
        for a in range(1 << len(vs)):
            sub = 0
            for j, i in enumerate(idx):
                if (a >> i) & 1: sub |= 1 << j
            if (self.tt >> sub) & 1: tt |= 1 << a
        return tt
    def _bin(self, o, f):
        vs = tuple(sorted(set(self.vs) | set(o.vs)))
        if len(vs) > MAXV: return TOP
        a, b = self._lift(vs), o._lift(vs)
        full = (1 << (1 << len(vs))) - 1
        return BF(vs, f(a, b) & full).simp()
    def __and__(self, o): return TOP if (self is TOP or o is TOP) and not (self.is0() or o.is0()) else (BF.const(0) if (self.is0() or o.is0()) else self._bin(o, lambda a, b: a & b))
    def __or__(self, o): return TOP if (self is TOP or o is TOP) and not (self.is1() or o.is1()) else (BF.const(1) if (self.is1() or o.is1()) else self._bin(o, lambda a, b: a | b))
    def __xor__(self, o): return TOP if (self is TOP or o is TOP) else self._bin(o, lambda a, b: a ^ b)
    def __invert__(self):
        if self is TOP: return TOP
        full = (1 << (1 << len(self.vs))) - 1
        return BF(self.vs, ~self.tt & full)
    def is0(self): return self is not TOP and self.tt == 0
    def is1(self): return self is not TOP and not self.vs and self.tt == 1 or (self is not TOP and self.tt == (1 << (1 << len(self.vs))) - 1)
    def simp(self):
        vs = list(self.vs); tt = self.tt
        for v in list(vs):
            i = vs.index(v); n = len(vs)
            dep = False
            for a in range(1 << n):
                if not (a >> i) & 1:
                    if ((tt >> a) & 1) != ((tt >> (a | (1 << i))) & 1): dep = True; break
            if not dep:
                ntt = 0; k = 0
                for a in range(1 << n):
                    if not (a >> i) & 1:
                        if (tt >> a) & 1: ntt |= 1 << k
                        k += 1
                vs.pop(i); tt = ntt
        return BF(tuple(vs), tt)
    def __eq__(self, o): return isinstance(o, BF) and self is not TOP and o is not TOP and self.simp().vs == o.simp().vs and self.simp().tt == o.simp().tt
    def __hash__(self): return hash((self.vs, self.tt))
    def __repr__(self):
        if self is TOP: return "T?"
        s = self.simp()
        if not s.vs: return str(s.tt)
        if len(s.vs) == 1: return s.vs[0] if s.tt == 0b10 else "!" + s.vs[0]
        if len(s.vs) == 2:
            names = {0b1000: "{0}&{1}", 0b1110: "{0}|{1}", 0b0110: "{0}^{1}"}
            if s.tt in names: return names[s.tt].format(*s.vs)
        return f"f{s.vs}:{s.tt:b}"
TOP = BF(("?",), 0)

def ite(c, a, b): return (c & a) | (~c & b)

class BV:
    def __init__(self, bits): self.bits = list(bits)  # lsb first
    @staticmethod
    def const(v, w): return BV([BF.const((v >> i) & 1) for i in range(w)])
    @staticmethod
    def sym(name, w): return BV([BF.var(f"{name}{i}") for i in range(w)])
    @property
    def w(self): return len(self.bits)
    def __repr__(self): return "[" + " ".join(repr(b) for b in reversed(self.bits)) + "]"
    def zext(self, w): return BV(self.bits[:w] + [BF.const(0)] * max(0, w - self.w))

def bf_from_fn(bvs, fn):
    """Exact Boolean function of fn(int values of the given bit vectors), by enumeration over their (<= MAXV) input bits."""
    vs = set()
    for bv in bvs:
        if not isinstance(bv, BV): return TOP
        for bit in bv.bits:
            if bit is TOP: return TOP
            vs |= set(bit.vs)
    vs = tuple(sorted(vs))
    if len(vs) > MAXV: return TOP
    tt = 0
    for a in range(1 << len(vs)):
        env = {v: (a >> i) & 1 for i, v in enumerate(vs)}
        vals = []
        for bv in bvs:
            x = 0
            for n, bit in enumerate(bv.bits):
                sub = 0
                for j, v in enumerate(bit.vs):
                    if env[v]: sub |= 1 << j
                if (bit.tt >> sub) & 1: x |= 1 << n
            vals.append(x)
        if fn(*vals): tt |= 1 << a
    return BF(vs, tt).simp()


def bf_table(bf, names):
    """Set of integer values (over the ordered bit names, lsb first) for which the Boolean function is true."""
    if bf is TOP: return None
    out = set()
    for x in range(1 << len(names)):
        sub = 0
        for j, v in enumerate(bf.vs):
            if v in names and (x >> names.index(v)) & 1: sub |= 1 << j
        if (bf.tt >> sub) & 1: out.add(x)
    return out


def bv_ite(c, a, b): return BV([ite(c, x, y) for x, y in zip(a.bits, b.bits)])

U8_FNS = {
    "to_ascii_lowercase": ("u8", lambda x: x + 32 if 65 <= x <= 90 else x),
    "to_ascii_uppercase": ("u8", lambda x: x - 32 if 97 <= x <= 122 else x),
    "is_ascii_uppercase": ("bool", lambda x: 65 <= x <= 90),
    "is_ascii_lowercase": ("bool", lambda x: 97 <= x <= 122),
    "is_ascii_alphabetic": ("bool", lambda x: 65 <= x <= 90 or 97 <= x <= 122),
    "is_ascii_digit": ("bool", lambda x: 48 <= x <= 57),
    "is_ascii": ("bool", lambda x: x < 128),
}

class View:  # slice view into a named byte array
    def __init__(self, arr, off): self.arr, self.off = arr, off
class CellRef:
    def __init__(self, arr, idx): self.arr, self.idx = arr, idx
class OptExt: pass
class Tup:
    def __init__(self, items): self.items = items
class EnumS:
    """an enum whose variant depends on a Boolean function: `cond` true -> a (EnumV), false -> b (EnumV)"""
    def __init__(self, cond, a, b): self.cond, self.a, self.b = cond, a, b
class EnumV:
    """a value of an enum whose variant is known on this path (Ok(x), Some(x), Continue(x), ...)"""
    def __init__(self, adt, vi, items): self.adt, self.vi, self.items = adt, vi, items

class Interp:
    def __init__(self, fns, models=None):
        self.fns = fns
        self.models = models or {}
    def outcomes(self, key, args, mem=None):
        """nondeterministic evaluation: unknown values (captured state) make every branch that tests them feasible;
        returns the list of values the body can return (one per explored path)."""
        self.nondet = True
        results = []
        self._exec(self.fns[key], 0, {i + 1: a for i, a in enumerate(args)}, {k: list(v) for k, v in (mem or {}).items()}, BF.const(1), results, 0)
        return [r for pc, r, m in results]
    def run(self, key, args, mem):
        """args: list of values; mem: dict arr-> list of BV bytes. returns (ret BV/BF, mem) merged over paths"""
        f = self.fns[key]
        results = []
        self._exec(f, 0, {i + 1: a for i, a in enumerate(args)}, {k: list(v) for k, v in mem.items()}, BF.const(1), results, 0)
        # merge
        ret = None; outmem = None; first = True
        for pc, r, m in results:
            if first:
                ret, outmem = r, m; first = False; continue
            if isinstance(r, BV): ret = bv_ite(pc, r, ret)
            elif isinstance(r, BF): ret = ite(pc, r, ret)
            for k in outmem: outmem[k] = [bv_ite(pc, x, y) for x, y in zip(m[k], outmem[k])]
        return ret, outmem
    def width(self, ty): return ty.get("bits", 64) if ty.get("k") == "int" else (1 if ty.get("k") == "bool" else 64)
    def operand(self, o, env, mem):
        if o["k"] in ("copy", "move"): return self.read(o["place"], env, mem)
        if "val" in o:
            if o["ty"].get("k") == "bool": return BF.const(o["val"])
            return BV.const(o["val"] & ((1 << self.width(o["ty"])) - 1), self.width(o["ty"]))
        return None
    def read(self, pl, env, mem):
        v = env.get(pl["local"])
        for p in pl["proj"]:
            if p["k"] == "deref":
                if isinstance(v, CellRef): v = mem[v.arr][v.idx]
                continue
            if p["k"] == "downcast":
                if isinstance(v, EnumV): continue
                if isinstance(v, EnumS):
                    v = v.a if v.a.vi == p.get("vi") else v.b
                    continue
                return None
            if p["k"] == "field":
                if isinstance(v, (Tup, EnumV)): v = v.items[p["i"]] if p["i"] < len(v.items) else None
                elif v == "SELF":
                    v = getattr(self, "self_fields", {}).get(p.get("name"), "SELF." + p.get("name", "?"))
                    if v == "SELF.ext_flags":
                        # the optional EDNS flag word: present iff E, bits e0..e15 (so that match / if let / is_some / unwrap_or all read it alike)
                        v = EnumS(BF.var("E"), EnumV("std::option::Option", 1, [BV([BF.var(f"e{i}") for i in range(16)])]), EnumV("std::option::Option", 0, []))
                else: return None
            elif p["k"] == "constindex" or p["k"] == "index":
                if isinstance(v, View):
                    idx = env.get(p["local"]) if p["k"] == "index" else None
                    if isinstance(idx, BV) and all(b.is_const() for b in idx.bits):
                        i = sum((b.tt & 1) << n for n, b in enumerate(idx.bits))
                        v = mem[v.arr][v.off + i]
                    else: return None
                else: return None
            else: return None
        return v
    def write(self, pl, val, env, mem):
        if not pl["proj"]:
            env[pl["local"]] = val; return
        v = env.get(pl["local"])
        if pl["proj"][-1]["k"] == "deref" and isinstance(v, CellRef) and len(pl["proj"]) == 1:
            mem[v.arr][v.idx] = val; return
        if isinstance(v, Tup) and pl["proj"][-1]["k"] == "field":
            v.items[pl["proj"][-1]["i"]] = val; return
        if getattr(self, "nondet", False) and (v is None or isinstance(v, str)): return   # a store into unknown state
        raise Undecided("write " + json.dumps(pl)[:100])
    def binop(self, op, a, b):
        if getattr(self, "nondet", False) and (a is None or b is None):
            # unknown state (captured variables of a stateful closure): the result is unknown, every branch on it is explored
            return Tup([None, None]) if "WithOverflow" in op else None
        if op in ("BitAnd", "BitOr", "BitXor"):
            if isinstance(a, BF): return {"BitAnd": a & b, "BitOr": a | b, "BitXor": a ^ b}[op]
            return BV([{"BitAnd": x & y, "BitOr": x | y, "BitXor": x ^ y}[op] for x, y in zip(a.bits, b.bits)])
        if op in ("Shl", "Shr"):
            n = sum((bb.tt & 1) << i for i, bb in enumerate(b.bits))
            if op == "Shl": return BV(([BF.const(0)] * n + a.bits)[:a.w])
            return BV(a.bits[n:] + [BF.const(0)] * n)
        if op in ("Eq", "Ne"):
            if isinstance(a, BF): r = ~(a ^ b)
            else:
                r = BF.const(1)
                for x, y in zip(a.bits, b.bits): r = r & ~(x ^ y)
            return r if op == "Eq" else ~r
        if op in ("Lt", "Le", "Gt", "Ge"):
            import operator as _op
            return bf_from_fn([a, b], lambda x, y: {"Lt": _op.lt, "Le": _op.le, "Gt": _op.gt, "Ge": _op.ge}[op](x, y))
        if op.startswith("Add") or op.startswith("Sub"):
            c = BF.const(0 if op.startswith("Add") else 1); out = []
            for x, y in zip(a.bits, b.bits):
                yy = y if op.startswith("Add") else ~y
                out.append(x ^ yy ^ c); c = (x & yy) | (c & (x ^ yy))
            r = BV(out)
            return Tup([r, BF.const(0)]) if "WithOverflow" in op else r
        raise Undecided("binop " + op)
    def _exec(self, f, bb, env, mem, pc, results, depth):
        if pc.is0(): return
        if bb in getattr(self, "stop", ()):      # region evaluation: treat this block as the exit
            results.append((pc, None, mem)); return
        b = f["blocks"][bb]
        for s in b["stmts"]:
            if s["k"] != "assign": continue
            rv = s["rv"]; k = rv["k"]; val = None
            if k == "use": val = self.operand(rv["x"], env, mem)
            elif k == "binop": val = self.binop(rv["op"], self.operand(rv["l"], env, mem), self.operand(rv["r"], env, mem))
            elif k == "unop":
                x = self.operand(rv["x"], env, mem)
                if x is None and getattr(self, "nondet", False): val = None
                elif rv["op"] == "Not": val = ~x if isinstance(x, BF) else BV([~q for q in x.bits])
                elif rv["op"] == "PtrMetadata" and isinstance(x, View): val = BV.const(1 << 20, 64)   # length of a buffer view: "long enough" (bounds checks are not E3's business)
            elif k == "cast":
                x = self.operand(rv["x"], env, mem)
                if rv["kind"] == "IntToInt" and isinstance(x, BV): val = x.zext(self.width(rv["ty"]))
                elif rv["kind"] == "IntToInt" and isinstance(x, BF): val = BV([x]).zext(self.width(rv["ty"]))
                else: val = x
            elif k in ("ref", "rawptr"):
                val = self.read(rv["place"], env, mem) if rv["place"]["proj"] and rv["place"]["proj"][-1]["k"] != "deref" else env.get(rv["place"]["local"])
                if rv["place"]["proj"] and rv["place"]["proj"][-1]["k"] == "deref": val = env.get(rv["place"]["local"])
                if isinstance(val, str) or val is None:
                    val = self.read(rv["place"], env, mem)
            elif k == "discr":
                x = self.read(rv["place"], env, mem)
                if isinstance(x, EnumV): val = BV.const(x.vi, 64)
                elif isinstance(x, EnumS): val = bv_ite(x.cond, BV.const(x.a.vi, 64), BV.const(x.b.vi, 64))
            elif k == "aggregate" and rv.get("agg") == "adt" and rv.get("adt", "").split("<")[0] in ("std::result::Result", "std::option::Option", "std::ops::ControlFlow"):
                val = EnumV(rv["adt"], rv.get("vi", 0), [self.operand(o, env, mem) for o in rv["ops"]])
            elif k == "aggregate":
                ops = [self.operand(o, env, mem) for o in rv["ops"]]
                val = Tup(ops) if rv["agg"] in ("tuple",) else ("RANGEFROM", ops[0]) if rv.get("adt") in ("std::ops::RangeFrom", "std::ops::Range") else Tup(ops)
            self.write(s["place"], val, env, mem)
        t = b["term"]; k = t["k"]
        if k == "goto": return self._exec(f, t["target"], env, mem, pc, results, depth)
        if k == "return": results.append((pc, env.get(0), mem)); return
        if k == "assert": return self._exec(f, t["target"], env, mem, pc, results, depth)
        if k == "drop": return self._exec(f, t["target"], env, mem, pc, results, depth)
        if k == "switch":
            d = self.operand(t["discr"], env, mem)
            if d is None and getattr(self, "nondet", False):
                for tb in sorted(set([tb for _, tb in t["targets"]] + [t["otherwise"]])):
                    self._exec(f, tb, dict(env), {k2: list(v) for k2, v in mem.items()}, pc, results, depth)
                return
            rest = BF.const(1)
            for val, tb in t["targets"]:
                c = (d if val else ~d) if isinstance(d, BF) else self.binop("Eq", d, BV.const(val, d.w))
                self._exec(f, tb, dict(env), {k2: list(v) for k2, v in mem.items()}, pc & c, results, depth); rest = rest & ~c
            return self._exec(f, t["otherwise"], dict(env), {k2: list(v) for k2, v in mem.items()}, pc & rest, results, depth)
        if k == "call":
            c = t["callee"]; path = c.get("resolved") or c["path"]
            args = [self.operand(a, env, mem) for a in t["args"]]
            r = None
            modelled = False
            for suf, fn in self.models.items():
                if path.endswith(suf) or (c.get("path") or "").endswith(suf):
                    r = fn(args, mem); modelled = True
                    break
            if modelled: pass
            elif path in ("parsed_packet::ParsedPacket::packet", "parsed_packet::ParsedPacket::packet_mut"): r = View("P", 0)
            elif "Index" in path and isinstance(args[0], View):
                i = args[1]
                if isinstance(i, tuple) and i[0] == "RANGEFROM": r = View(args[0].arr, args[0].off + sum((bb_.tt & 1) << n for n, bb_ in enumerate(i[1].bits)))
                elif isinstance(i, BV): r = CellRef(args[0].arr, args[0].off + sum((bb_.tt & 1) << n for n, bb_ in enumerate(i.bits)))
            elif path.endswith("ByteOrder>::read_u16"):
                v = args[0]; r = BV(mem[v.arr][v.off + 1].bits + mem[v.arr][v.off].bits)
            elif path.endswith("ByteOrder>::read_u32"):
                v = args[0]; r = BV(mem[v.arr][v.off + 3].bits + mem[v.arr][v.off + 2].bits + mem[v.arr][v.off + 1].bits + mem[v.arr][v.off].bits)
            elif path.endswith("ByteOrder>::write_u32"):
                v = args[0]
                for j in range(4): mem[v.arr][v.off + j] = BV(args[1].bits[8 * (3 - j):8 * (4 - j)])
                r = Tup([])
            elif path in ("<T as std::convert::Into<U>>::into", "<T as std::convert::From<T>>::from") and isinstance(args[0], (BV, BF)):
                r = args[0]
            elif path.startswith("std::convert::num::<impl std::convert::From<u") and path.endswith(">::from") and isinstance(args[0], (BV, BF)):
                import re as _re2
                m2_ = _re2.search(r"From<u(\d+|size)> for u(\d+|size)>::from", path)
                wt2 = 64 if m2_ is None or m2_.group(2) == "size" else int(m2_.group(2))
                r = (args[0] if isinstance(args[0], BV) else BV([args[0]])).zext(wt2)      # lossless widening
            elif (path.endswith(" as std::ops::DerefMut>::deref_mut") or path.endswith(" as std::ops::Deref>::deref") or path.endswith("::as_mut_slice") or path.endswith("::as_slice")
                  or path.endswith("::as_mut") or path.endswith("::as_ref")) and isinstance(args[0], (View, CellRef)):
                r = args[0]       # a view of the same bytes
            elif path.endswith("ByteOrder>::write_u16"):
                v = args[0]; mem[v.arr][v.off] = BV(args[1].bits[8:16]); mem[v.arr][v.off + 1] = BV(args[1].bits[0:8]); r = Tup([])
            elif path.endswith("as std::ops::Try>::branch") and isinstance(args[0], EnumV):
                # Ok(v)/Some(v) -> Continue(v); the failing variant breaks out (value-free here)
                good = 0 if args[0].adt.startswith("std::result::Result") else 1
                r = EnumV("std::ops::ControlFlow", 0, list(args[0].items)) if args[0].vi == good else EnumV("std::ops::ControlFlow", 1, [args[0]])
            elif path in ("std::result::Result::<T, E>::map", "std::option::Option::<T>::map") and isinstance(args[0], EnumV):
                good = 0 if path.startswith("std::result") else 1
                if args[0].vi != good:
                    r = args[0]
                else:
                    a1 = t["args"][1]
                    cty = a1.get("ty") or a1.get("place", {}).get("ty") or {}
                    ck = cty.get("def")
                    if ck in self.fns:
                        sub = Interp.__new__(Interp); sub.fns = self.fns; sub.models = self.models; sub.self_fields = getattr(self, "self_fields", {})
                        rr_, mem2 = sub.run(ck, [args[1]] + list(args[0].items), mem)
                        for kk in mem: mem[kk] = mem2[kk]
                        r = EnumV(args[0].adt, good, [rr_])
            elif "std::convert::TryFrom<u" in path and path.endswith("::try_from") and isinstance(args[0], BV):
                import re as _re
                m_ = _re.search(r"TryFrom<u(\d+|size)> for u(\d+|size)>", path)
                wt = 64 if m_ is None or m_.group(2) == "size" else int(m_.group(2))
                hi = BF.const(0)
                upper = [b_ for b_ in args[0].bits[wt:] if not (b_ is not TOP and b_.is0())]
                if len(upper) > 6 and all(b_ is not TOP and len(b_.vs) == 1 for b_ in upper):
                    # "some upper bit is set" as one free variable: the upper bits are independent inputs, nothing else reads them
                    hi = BF.var("any(%s..%s)" % (upper[0].vs[0], upper[-1].vs[0]))
                else:
                    for b_ in upper: hi = hi | b_
                r = EnumS(~hi, EnumV("std::result::Result", 0, [BV(args[0].bits[:wt]).zext(wt)]), EnumV("std::result::Result", 1, [Tup([])]))
            elif path in ("std::result::Result::<T, E>::unwrap_or_default", "std::option::Option::<T>::unwrap_or_default", "std::result::Result::<T, E>::unwrap_or", "std::option::Option::<T>::unwrap_or") \
                    and isinstance(args[0], (EnumV, EnumS)):
                good = 0 if path.startswith("std::result") else 1
                def _dflt(like):
                    return args[1] if len(args) > 1 and args[1] is not None else (BV.const(0, like.w) if isinstance(like, BV) else BF.const(0))
                e_ = args[0]
                if isinstance(e_, EnumV):
                    r = e_.items[0] if e_.vi == good else (args[1] if len(args) > 1 else None)
                else:
                    ga, gb = (e_.a, e_.b) if e_.a.vi == good else (e_.b, e_.a)
                    cnd = e_.cond if e_.a.vi == good else ~e_.cond
                    val_ = ga.items[0]
                    r = bv_ite(cnd, val_, _dflt(val_)) if isinstance(val_, BV) else ite(cnd, val_, _dflt(val_))
            elif path in ("std::option::Option::<T>::is_some", "std::option::Option::<T>::is_none", "std::result::Result::<T, E>::is_ok", "std::result::Result::<T, E>::is_err") \
                    and (isinstance(args[0], (EnumV, EnumS)) or args[0] == "SELF.ext_flags"):
                e_ = args[0]
                if e_ == "SELF.ext_flags":
                    e_ = EnumS(BF.var("E"), EnumV("std::option::Option", 1, [BV([BF.var(f"e{i}") for i in range(16)])]), EnumV("std::option::Option", 0, []))
                good = 0 if path.startswith("std::result") else 1
                isgood = (BF.const(1 if e_.vi == good else 0) if isinstance(e_, EnumV) else (e_.cond if e_.a.vi == good else ~e_.cond))
                r = isgood if path.rsplit("::", 1)[-1] in ("is_some", "is_ok") else ~isgood
            elif path.startswith("core::num::<impl u") and path.rsplit("::", 1)[-1] in ("wrapping_sub", "wrapping_add") and isinstance(args[0], BV) and isinstance(args[1], BV):
                r = self.binop("Sub" if path.endswith("wrapping_sub") else "Add", args[0], args[1])
            elif path == "core::num::<impl u8>::eq_ignore_ascii_case" and len(args) == 2:
                a0 = mem[args[0].arr][args[0].idx] if isinstance(args[0], CellRef) else args[0]
                a1 = mem[args[1].arr][args[1].idx] if isinstance(args[1], CellRef) else args[1]
                lo_ = U8_FNS["to_ascii_lowercase"][1]
                r = bf_from_fn([a0, a1], lambda x, y: lo_(x) == lo_(y)) if isinstance(a0, BV) and isinstance(a1, BV) else None
            elif path.startswith("core::num::<impl u8>::") and path.rsplit("::", 1)[-1] in U8_FNS and (isinstance(args[0], BV) or isinstance(args[0], CellRef)):
                a0 = mem[args[0].arr][args[0].idx] if isinstance(args[0], CellRef) else args[0]
                fn_ = U8_FNS[path.rsplit("::", 1)[-1]]
                if fn_[0] == "bool":
                    r = bf_from_fn([a0], lambda x: bool(fn_[1](x)))
                else:
                    r = BV([bf_from_fn([a0], (lambda i_: (lambda x: bool((fn_[1](x) >> i_) & 1)))(i)) for i in range(8)])
            elif path == "std::option::Option::<T>::unwrap_or" and args[0] == "SELF.ext_flags":
                r = BV([BF.var("E") & BF.var(f"e{i}") for i in range(16)])
            elif path in self.fns or c.get("resolved_local"):
                key = path if path in self.fns else None
                if key:
                    sub = Interp.__new__(Interp); sub.fns = self.fns; sub.models = self.models; sub.self_fields = getattr(self, "self_fields", {})
                    r, mem2 = sub.run(key, args, mem)
                    for kk in mem: mem[kk] = mem2[kk]
                    if r is None and (self.fns[key]["locals"][0].get("k") == "tuple" and not self.fns[key]["locals"][0].get("n")):
                        r = Tup([])      # a local function returning ()
            if r is None and not (path.endswith("write_u16") or path.endswith("write_u32")): raise Undecided("call " + path)
            self.write(t["dest"], r, env, mem)
            return self._exec(f, t["target"], env, mem, pc, results, depth)
        raise Undecided("term " + k)

