"""Transparent helpers: splice the body of a *new* local function into its callers.

The rules are written against the functions of the pinned tree (tables/known_fns.json lists their keys).  A refactor that
moves part of an analysed function into a fresh helper would otherwise change what the structural rules see (sites counted
per function, per-arm facts, probes keyed by the calling function) without changing behaviour.  Every direct call from a body of
the crate to a local function whose key is NOT in that table - and which is not recursive - is therefore replaced, in the
fact base, by the callee's blocks (fresh locals, parameters bound by assignments, `return` turned into an assignment to the
call's destination followed by a jump to the call's continuation).  MIR inlining preserves behaviour, so every rule decides the
same program; on the pinned tree nothing is inlined (all functions are known).  VERIF_NO_INLINE=1 switches it off.
"""
import copy
import json
import os

TABLE = os.path.join(os.path.dirname(os.path.dirname(os.path.abspath(__file__))), 'tables', 'known_fns.json')
MAX_DEPTH = 3
MAX_BLOCKS = 400


def known():
    with open(TABLE) as fh:
        return set(json.load(fh)['keys'])


def _remap(o, lmap, bmap, poff=0):
    """deep copy of a MIR JSON fragment with locals and block indices shifted"""
    if isinstance(o, dict):
        out = {}
        for k, v in o.items():
            if k == 'local' and isinstance(v, int) and not isinstance(v, bool):
                out[k] = lmap(v)
            elif k == 'promoted' and isinstance(v, int) and not isinstance(v, bool):
                out[k] = v + poff
            elif k in ('target', 'otherwise') and isinstance(v, int):
                out[k] = bmap(v)
            elif k == 'targets' and isinstance(v, list):
                out[k] = [[x[0], bmap(x[1])] for x in v]
            elif k == 'succ' and isinstance(v, list):
                out[k] = [bmap(x) for x in v]
            else:
                out[k] = _remap(v, lmap, bmap, poff)
        return out
    if isinstance(o, list):
        return [_remap(x, lmap, bmap, poff) for x in o]
    return o


def _splice(f, bi, g):
    """replace the call terminating block bi of f by the body of g"""
    t = f['blocks'][bi]['term']
    off_l = len(f['locals'])
    off_b = len(f['blocks'])
    f['locals'] = f['locals'] + copy.deepcopy(g['locals'])
    lmap = lambda i: i + off_l      # noqa: E731
    bmap = lambda b: b + off_b      # noqa: E731
    at = t.get('at')
    binds = []
    for i, a in enumerate(t['args']):
        binds.append({'k': 'assign', 'at': at, 'exp': False, 'place': {'local': off_l + 1 + i, 'proj': [], 'ty': g['locals'][1 + i] if 1 + i < len(g['locals']) else {}},
                      'rv': {'k': 'use', 'x': a}})
    new_blocks = []
    for b in g['blocks']:
        nb = _remap(b, lmap, bmap, len(f.get('promoted', [])))
        if nb['term']['k'] == 'call':
            nb['term']['_spliced'] = True     # a trait call here is generic in the helper; in an instantiated caller the receiver is the caller's Self
        if nb['term']['k'] == 'return':
            ret = {'k': 'assign', 'at': nb['term'].get('at'), 'exp': False, 'place': t['dest'],
                   'rv': {'k': 'use', 'x': {'k': 'move', 'place': {'local': off_l, 'proj': [], 'ty': g['locals'][0]}}}}
            nb['stmts'] = nb['stmts'] + [ret]
            nb['term'] = {'k': 'goto', 'target': t['target']} if t.get('target') is not None else {'k': 'unreachable'}
        new_blocks.append(nb)
    f['blocks'][bi]['stmts'] = f['blocks'][bi]['stmts'] + binds
    f['blocks'][bi]['term'] = {'k': 'goto', 'target': off_b}
    f['blocks'] = f['blocks'] + new_blocks
    f.setdefault('_inlined', []).append(g['key'])
    if g.get('promoted'):
        f['promoted'] = list(f.get('promoted', [])) + copy.deepcopy(g['promoted'])     # constants of the helper (e.g. a thread-local key) now belong to the caller


def inline_new_helpers(facts):
    """mutates facts.fns in place; returns {caller key: [inlined callee keys]}"""
    if os.environ.get('VERIF_NO_INLINE'):
        return {}
    try:
        kn = known()
    except OSError:
        return {}
    new = {k for k, f in facts.fns.items() if k not in kn and f.get('kind') in ('Fn', 'AssocFn') and '{closure' not in k}
    if not new:
        return {}
    # recursion among the new functions: leave those alone
    def calls(f):
        out = set()
        for b in f['blocks']:
            t = b['term']
            if t['k'] == 'call':
                for ck in facts.callee_keys(f, t):
                    out.add(ck)
        return out
    reach = {k: calls(facts.fns[k]) & new for k in new}
    changed = True
    while changed:
        changed = False
        for k in new:
            ext = set()
            for m in reach[k]:
                ext |= reach.get(m, set())
            if not ext <= reach[k]:
                reach[k] |= ext
                changed = True
    def has_loop(f):
        from analysis import facts as F_
        try:
            return bool(F_.natural_loops(f))
        except Exception:  # noqa
            return True
    # a helper with a loop of its own stays a call: the interprocedural engines summarise it, and splicing it into a caller's loop
    # would turn one loop into a nest (which costs the numeric engine its loop bounds)
    ok = {k for k in new if k not in reach[k]}
    loopy = {k for k in ok if has_loop(facts.fns[k])}      # spliced only where that does not create a loop nest
    originals = {k: copy.deepcopy(facts.fns[k]) for k in ok}
    done = {}
    for key in sorted(facts.fns):
        f = facts.fns[key]
        for _ in range(MAX_DEPTH):
            sites = []
            in_loop = None
            for bi, b in enumerate(f['blocks']):
                t = b['term']
                if t['k'] == 'call' and not b.get('cleanup') and len(f['blocks']) < MAX_BLOCKS:
                    cks = facts.callee_keys(f, t)
                    if len(cks) == 1 and cks[0] in ok and cks[0] != key and len(t['args']) == originals[cks[0]].get('arg_count', len(t['args'])):
                        if cks[0] in loopy:
                            if in_loop is None:
                                from analysis import facts as F_
                                try:
                                    in_loop = set().union(*F_.natural_loops(f).values()) if F_.natural_loops(f) else set()
                                except Exception:  # noqa
                                    in_loop = set(range(len(f['blocks'])))
                            if bi in in_loop:
                                continue
                        sites.append((bi, cks[0]))
            if not sites:
                break
            for bi, ck in sites:
                _splice(f, bi, originals[ck])
                done.setdefault(key, []).append(ck)
    # a helper that has been spliced into every caller is no function of the analysed program any more: rules that sweep over
    # "every function of the module" must not meet its free-standing body (its closures stay: the spliced code refers to them)
    still = set()
    for key, f in facts.fns.items():
        if key in ok:
            continue
        for b in f['blocks']:
            t = b['term']
            if t['k'] == 'call':
                for ck in facts.callee_keys(f, t):
                    if ck in ok:
                        still.add(ck)
        # function items used as values (combinator arguments)
        for item in facts.fnitems_of(f) if hasattr(facts, 'fnitems_of') else ():
            if item in ok:
                still.add(item)
    gone = sorted(k for k in ok if k not in still and any(k in v for v in done.values()))
    for k in gone:
        g = facts.fns.pop(k)
        facts.doc['fns'] = [x for x in facts.doc['fns'] if x is not g]
        lst = facts.bypath.get(g['path'])
        if lst:
            facts.bypath[g['path']] = [x for x in lst if x is not g]
    facts.removed_helpers = gone
    facts._edges = None
    return done
