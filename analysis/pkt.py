"""Events on the bytes of a ParsedPacket: which statements replace, resize or overwrite the packet buffer,
decided by value-flow provenance of the receiver (so a write into a freshly built Vec is *not* an event).

kinds
  replace   store to ParsedPacket.packet
  take      Option::take / mem::replace / mem::take on ParsedPacket.packet
  len       Vec length change on the packet buffer (resize, truncate, extend*, push, insert, drain, clear, split_off)
  bytes     bytes overwritten at a non-constant offset or at a constant offset >= 12 (can change names/records)
  hdr       bytes overwritten at a constant offset < 12 (header fields, counts)
  rdata     bytes overwritten through rdata_slice_mut (record header/data behind the owner name)
"""
from . import facts as F

PP = 'parsed_packet::ParsedPacket'
PACKET_SOURCES = ('parsed_packet::ParsedPacket::packet_mut',)
RAW_MUT = ('rr_iterator::DNSIterable::raw_mut',)
RDATA_SOURCES = ('rr_iterator::DNSIterable::rdata_slice_mut',)
NAME_SOURCES = ('rr_iterator::DNSIterable::name_slice_mut',)
LEN_CHANGERS = ('std::vec::Vec::<T, A>::resize', 'std::vec::Vec::<T, A>::truncate', 'std::vec::Vec::<T, A>::extend_from_slice',
                'std::vec::Vec::<T, A>::push', 'std::vec::Vec::<T, A>::insert', 'std::vec::Vec::<T, A>::drain', 'std::vec::Vec::<T, A>::clear',
                'std::vec::Vec::<T, A>::split_off', 'std::vec::Vec::<T, A>::remove', 'std::vec::Vec::<T, A>::pop', 'std::vec::Vec::<T, A>::append',
                'std::vec::Vec::<T, A>::resize_with', 'std::vec::Vec::<T, A>::splice', 'std::vec::Vec::<T, A>::retain',
                'std::vec::Vec::<T, A>::swap_remove', 'std::vec::Vec::<T, A>::dedup', 'std::vec::Vec::<T, A>::set_len',
                'std::vec::Vec::<T, A>::extend_from_within', '<std::vec::Vec<T, A> as std::iter::Extend<&\'a T>>::extend',
                '<std::vec::Vec<T, A> as std::iter::Extend<T>>::extend')
BYTE_WRITERS = ('core::slice::<impl [T]>::copy_within', 'core::slice::<impl [T]>::copy_from_slice', 'core::slice::<impl [T]>::clone_from_slice',
                'core::slice::<impl [T]>::fill', 'core::slice::<impl [T]>::swap', 'core::slice::<impl [T]>::reverse',
                '<byteorder::BigEndian as byteorder::ByteOrder>::write_u16', '<byteorder::BigEndian as byteorder::ByteOrder>::write_u32',
                '<byteorder::BigEndian as byteorder::ByteOrder>::write_u64', 'core::slice::<impl [T]>::make_ascii_lowercase',
                'core::slice::<impl [u8]>::make_ascii_lowercase', 'core::slice::<impl [T]>::rotate_left', 'core::slice::<impl [T]>::rotate_right')
INDEXERS = ('IndexMut<I>>::index_mut', 'Index<I>>::index', 'IndexMut<I> for [T]>::index_mut', 'Index<I> for [T]>::index',
            'as std::ops::DerefMut>::deref_mut', 'as std::ops::Deref>::deref', 'Vec::<T, A>::as_mut_slice', 'Option::<T>::as_mut',
            'Option::<T>::unwrap', 'Option::<T>::expect', '<impl [T]>::split_at_mut', '<impl [T]>::get_mut', '<impl [T]>::iter_mut',
            'Option::<T>::as_deref_mut')


def _inst(path):
    return path.split('@')[0]


class Provenance:
    """Classifies where a (mutable) slice / Vec reference points: 'packet', 'name', 'rdata', 'param:n' or None,
    together with the chain of index expressions applied on the way."""

    def __init__(self, f, facts):
        self.f = f
        self.facts = facts
        self.defs = F.single_defs(f)

    def classify(self, op, depth=14, chain=None):
        chain = chain if chain is not None else []
        if op.get('k') not in ('copy', 'move'):
            return None, chain
        return self.classify_place(op['place'], depth, chain)

    def classify_place(self, pl, depth, chain):
        f = self.f
        if (PP, 'packet') in F.fields_of(pl):
            return 'packet', chain
        fs = F.fields_of(pl)
        if fs and fs[-1] == ('rr_iterator::RRRawMut', 'packet'):
            return 'packet', chain
        loc = pl['local']
        if 1 <= loc <= f['arg_count'] and not fs:
            return 'param:%d' % loc, chain
        if depth <= 0:
            return None, chain
        d = self.defs.get(loc)
        if d is None:
            return None, chain
        if d[0] == 'call':
            t = d[1]
            p = F.call_path(t) or ''
            tp = F.call_trait_path(t) or ''
            base = _inst(p)
            if base in PACKET_SOURCES or tp in PACKET_SOURCES:
                return 'packet', chain
            if base in RAW_MUT or tp in RAW_MUT or p.endswith(' as rr_iterator::DNSIterable>::raw_mut'):
                return 'packet', chain
            if base in RDATA_SOURCES or tp in RDATA_SOURCES:
                return 'rdata', chain
            if base in NAME_SOURCES or tp in NAME_SOURCES:
                return 'name', chain
            if any(x in p for x in INDEXERS) and t['args']:
                if 'ndex' in p and len(t['args']) > 1:
                    chain = chain + [F.expr(f, self.defs, t['args'][1])]
                return self.classify(t['args'][0], depth - 1, chain)
            return None, chain
        rv = d[1]
        if rv['k'] in ('use', 'cast'):
            return self.classify(rv['x'], depth - 1, chain)
        if rv['k'] in ('ref', 'rawptr'):
            p2 = rv['place']
            for pr in p2['proj']:
                if pr['k'] == 'index':
                    chain = chain + [('local', pr['local'])]
                if pr['k'] == 'constindex':
                    chain = chain + [('const', pr['offset'])]
            return self.classify_place(p2, depth - 1, chain)
        return None, chain


def _const_start(e):
    """Start offset of an index expression when it is a compile-time constant, else None."""
    if e is None:
        return None
    if e[0] == 'const' and isinstance(e[1], int):
        return e[1]
    if e[0] == 'agg' and e[1] in ('std::ops::RangeFrom', 'std::ops::Range', 'std::ops::RangeInclusive') and e[3]:
        return _const_start(e[3][0])
    if e[0] == 'agg' and e[1] in ('std::ops::RangeTo', 'std::ops::RangeFull', 'std::ops::RangeToInclusive'):
        return 0 if e[1] != 'std::ops::RangeFull' else 0
    if e[0] == 'binop' and e[1] == 'Add':
        a, b = _const_start(e[2]), _const_start(e[3])
        if a is not None and b is not None:
            return a + b
    return None


def byte_kind(where, chain):
    if where == 'rdata':
        return 'rdata'
    if where == 'name':
        return 'bytes'
    starts = [_const_start(c) for c in chain]
    if chain and all(s is not None for s in starts) and sum(starts) < 12:
        # a RangeTo / RangeFull view still reaches past the header unless something narrower follows; the writers used
        # here (write_u16/u32, single byte) touch at most 4 bytes from the start
        return 'hdr'
    return 'bytes'


class PacketEvents:
    """Per-body packet events, with one level of callee summaries for helpers that write through a slice parameter."""

    def __init__(self, facts):
        self.facts = facts
        self._memo = {}
        self._byobj = {}
        self._param_writes = {}

    def param_writes(self, key):
        """{param index: set(kinds)} for direct writes a body makes through its slice/Vec parameters."""
        if key in self._param_writes:
            return self._param_writes[key]
        self._param_writes[key] = {}
        out = {}
        for (bi, kind, where, site, chain, oid) in self._raw(key):
            if where and where.startswith('param:'):
                n = int(where.split(':')[1])
                out.setdefault(n, set()).add((kind, tuple(_const_start(c) for c in chain)))
        self._param_writes[key] = out
        return out

    def _raw(self, key):
        f = self.facts.fns[key]
        pv = Provenance(f, self.facts)
        out = []
        for bi, b in F.blocks(f):
            for s in b['stmts']:
                if s['k'] != 'assign':
                    continue
                pl = s['place']
                if F.last_field(pl) == (PP, 'packet') and not any(p['k'] in ('index', 'constindex') for p in pl['proj']):
                    out.append((bi, 'replace', 'packet', s['at'], [], id(s)))
                    continue
                # direct element store  (*p)[i] = v
                if any(p['k'] in ('index', 'constindex') for p in pl['proj']) or (pl['proj'] and pl['proj'][0]['k'] == 'deref' and pl['ty'].get('s') == 'u8'):
                    base = {'local': pl['local'], 'proj': [], 'ty': {}}
                    chain = []
                    for pr in pl['proj']:
                        if pr['k'] == 'index':
                            chain.append(('local', pr['local']))
                        elif pr['k'] == 'constindex':
                            chain.append(('const', pr['offset']))
                    if (PP, 'packet') in F.fields_of(pl):
                        out.append((bi, 'store', 'packet', s['at'], chain, id(s)))
                    else:
                        where, ch = pv.classify_place(base, 14, chain)
                        if where:
                            out.append((bi, 'store', where, s['at'], ch, id(s)))
            t = b['term']
            if t['k'] != 'call' or t['callee']['k'] != 'direct':
                continue
            p = F.call_path(t) or ''
            if p in LEN_CHANGERS and t['args']:
                where, ch = pv.classify(t['args'][0])
                if where:
                    out.append((bi, 'len', where, t['at'], ch, id(t)))
            elif p in BYTE_WRITERS and t['args']:
                where, ch = pv.classify(t['args'][0])
                if where:
                    out.append((bi, 'write', where, t['at'], ch, id(t)))
            elif p in ('std::option::Option::<T>::take', 'std::mem::replace', 'std::mem::take', 'std::mem::swap') and t['args']:
                a0 = t['args'][0]
                defs = pv.defs
                rs = F.roots(f, defs, a0)
                if any(r[0] == 'load' and (PP, 'packet') in F.fields_of(r[1]) for r in rs):
                    out.append((bi, 'take', 'packet', t['at'], [], id(t)))
            else:
                # local helper writing through a slice parameter
                for ck in self.facts.callee_keys(f, t):
                    if ck.startswith('ext:') or ck == '<indirect>' or ck == key:
                        continue
                    pw = self.param_writes(ck)
                    for n, kinds in pw.items():
                        if n - 1 < len(t['args']):
                            where, ch = pv.classify(t['args'][n - 1])
                            if where:
                                for (kind, starts) in sorted(kinds, key=repr):
                                    chain2 = ch + [('const', s) if s is not None else ('local', -1) for s in starts]
                                    out.append((bi, kind, where, t['at'], chain2, id(t)))
        return out

    def of(self, key):
        """[(block, kind, site)] with kinds replace/take/len/bytes/hdr/rdata for events on the *packet* of a ParsedPacket."""
        if key in self._memo:
            return self._memo[key]
        out = []
        byobj = {}
        for (bi, kind, where, site, chain, oid) in self._raw(key):
            if where is None or where.startswith('param:'):
                continue
            k2 = kind if kind in ('replace', 'take', 'len') else byte_kind(where, chain)
            out.append((bi, k2, site))
            byobj.setdefault(oid, []).append((k2, site))
        self._memo[key] = out
        self._byobj[key] = byobj
        return out

    def at(self, key, obj):
        """Events attached to one statement / terminator object of body `key`."""
        self.of(key)
        return self._byobj[key].get(id(obj), [])
