"""Prototype of engine E4: relational abstract interpretation of MIR facts (JSON from mirfacts).

State = (mem: loc -> abstract value, C: CSet).  Values are symbolic linear expressions over
immutable symbols; joins introduce fresh symbols.  Local callees are inlined.
"""
import json, glob, sys, itertools, collections, os, re
import time
from .lin import *

ISIZE_MAX = (1 << 63) - 1
_fid = itertools.count()


# ---------------------------------------------------------------- abstract values
class Int:
    __slots__ = ("e",)
    def __init__(self, e): self.e = lin(e)
    def __repr__(self): return f"Int({self.e})"
    def key(self): return ("I", self.e.key())

class Bool:
    """kind: 'const'(v) | 'cmp'(op,l,r) | 'unk'"""
    __slots__ = ("kind", "v", "op", "l", "r")
    def __init__(self, kind, v=None, op=None, l=None, r=None):
        self.kind, self.v, self.op, self.l, self.r = kind, v, op, l, r
    def __repr__(self):
        if self.kind == "const": return f"Bool({self.v})"
        if self.kind == "cmp": return f"Bool({self.l} {self.op} {self.r})"
        return "Bool(?)"
    def key(self):
        if self.kind == "const": return ("B", self.v)
        if self.kind == "cmp": return ("B", self.op, self.l.key(), self.r.key())
        return ("B?",)
    def negate(self):
        if self.kind == "const": return Bool("const", v=not self.v)
        if self.kind == "cmp":
            inv = {"Lt": "Ge", "Ge": "Lt", "Gt": "Le", "Le": "Gt", "Eq": "Ne", "Ne": "Eq"}
            return Bool("cmp", op=inv[self.op], l=self.l, r=self.r)
        return self
    def cons(self):
        """list of alternative constraint lists (DNF) that make it true; None = unknown"""
        if self.kind == "const": return [[]] if self.v else []
        if self.kind == "cmp":
            l, r = self.l, self.r
            return {"Lt": [[lt(l, r)]], "Le": [[le(l, r)]], "Gt": [[gt(l, r)]], "Ge": [[ge(l, r)]],
                    "Eq": [[eq(l, r)]], "Ne": [[lt(l, r)], [gt(l, r)]]}[self.op]
        return None

class Ref:
    __slots__ = ("loc",)
    def __init__(self, loc): self.loc = loc
    def __repr__(self): return f"Ref({self.loc})"
    def key(self): return ("R", self.loc)

class Slice:
    """fat pointer into byte sequence `base` (a location whose #len is tracked)"""
    __slots__ = ("base", "off", "ln")
    def __init__(self, base, off, ln): self.base, self.off, self.ln = base, lin(off), lin(ln)
    def __repr__(self): return f"Slice({self.base}+{self.off}, len={self.ln})"
    def key(self): return ("S", self.base, self.off.key(), self.ln.key())

class Enum:
    """by-value enum/struct: discr Lin, fields {(variant_index, field_index): AV}"""
    __slots__ = ("adt", "discr", "fields")
    def __init__(self, adt, discr, fields=None): self.adt, self.discr, self.fields = adt, lin(discr), dict(fields or {})
    def __repr__(self): return f"Enum({self.adt} d={self.discr} {self.fields})"
    def key(self): return ("E", self.adt, self.discr.key(), tuple(sorted((k, v.key()) for k, v in self.fields.items())))

class VecVal:
    """by-value Vec<u8>: only the length is tracked"""
    __slots__ = ("ln",)
    def __init__(self, ln): self.ln = lin(ln)
    def __repr__(self): return f"Vec(len={self.ln})"
    def key(self): return ("V", self.ln.key())

class StructVal:
    """by-value struct: snapshot of sub-locations (relative path -> AV)"""
    __slots__ = ("adt", "sub")
    def __init__(self, adt, sub): self.adt, self.sub = adt, dict(sub)
    def __repr__(self): return f"Struct({self.adt} {self.sub})"
    def key(self): return ("T", self.adt, tuple(sorted((k, v.key() if hasattr(v, "key") else str(v)) for k, v in self.sub.items())))

class Unk:
    __slots__ = ("why",)
    def __init__(self, why=""): self.why = why
    def __repr__(self): return f"Unk({self.why})"
    def key(self): return ("U",)

class FnItem:
    __slots__ = ("path",)
    def __init__(self, path): self.path = path
    def __repr__(self): return f"Fn({self.path})"
    def key(self): return ("F", self.path)


class Unmodelled(Exception):
    pass


# ---------------------------------------------------------------- state
class State:
    def __init__(self):
        self.mem = {}
        self.C = CSet()
    def copy(self):
        s = State(); s.mem = dict(self.mem); s.C = self.C.copy(); return s
    @property
    def bottom(self): return self.C.bottom
    def assume(self, cons):
        for c in cons: self.C.add(c)
    def fresh_int(self, ty, hint="v"):
        s = fresh(hint)
        lo, hi = int_range(ty)
        self.C.add(ge(s, lo)); self.C.add(le(s, hi))
        return Int(s)


def int_range(ty):
    bits = ty.get("bits", 64)
    if ty.get("signed"):
        return (-(1 << (bits - 1)), (1 << (bits - 1)) - 1)
    return (0, (1 << bits) - 1)


OBLIGATIONS = []  # dict(fn, at, kind, detail, status)


class Summary:
    def __init__(self, key):
        self.key = key
        self.args = []
        self.init = {}        # loc -> (AV, range cons, extra mem, ty)
        self.entry_syms = set()
        self.entry_cons = []
        self.pre = []         # lifted preconditions: (cons, site, kind, detail)
        self.inv_done = set()
        self.cases = []       # (CSet, retAV, heap)

UNMODELLED = collections.Counter()
LOSSY = collections.Counter()      # precision given up for speed (sound); reported in the evidence, not a verdict


class Analyzer:
    def __init__(self, facts):
        self.fns = {f["key"]: f for f in facts["fns"]}
        self.bypath = collections.defaultdict(list)
        for f in facts["fns"]:
            self.bypath[f["path"]].append(f)
        self.adts = {a["path"]: a for a in facts["adts"]}
        self.depth = 0
        self.moved = []
        self.thresholds = ()
        self.iter_budget = int(os.environ.get('E4_ITER_BUDGET', '6000'))
        self.entry_atoms = set()
        self._changed = None
        self._joined = None
        self.soft_widen = False
        self.summaries = {}
        self.fn_stack = []
        self.sum_stack = []      # active Summary objects
        self.use_summaries = True
        self.havoc_threshold = None
        self._joined_defs = None
        self.keep_instates = False
        self.last_instate = {}
        self._csize = {}
        self.record = False
        self.trace = False
        self.probe_spec = []
        self.assume_offsets_in_packet = False
        self.wrap_obligations = False
        self.opaque = []
        self.force_ret = {}
        self.rule_c06a = False
        self.soft_widen_on = bool(os.environ.get("SOFT_WIDEN"))
        self.rpo_worklist = bool(os.environ.get("E4_RPO"))   # process the worklist in reverse post-order instead of FIFO
        self.track_loads = False   # ghost cells "ghost:ld:<local>" = position a loaded byte came from (rule C07.f)
        self.load_base = {}
        self.cell_index = {}   # byte cell key -> (base, position Lin) for every element place resolved so far
        self.deadline = None   # wall-clock limit (time.time()) for the fixpoint iterations
        self.split_returns = False   # keep the return paths of the outermost analysed body apart (tiny bodies only)

    # ------------------------------------------------------------ value helpers
    def default_value(self, st, ty, loc, hint="v"):
        k = ty.get("k")
        if k == "lenof":
            n = fresh("len"); st.C.add(ge(n, 0)); st.C.add(le(n, ISIZE_MAX))
            return Int(n)
        if k == "int":
            return st.fresh_int(ty, hint)
        if k == "bool":
            return Bool("unk")
        if k == "ref" or k == "ptr":
            to = ty["to"]
            if to.get("k") == "slice" or to.get("k") == "str":
                base = "obj@" + loc if loc and not loc.startswith("tmp#") else fresh("obj")
                n = fresh("len")
                st.C.add(ge(n, 0)); st.C.add(le(n, ISIZE_MAX))
                st.mem[base + "#len"] = Int(n)
                return Slice(base, 0, n)
            tgt = "obj@" + loc if loc and not loc.startswith("tmp#") else fresh("obj")
            st.mem[tgt + "#ty"] = ty["to"]
            return Ref(tgt)
        if k == "adt":
            adt = ty["adt"]
            if adt.startswith("std::option::Option") or adt.startswith("std::result::Result") or adt.startswith("std::ops::ControlFlow"):
                d = fresh("d")
                st.C.add(ge(d, 0)); st.C.add(le(d, 1))
                fields = {}
                import re as _re
                m = _re.match(r"std::option::Option<(u8|u16|u32|u64|usize)>$", ty.get("s", ""))
                if m:
                    bits = {"u8": 8, "u16": 16, "u32": 32, "u64": 64, "usize": 64}[m.group(1)]
                    fields[(1, 0)] = st.fresh_int({"k": "int", "bits": bits, "signed": False}, hint + "p")
                return Enum(adt, d, fields)
            if adt == "std::vec::Vec":
                n = fresh("len")
                st.C.add(ge(n, 0)); st.C.add(le(n, ISIZE_MAX))
                st.mem[loc + "#len"] = Int(n)
                return Unk("vec")
            a = self.adts.get(adt)
            if a and a["kind"] == "Enum":
                d = fresh("d")
                st.C.add(ge(d, 0)); st.C.add(le(d, max(0, len(a["variants"]) - 1)))
                return Enum(adt, d)
            return Unk("adt " + adt)
        return Unk(ty.get("s", "?"))

    def is_heap(self, loc):
        return not (loc[0] == "F" and loc[1:2].isdigit())

    def init_value(self, st, ty, loc):
        """initial (entry) value of a location; heap locations get one symbol per summary run"""
        hint = loc.split(".")[-1].replace("#", "")
        if not self.sum_stack or not self.is_heap(loc) or "@[" in loc:
            return self.default_value(st, ty, loc, hint=hint)
        S = self.sum_stack[-1]
        if loc not in S.init:
            tmp = State()
            v = self.default_value(tmp, ty, loc, hint=hint)
            S.init[loc] = (v, sorted(tmp.C.cons, key=lambda c: c.key()), {k: x for k, x in tmp.mem.items()}, ty)
            S.entry_syms |= self.val_atoms(v)
            for k, x in tmp.mem.items():
                if isinstance(x, Int): S.entry_syms |= x.e.atoms()
        v, cons, extra, _ = S.init[loc]
        if self.assume_offsets_in_packet and isinstance(v, Enum) and isinstance(v.fields.get((1, 0)), Int) and loc.rsplit(".", 1)[-1].startswith("offset_") \
                and loc not in S.inv_done:
            # stated object invariant of ParsedPacket: every recorded section offset lies inside the packet
            lenloc = loc.rsplit(".", 1)[0] + ".packet.0#len"
            if lenloc not in st.mem:
                st.mem[lenloc] = self.init_value(st, {"k": "lenof"}, lenloc)
            lv = st.mem[lenloc]
            if isinstance(lv, Int):
                c = le(v.fields[(1, 0)].e, lv.e)
                S.inv_done.add(loc)
                cons = list(cons) + [c]
                S.init[loc] = (v, cons, extra, S.init[loc][3])
                S.entry_syms |= lv.e.atoms()
        for c in cons: st.C.add(c)
        for k, x in extra.items(): st.mem.setdefault(k, x)
        return v

    def field_ty(self, parent_ty, proj):
        return proj.get("_ty")

    # ------------------------------------------------------------ places
    def resolve_place(self, st, fr, place, want_loc=True):
        """Returns ('loc', loc, ty) or ('val', AV, ty) for projections into by-value enums."""
        loc = f"{fr}._{place['local']}"
        cur = ("loc", loc)
        projs = place["proj"]
        for i, p in enumerate(projs):
            k = p["k"]
            if k == "deref":
                v = self.load(st, cur, None)
                if isinstance(v, Ref):
                    cur = ("loc", v.loc)
                elif isinstance(v, Slice):
                    cur = ("slice", v)
                elif isinstance(v, Unk) and i == len(projs) - 1:
                    o = fresh("obj"); st.mem[o + "#ty"] = place["ty"]
                    cur = ("loc", o)
                else:
                    raise Unmodelled(f"deref of {v}")
            elif k == "field":
                if cur[0] == "loc":
                    v = st.mem.get(cur[1])
                    if isinstance(v, Enum):
                        cur = ("enumfield", cur[1], (0, p["i"]))
                    else:
                        cur = ("loc", f"{cur[1]}.{p.get('name', p['i'])}")
                elif cur[0] == "downcast":
                    cur = ("enumfield", cur[1], (cur[2], p["i"]))
                elif cur[0] == "val":
                    v = cur[1]
                    if isinstance(v, Enum):
                        cur = ("val", v.fields.get((0, p["i"]), Unk("fld")))
                    elif isinstance(v, StructVal):
                        rel = "." + str(p.get("name", p["i"]))
                        if rel in v.sub: cur = ("val", v.sub[rel])
                        else:
                            subsub = {k[len(rel):]: x for k, x in v.sub.items() if k.startswith(rel + ".") or k.startswith(rel + "#")}
                            cur = ("val", StructVal(p.get("adt"), subsub)) if subsub else ("val", Unk("sfld"))
                    else:
                        raise Unmodelled("field of val")
                elif cur[0] == "enumfield":
                    v = self.load(st, cur, None)
                    cur = ("val", v)
                    rel = "." + str(p.get("name", p["i"]))
                    if isinstance(v, StructVal):
                        if rel in v.sub: cur = ("val", v.sub[rel])
                        else:
                            subsub = {k[len(rel):]: x for k, x in v.sub.items() if k.startswith(rel + ".") or k.startswith(rel + "#")}
                            cur = ("val", StructVal(p.get("adt"), subsub)) if subsub else ("val", Unk("sfld"))
                    elif isinstance(v, Enum):
                        cur = ("val", v.fields.get((0, p["i"]), Unk("fld")))
                    else:
                        cur = ("val", Unk("fld-of-enumfield"))
                else:
                    raise Unmodelled(f"field on {cur[0]}")
            elif k == "downcast":
                if cur[0] == "loc":
                    cur = ("downcast", cur[1], p["vi"])
                else:
                    raise Unmodelled("downcast on non-loc")
            elif k == "index":
                if cur[0] == "slice":
                    cur = ("byte", cur[1], f"{fr}._{p['local']}")
                elif cur[0] == "loc":
                    cur = ("loc", cur[1] + "[*]")   # summary element of a fixed-size array
                else:
                    raise Unmodelled("index on non-slice")
            else:
                raise Unmodelled(f"proj {k}")
        return cur

    def load(self, st, cur, ty):
        kind = cur[0]
        if kind == "loc":
            loc = cur[1]
            if loc not in st.mem:
                if ty is None:
                    ty = st.mem.get(loc + "#ty")
                if ty is None:
                    raise Unmodelled(f"untyped read of {loc}")
                st.mem[loc] = self.init_value(st, ty, loc)
            return st.mem[loc]
        if kind == "enumfield":
            v = st.mem.get(cur[1])
            if isinstance(v, Enum):
                if cur[2] in v.fields:
                    return v.fields[cur[2]]
                if ty is not None:
                    nv = self.default_value(st, ty, fresh("tmp"))
                    v.fields[cur[2]] = nv
                    return nv
            return Unk("enumfield")
        if kind == "val":
            return cur[1]
        if kind == "byte":
            return self.load(st, ("loc", self.byte_loc(st, cur)), {"k": "int", "bits": 8, "signed": False})
        if kind == "slice":
            return cur[1]
        raise Unmodelled(f"load {kind}")

    def byte_loc(self, st, cur):
        sl = cur[1]
        idx = self.load(st, ("loc", cur[2]), {"k": "int", "bits": 64, "signed": False})
        pos = sl.off + self.as_int(st, idx)
        key = f"{sl.base}@[{pos}]"
        self.cell_index[key] = (sl.base, pos)
        return key

    def read_place(self, st, fr, place):
        cur = self.resolve_place(st, fr, place)
        ty = place["ty"]
        if cur[0] == "loc" and ty.get("k") == "adt" and not isinstance(st.mem.get(cur[1]), (Enum, VecVal)) and self.adts.get(ty.get("adt"), {}).get("kind") == "Struct":
            pre1, pre2 = cur[1] + ".", cur[1] + "#"
            sub = {k[len(cur[1]):]: v for k, v in st.mem.items() if (k.startswith(pre1) or k.startswith(pre2))}
            if sub or cur[1] not in st.mem:
                return StructVal(ty.get("adt"), sub)
        v = self.load(st, cur, ty)
        if isinstance(v, VecVal) and cur[0] == "loc" and (cur[1] + "#len") in st.mem:
            return VecVal(st.mem[cur[1] + "#len"].e)
        return v

    def write_place(self, st, fr, place, val):
        cur = self.resolve_place(st, fr, place)
        if cur[0] == "loc":
            loc = cur[1]
            # drop sub-locations
            pre = loc + "."
            for k in [k for k in st.mem if k.startswith(pre)]:
                del st.mem[k]
            if isinstance(val, StructVal):
                st.mem.pop(loc, None)
                for rel, v in val.sub.items(): st.mem[loc + rel] = v
                return
            st.mem[loc] = val
            if isinstance(val, VecVal):
                st.mem[loc + "#len"] = Int(val.ln)
            else:
                st.mem.pop(loc + "#len", None) if not self.is_heap(loc) else None
        elif cur[0] == "enumfield":
            v = st.mem.get(cur[1])
            if isinstance(v, Enum):
                nv = Enum(v.adt, v.discr, v.fields)
                nv.fields[cur[2]] = val
                st.mem[cur[1]] = nv
        elif cur[0] == "byte":
            pass
        else:
            raise Unmodelled(f"write {cur[0]}")

    # ------------------------------------------------------------ operands / rvalues
    def operand(self, st, fr, o):
        k = o["k"]
        if k in ("copy", "move"):
            v = self.read_place(st, fr, o["place"])
            if k == "move" and not o["place"]["proj"]:
                self.moved.append(f"{fr}._{o['place']['local']}")
            return v
        if k == "const":
            ty = o["ty"]
            if "promoted" in o and self.fn_stack:
                f = self.fn_stack[-1]
                pb = f.get("promoted", [])
                idx = int(o["promoted"]) if str(o["promoted"]).isdigit() else None
                if idx is not None and idx < len(pb):
                    pf = f"P{next(_fid)}"
                    fake = {"key": f["key"] + f"::promoted[{idx}]", "blocks": pb[idx]["blocks"], "locals": pb[idx]["locals"]}
                    for s in pb[idx]["blocks"][0]["stmts"]:
                        if s["k"] == "assign":
                            v = self.rvalue(st, pf, s["rv"], s["place"]["ty"], None)
                            self.write_place(st, pf, s["place"], v)
                    return st.mem.get(f"{pf}._0", Unk("promoted"))
            if "val" in o:
                if ty.get("k") == "bool":
                    return Bool("const", v=bool(o["val"]))
                return Int(o["val"])
            if "fn" in o:
                return FnItem(o["fn"])
            return Unk("const " + ty.get("s", ""))
        raise Unmodelled("operand " + k)

    def as_int(self, st, v, ty=None):
        if isinstance(v, Int):
            return v.e
        if isinstance(v, Bool):
            if v.kind == "const": return lin(1 if v.v else 0)
        s = fresh("u")
        if ty is not None and ty.get("k") == "int":
            lo, hi = int_range(ty)
            st.C.add(ge(s, lo)); st.C.add(le(s, hi))
        return lin(s)

    def rvalue(self, st, fr, rv, dest_ty, site):
        k = rv["k"]
        if k == "use":
            return self.operand(st, fr, rv["x"])
        if k == "ref" or k == "rawptr":
            cur = self.resolve_place(st, fr, rv["place"])
            if cur[0] == "loc":
                # reference to a Vec/slice-typed location => keep as Ref; deref coercions handled by models
                st.mem.setdefault(cur[1] + "#ty", rv["place"]["ty"])
                return Ref(cur[1])
            if cur[0] == "slice":
                return cur[1]
            if cur[0] == "byte":
                loc = self.byte_loc(st, cur)
                st.mem.setdefault(loc + "#ty", {"k": "int", "bits": 8, "signed": False})
                return Ref(loc)
            if cur[0] == "enumfield":
                return Unk("ref-enumfield")
            raise Unmodelled("ref of " + cur[0])
        if k == "binop":
            op = rv["op"]
            a = self.operand(st, fr, rv["l"]); b = self.operand(st, fr, rv["r"])
            lty = rv["l"].get("ty") or rv["l"]["place"]["ty"]
            if op in ("Eq", "Ne", "Lt", "Le", "Gt", "Ge"):
                if isinstance(a, Bool) or isinstance(b, Bool):
                    return Bool("unk")
                return Bool("cmp", op=op, l=self.as_int(st, a, lty), r=self.as_int(st, b, lty))
            x = self.as_int(st, a, lty); y = self.as_int(st, b, lty)
            if op in ("AddWithOverflow", "SubWithOverflow", "MulWithOverflow"):
                lo, hi = int_range(lty)
                if op == "AddWithOverflow": r = x + y
                elif op == "SubWithOverflow": r = x - y
                else:
                    if y.is_const(): r = x.scale(y.c)
                    elif x.is_const(): r = y.scale(x.c)
                    else: r = None
                if r is None:
                    return Enum("(tuple)", 0, {(0, 0): st.fresh_int(lty), (0, 1): Bool("unk")})
                ovf = Bool("cmp", op="Gt", l=r, r=lin(hi)) if op != "SubWithOverflow" else Bool("cmp", op="Lt", l=r, r=lin(lo))
                return Enum("(tuple)", 0, {(0, 0): Int(r), (0, 1): ovf})
            if op in ("Add", "Sub"):
                r = x + y if op == "Add" else x - y
                if self.wrap_obligations and isinstance(lty, dict) and lty.get("k") == "int":
                    lo, hi = int_range(lty)
                    self.oblige(st, [ge(r, lo), le(r, hi)], f"{self.fn_stack[-1]['key'] if self.fn_stack else '?'}@wrap:{site}", "Overflow", f"{op} may wrap silently (overflow checks are off in this configuration)")
                return Int(r)
            if op in ("Div", "Mul", "Shr", "Shl", "Rem") and x.is_const() and y.is_const() and x.c >= 0 and y.c >= 0:
                try:
                    v = {"Div": lambda: x.c // y.c, "Mul": lambda: x.c * y.c, "Shr": lambda: x.c >> y.c, "Shl": lambda: x.c << y.c, "Rem": lambda: x.c % y.c}[op]()
                    lo, hi = int_range(dest_ty if dest_ty.get("k") == "int" else lty)
                    if lo <= v <= hi: return Int(lin(v))
                except ZeroDivisionError:
                    pass
            if op == "Mul" and (x.is_const() or y.is_const()):
                r = x.scale(y.c) if y.is_const() else y.scale(x.c)
                if self.wrap_obligations and isinstance(lty, dict) and lty.get("k") == "int":
                    lo, hi = int_range(lty)
                    self.oblige(st, [ge(r, lo), le(r, hi)], f"{self.fn_stack[-1]['key'] if self.fn_stack else '?'}@wrap:{site}", "Overflow", "Mul may wrap silently (overflow checks are off in this configuration)")
                    return Int(r)
            if op == "BitAnd":
                s = st.fresh_int(lty, "and")
                if y.is_const() and y.c >= 0: st.C.add(le(s.e, y.c))
                if x.is_const() and x.c >= 0: st.C.add(le(s.e, x.c))
                lo, _ = int_range(lty)
                if lo == 0:
                    st.C.add(le(s.e, x)); st.C.add(le(s.e, y))
                return s
            if op == "BitOr":
                s = st.fresh_int(lty, "or")
                if int_range(lty)[0] == 0:
                    st.C.add(ge(s.e, x)); st.C.add(ge(s.e, y)); st.C.add(le(s.e, x + y))
                return s
            if op in ("Shl", "Shr", "Div", "Rem", "BitXor", "Mul"):
                s = st.fresh_int(dest_ty if dest_ty.get("k") == "int" else lty, op.lower())
                if op == "Shr" and int_range(lty)[0] == 0: st.C.add(le(s.e, x))
                if op == "Div" and int_range(lty)[0] == 0 and y.is_const() and y.c >= 1: st.C.add(le(s.e.scale(y.c), x))
                return s
            raise Unmodelled("binop " + op)
        if k == "unop":
            a = self.operand(st, fr, rv["x"])
            if rv["op"] == "Not":
                if isinstance(a, Bool): return a.negate()
                return st.fresh_int(dest_ty, "not")
            if rv["op"] == "Neg":
                return Int(-self.as_int(st, a))
            if rv["op"] == "PtrMetadata":
                if isinstance(a, Slice): return Int(a.ln)
                return st.fresh_int(dest_ty, "meta")
            raise Unmodelled("unop " + rv["op"])
        if k == "cast":
            a = self.operand(st, fr, rv["x"])
            if rv["kind"] == "IntToInt":
                sty = rv["x"].get("ty") or rv["x"]["place"]["ty"]
                x = self.as_int(st, a, sty)
                lo, hi = int_range(rv["ty"])
                if st.C.entails(ge(x, lo)) and st.C.entails(le(x, hi)):
                    return Int(x)
                r = st.fresh_int(rv["ty"], "cast")
                TRUNC_OF[next(iter(r.e.atoms()))] = x
                return r
            if rv["kind"].startswith("PointerCoercion(Unsize"):
                # &[T; N] -> &[T]: the slice is exactly N long
                sty = rv["x"].get("ty") or rv["x"].get("place", {}).get("ty") or {}
                to = sty.get("to") or {}
                if isinstance(a, Ref) and to.get("k") == "array":
                    m_ = re.match(r"^(\d+)_usize$", str(to.get("n", "")))
                    if m_:
                        key_ = a.loc + "#len"
                        cur_ = st.mem.get(key_)
                        if cur_ is None or not isinstance(cur_, Int) or st.C.bounds(cur_.e) != (int(m_.group(1)), int(m_.group(1))):
                            st.mem[key_] = Int(int(m_.group(1)))
                return a
            if rv["kind"] in ("PtrToPtr", "Transmute"):
                return a
            return Unk("cast " + rv["kind"])
        if k == "discr":
            v = self.read_place(st, fr, rv["place"])
            if isinstance(v, Enum): return Int(v.discr)
            return st.fresh_int({"bits": 64, "signed": True}, "discr")
        if k == "aggregate":
            agg = rv["agg"]
            ops = [self.operand(st, fr, o) for o in rv["ops"]]
            if agg == "tuple":
                return Enum("(tuple)", 0, {(0, i): v for i, v in enumerate(ops)})
            if agg == "adt":
                return Enum(rv["adt"], rv["vi"], {(rv["vi"], i): v for i, v in enumerate(ops)})
            if agg == "closure":
                return Enum("(closure)" + rv["def"], 0, {(0, i): v for i, v in enumerate(ops)})
            return Unk("agg " + agg)
        if k == "repeat":
            return Unk("repeat")
        raise Unmodelled("rvalue " + k)

    # ------------------------------------------------------------ obligations
    def oblige(self, st, cons, site, kind, detail):
        open_ = [c for c in cons if not st.C.entails(c)]
        ok = not open_
        status = "proved"
        if not ok:
            status = "open"
            if self.sum_stack:
                S = self.sum_stack[-1]
                regions = []
                for c in open_:
                    negs = [Con(-c.e - 1, "ge")] if c.kind == "ge" else [Con(-c.e - 1, "ge"), Con(c.e - 1, "ge")]
                    for n in negs:
                        bad = st.C.copy(); bad.add(n)
                        try:
                            reg = bad.project(S.entry_syms)
                        except OverflowError:
                            reg = CSet()
                        if not reg.bottom:
                            regions.append(reg)
                if not regions:
                    status = "proved"; ok = True
                elif all(r.cons for r in regions):
                    status = "lifted"
                    if self.record:
                        S.pre.append((regions, site, kind, detail))
        if self.record:
            OBLIGATIONS.append(dict(site=site, kind=kind, detail=detail, ok=ok, status=status, cons=[repr(c) for c in open_],
                                    ctx=self.sum_stack[-1].key if self.sum_stack else "<top>"))
        return ok

    def oblige_regions(self, st, regions, site, kind, detail):
        """regions: list of CSet (bad regions, already instantiated); obligation holds iff each is infeasible with st.C"""
        remaining = []
        for r in regions:
            if r.bottom: continue
            t = st.C.copy()
            for c in r.cons: t.add(c)
            if not t.infeasible():
                remaining.append(t)
        ok = not remaining
        status = "proved" if ok else "open"
        if not ok and self.sum_stack:
            S = self.sum_stack[-1]
            lifted = []
            for t in remaining:
                try: reg = t.project(S.entry_syms)
                except OverflowError: reg = CSet()
                if not reg.bottom: lifted.append(reg)
            if not lifted:
                ok, status = True, "proved"
            elif all(r.cons for r in lifted):
                status = "lifted"
                if self.record: S.pre.append((lifted, site, kind, detail))
        if self.record:
            OBLIGATIONS.append(dict(site=site, kind=kind, detail=detail, ok=ok, status=status, cons=[repr(r) for r in regions][:2],
                                    ctx=self.sum_stack[-1].key if self.sum_stack else "<top>"))
        return ok

    # ------------------------------------------------------------ sequence helpers
    def seq_len(self, st, v):
        """length Lin of a Vec/slice-valued reference"""
        if isinstance(v, Slice):
            return v.ln
        if isinstance(v, Ref):
            key = v.loc + "#len"
            if key not in st.mem:
                st.mem[key] = self.init_value(st, {"k": "lenof"}, key)
            return st.mem[key].e
        raise Unmodelled(f"seq_len of {v}")

    def as_slice(self, st, v):
        if isinstance(v, Slice): return v
        if isinstance(v, Ref): return Slice(v.loc, 0, self.seq_len(st, v))
        raise Unmodelled(f"as_slice {v}")

    # ------------------------------------------------------------ function analysis
    def analyze(self, key, args, st, site_prefix=""):
        """returns list of (state, retval)"""
        f = self.fns[key]
        fr = f"F{next(_fid)}"
        st = st.copy()
        self.fn_stack.append(f)
        saved_entry = self.entry_atoms
        self.entry_atoms = saved_entry | self.live_atoms(st) | set().union(*[self.val_atoms(a) for a in args]) if args else saved_entry | self.live_atoms(st)
        for i, a in enumerate(args):
            st.mem[f"{fr}._{i+1}"] = a
        blocks = f["blocks"]
        nb = len(blocks)
        # successors / loop heads
        succ = [self.successors(b) for b in blocks]
        heads = self.loop_heads(succ)
        npred = collections.Counter()
        for i_, ss_ in enumerate(succ):
            if not blocks[i_]["cleanup"]:
                for m_ in ss_: npred[m_] += 1
        thr = self.fn_thresholds(f)
        instate = {}   # (bb, pkey) -> State
        visits = collections.Counter()
        work = collections.deque()
        rpo = {}
        if self.rpo_worklist:
            order = []; seen_ = set()
            stack_ = [(0, iter(succ[0]))]; seen_.add(0)
            while stack_:
                n_, it_ = stack_[-1]
                for m_ in it_:
                    if m_ not in seen_ and not blocks[m_]["cleanup"]:
                        seen_.add(m_); stack_.append((m_, iter(succ[m_]))); break
                else:
                    order.append(n_); stack_.pop()
            rpo = {b_: i_ for i_, b_ in enumerate(reversed(order))}
        PART = ("std::result::Result", "std::option::Option", "std::ops::ControlFlow")
        pre = fr + "._"
        split_paths = self.split_returns and len(self.fn_stack) == 1 and not heads
        def pkey(s):
            out = []
            for l, v in s.mem.items():
                if isinstance(v, Enum) and v.adt.split("<")[0] in PART:
                    if l.startswith(pre) and "." not in l[len(pre):]:
                        out.append((l, v.discr.c if v.discr.is_const() else "?"))
                    elif self.is_heap(l) and "@[" not in l:
                        out.append((l, self.discr_of(s, v)))
            return tuple(sorted(out))
        def push(bb, s, src=None):
            if s.bottom:
                return
            self.gc(s)
            k = (bb, pkey(s))
            if split_paths:
                k = (bb, k[1] + (("#path", next(_fid)),))
            if k not in instate:
                instate[k] = s; work.append(k); return
            old = instate[k]
            visits[k] += 1
            if self.trace and bb in heads:
                def bnd(x):
                    v = x.mem.get(f"{fr}._5")
                    return x.C.bounds(v.e) if isinstance(v, Int) else None
                print("HEAD", bb, k[1], "visit", visits[k], "old", bnd(old), "new", bnd(s))
            self.thresholds = thr
            self.soft_widen = self.soft_widen_on and visits[k] <= 12
            new = self.join(old, s, fr, widen_=(bb in heads and visits[k] > 3), head_first=(bb in heads and visits[k] == 1), at_head=(bb in heads))
            if self.state_leq(new, old) and self.state_leq(old, new):
                return
            if self.trace and bb in heads:
                print("     joined ->", bnd(new), "widen" if (bb in heads and visits[k] > 2) else "join")
            instate[k] = new
            if k not in work: work.append(k)
        push(0, st)
        rets = []
        saved_record = self.record
        self.record = False
        iters = 0
        while work:
            if self.rpo_worklist:
                k = min(work, key=lambda x: (rpo.get(x[0], 1 << 30), str(x[1])))
                work.remove(k)
            else:
                k = work.popleft()
            iters += 1
            if self.deadline is not None and time.time() > self.deadline:
                raise Unmodelled("analysis time budget exceeded")
            self.max_iters_seen = max(getattr(self, 'max_iters_seen', 0), iters)
            if iters > self.iter_budget:
                mk = max(visits, key=lambda x: visits[x]) if visits else None
                print("BUDGET in", key, "most visited", mk[0] if mk else None, visits[mk] if mk else None, "npart", len(instate))
                if mk:
                    cur = instate[mk]
                    print("   mem keys:", len(cur.mem), sorted(k for k in cur.mem if not k.endswith("#ty"))[:80])
                    for kk, vv in cur.mem.items():
                        if "obj#" in str(vv) or kk.startswith("obj#"): print("      ", kk, "=", str(vv)[:150])
                for kk in [k for k in instate if k[0] == mk[0]][:6]: print("   PKEY", kk[1])
                pk = collections.Counter(k[0] for k in instate)
                print("   partitions per block (top):", pk.most_common(5))
                raise Unmodelled("fixpoint budget")
            s = instate[k].copy()
            for (tb, ts) in self.exec_block(f, fr, k[0], s, site_prefix):
                if tb == "ret": continue
                push(tb, ts, k)
        # final pass with stable states
        self.record = saved_record
        if self.keep_instates:
            self.last_instate[key] = (fr, dict(instate), set(heads), succ, f)
        for k in sorted(instate, key=lambda x: (x[0], str(x[1]))):
            s = instate[k].copy()
            for (tb, ts) in self.exec_block(f, fr, k[0], s, site_prefix):
                if tb == "ret":
                    rv = ts.mem.get(f"{fr}._0", Unk("ret"))
                    rets.append((self.drop_frame(ts, fr), rv))
        out = self.group_returns(rets)
        self.entry_atoms = saved_entry
        self.fn_stack.pop()
        return out

    # ------------------------------------------------------------ summaries
    def summarize(self, key):
        if key in self.summaries:
            return self.summaries[key]
        f = self.fns[key]
        S = Summary(key)
        st = State()
        self.sum_stack.append(S)
        saved_record, saved_entry = self.record, self.entry_atoms
        self.entry_atoms = set()
        args = []
        for i in range(f["arg_count"]):
            ty = f["locals"][i + 1]
            if ty.get("k") in ("ref", "ptr"):
                to = ty["to"]
                if to.get("k") in ("slice", "str"):
                    base = f"A{i}:{key}"
                    n = self.init_value(st, {"k": "lenof"}, base + "#len")
                    st.mem[base + "#len"] = n
                    a = Slice(base, 0, n.e)
                else:
                    base = f"A{i}:{key}"
                    st.mem[base + "#ty"] = to
                    a = Ref(base)
            else:
                a = self.default_value(st, ty, f"V{i}", hint=f"a{i}")
                S.entry_syms |= self.val_atoms(a)
                fix = getattr(self, "fix_enum_args", {}).get((key, i))
                if fix is not None and isinstance(a, Enum):
                    st.C.add(eq(a.discr, fix))       # hypothesis run: this enum argument is the given variant
            args.append(a)
        S.args = args
        S.entry_cons = sorted(st.C.cons, key=lambda c: c.key())
        self.record = True
        try:
            rets = self.analyze(key, args, st)
        finally:
            self.sum_stack.pop()
            self.record, self.entry_atoms = saved_record, saved_entry
        for s, v in rets:
            heap = {k: x for k, x in s.mem.items() if self.is_heap(k) and not k.endswith("#ty") and "@[" not in k}
            tmp = State(); tmp.mem = dict(heap); tmp.mem["$r"] = v
            keep = self.live_atoms(tmp) | S.entry_syms
            try:
                C = s.C.project(keep)
            except OverflowError:
                LOSSY["FM blowup in summary"] += 1
                C = s.C.restrict(keep)
            C = C.minimized()
            S.cases.append((C, v, heap))
        self.summaries[key] = S
        return S

    def subst_val(self, v, sg):
        def sl(e):
            e = lin(e)
            for a in list(e.t):
                if a in sg: e = e.subst(a, sg[a])
            return e
        if isinstance(v, Int): return Int(sl(v.e))
        if isinstance(v, Bool):
            if v.kind == "cmp": return Bool("cmp", op=v.op, l=sl(v.l), r=sl(v.r))
            return v
        if isinstance(v, Slice): return Slice(self._lm(v.base), sl(v.off), sl(v.ln))
        if isinstance(v, VecVal): return VecVal(sl(v.ln))
        if isinstance(v, StructVal): return StructVal(v.adt, {k: (x if isinstance(x, dict) else self.subst_val(x, sg)) for k, x in v.sub.items()})
        if isinstance(v, Enum): return Enum(v.adt, sl(v.discr), {k: self.subst_val(x, sg) for k, x in v.fields.items()})
        if isinstance(v, Ref): return Ref(self._lm(v.loc))
        return v

    def _lm(self, loc):
        for a, b in self._locmap.items():
            if loc == a: return b
            if loc.startswith(a) and loc[len(a)] in ".#@": return b + loc[len(a):]
        return loc

    def unify_arg(self, sv, av, sg, st):
        """bind summary-side symbols in sv to actual value av"""
        if isinstance(sv, Int) and len(sv.e.t) == 1 and sv.e.c == 0:
            (a, k), = sv.e.t.items()
            if k == 1 and isinstance(av, Int): sg[a] = av.e
            elif k == 1 and isinstance(av, Bool) and av.kind == "const": sg[a] = lin(1 if av.v else 0)
        elif isinstance(sv, Enum) and isinstance(av, Enum):
            self.unify_arg(Int(sv.discr), Int(av.discr), sg, st)
            for kf, x in sv.fields.items():
                if kf in av.fields: self.unify_arg(x, av.fields[kf], sg, st)
        elif isinstance(sv, Slice) and isinstance(av, Slice):
            self._locmap[sv.base] = av.base
            self.unify_arg(Int(sv.ln), Int(av.ln), sg, st)
        elif isinstance(sv, Slice) and isinstance(av, Ref):
            self._locmap[sv.base] = av.loc
            self.unify_arg(Int(sv.ln), Int(self.seq_len(st, av)), sg, st)
        elif isinstance(sv, Ref) and isinstance(av, Ref):
            self._locmap[sv.loc] = av.loc
        elif isinstance(sv, Ref) and isinstance(av, Slice):
            self._locmap[sv.loc] = av.base

    def instantiate(self, S, args, st, site):
        st = st.copy()
        sg = {}
        self._locmap = {}
        for sv, av in zip(S.args, args):
            self.unify_arg(sv, av, sg, st)
        # heap entry values: bind to caller's current values
        for loc, (v, cons, extra, ty) in sorted(S.init.items()):
            cl = self._lm(loc)
            if cl == loc and (loc.startswith("A") and ":" in loc):
                continue  # could not map
            try:
                if loc.endswith("#len"):
                    av = Int(self.seq_len(st, Ref(cl[:-4])))
                else:
                    av = self.load(st, ("loc", cl), ty)
            except Unmodelled:
                continue
            self.unify_arg(v, av, sg, st)
        lm = dict(self._locmap)
        # lifted preconditions (bad regions over the callee's entry symbols)
        for regions, psite, kind, detail in S.pre:
            inst = []
            for r in regions:
                ir = CSet()
                unbound = {}
                for c in sorted(r.cons, key=lambda c: c.key()):
                    e = c.e
                    for a in list(e.t):
                        if a in sg: e = e.subst(a, sg[a])
                        else:
                            unbound.setdefault(a, lin(fresh("ub")))
                            e = e.subst(a, unbound[a])
                    ir.add(Con(e, c.kind))
                inst.append(ir)
            self.oblige_regions(st, inst, f"{psite} <= {site}", kind, detail)
        out = []
        for C, rv, heap in S.cases:
            self._locmap = lm
            s2 = st.copy()
            ren = dict(sg)
            tmp = State(); tmp.mem = dict(heap); tmp.mem["$r"] = rv
            internal = (C.atoms() | self.live_atoms(tmp)) - set(sg)
            for a in sorted(internal):
                ren[a] = lin(fresh(a.split("#")[0]))
            for c in sorted(C.cons, key=lambda c: c.key()):
                e = c.e
                for a in list(e.t):
                    if a in ren: e = e.subst(a, ren[a])
                s2.C.add(Con(e, c.kind))
            if s2.C.bottom or s2.C.infeasible():
                continue
            for loc, v in heap.items():
                cl = self._lm(loc)
                s2.mem[cl] = self.subst_val(v, ren)
            out.append((s2, self.subst_val(rv, ren)))
        return out

    def fn_thresholds(self, f):
        if "_thr" in f: return f["_thr"]
        vals = set()
        def walk(o):
            if isinstance(o, dict):
                if o.get("k") == "const" and isinstance(o.get("val"), int): vals.add(o["val"])
                for v in o.values(): walk(v)
            elif isinstance(o, list):
                for v in o: walk(v)
        walk(f["blocks"])
        out = set()
        for v in vals:
            if abs(v) < (1 << 40): out.update((v - 1, v, v + 1))
        f["_thr"] = sorted(out)
        return f["_thr"]

    def val_atoms(self, v):
        s = State(); s.mem = {"x": v}
        return self.live_atoms(s)

    def gc(self, st):
        """drop anonymous heap objects (obj#N / obj@…) not reachable from frame locals or argument objects"""
        import re as _re
        def root_of(k):
            m = _re.match(r"obj#\d+", k)
            if m: return m.group(0)
            for sep in (".", "#", "@["):
                i = k.find(sep, 1)
                if i > 0: k = k[:i]
            return k
        objs = {}
        for k in st.mem:
            r = root_of(k)
            if r.startswith("obj#"): objs.setdefault(r, []).append(k)
        if not objs: return
        reach = set(); todo = []
        def refs(v, acc):
            if isinstance(v, Ref): acc.append(root_of(v.loc))
            elif isinstance(v, Slice): acc.append(root_of(v.base))
            elif isinstance(v, Enum):
                for x in v.fields.values(): refs(x, acc)
            elif isinstance(v, StructVal):
                for x in v.sub.values():
                    if not isinstance(x, dict): refs(x, acc)
        for k, v in st.mem.items():
            if not root_of(k).startswith("obj#"):
                acc = []; refs(v, acc)
                todo += [a for a in acc if a.startswith("obj#")]
        while todo:
            o = todo.pop()
            if o in reach: continue
            reach.add(o)
            for k in objs.get(o, []):
                acc = []; refs(st.mem[k], acc)
                todo += [a for a in acc if a.startswith("obj#")]
        for o, keys in objs.items():
            if o not in reach:
                for k in keys: del st.mem[k]

    def discr_of(self, s, v):
        if v.discr.is_const(): return v.discr.c
        lo, hi = s.C.bounds(v.discr)
        return lo if (lo is not None and lo == hi) else "?"

    def drop_frame(self, st, fr):
        pre = fr + "."
        for k in [k for k in st.mem if k.startswith(pre)]:
            del st.mem[k]
        return st

    def group_returns(self, rets):
        if self.split_returns and len(self.fn_stack) == 1:
            return [(s, v) for s, v in rets if not s.bottom]
        groups = {}
        for s, v in rets:
            if s.bottom: continue
            d = v.discr.c if isinstance(v, Enum) and v.discr.is_const() else "?"
            hd = tuple(sorted((l, self.discr_of(s, x)) for l, x in s.mem.items() if isinstance(x, Enum) and self.is_heap(l) and "@[" not in l and x.adt.split("<")[0] in ("std::result::Result", "std::option::Option")))
            groups.setdefault((d, hd), []).append((s, v))
        out = []
        for d, lst in groups.items():
            s, v = lst[0]
            for s2, v2 in lst[1:]:
                s, v = self.join_ret(s, v, s2, v2)
            out.append((s, v))
        return out

    def join_ret(self, s1, v1, s2, v2):
        s1 = s1.copy(); s2 = s2.copy()
        s1.mem["$ret"] = v1; s2.mem["$ret"] = v2
        j = self.join(s1, s2, None)
        v = j.mem.pop("$ret")
        return j, v

    def successors(self, b):
        t = b["term"]; k = t["k"]
        if k == "goto": return [t["target"]]
        if k == "switch": return [x[1] for x in t["targets"]] + [t["otherwise"]]
        if k in ("call", "assert", "drop"): return [t["target"]] if t["target"] is not None else []
        return []

    def loop_heads(self, succ):
        heads = set(); color = {}
        stack = [(0, iter(succ[0]))]; color[0] = 1
        while stack:
            n, it = stack[-1]
            for m in it:
                if color.get(m) == 1: heads.add(m)
                elif m not in color:
                    color[m] = 1; stack.append((m, iter(succ[m]))); break
            else:
                color[n] = 2; stack.pop()
        return heads

    # ------------------------------------------------------------ join / order
    def live_atoms(self, st):
        atoms = set()
        def walk(v):
            if isinstance(v, Int): atoms.update(v.e.atoms())
            elif isinstance(v, Bool) and v.kind == "cmp": atoms.update(v.l.atoms()); atoms.update(v.r.atoms())
            elif isinstance(v, Slice): atoms.update(v.off.atoms()); atoms.update(v.ln.atoms())
            elif isinstance(v, VecVal): atoms.update(v.ln.atoms())
            elif isinstance(v, StructVal):
                for x in v.sub.values():
                    if not isinstance(x, dict): walk(x)
            elif isinstance(v, Enum):
                atoms.update(v.discr.atoms())
                for x in v.fields.values(): walk(x)
        for k, v in st.mem.items():
            if not k.endswith("#ty"): walk(v)
        return atoms

    def join_val(self, a, b, A, B, hint):
        if a is None or b is None: return None
        if type(a) != type(b): return Unk("join")
        if a.key() == b.key(): return a
        if isinstance(a, Int):
            s = fresh(hint)
            A.C.add(eq(s, a.e)); B.C.add(eq(s, b.e))
            if self._joined is not None and len(self._joined) < 24:
                self._joined.append(s)
                if self._joined_defs is not None: self._joined_defs.append((s, a.e, b.e))
            if self._changed is not None: self._changed.append((hint + "#" + str(len(self._changed)), a.e, b.e, lin(s)))
            return Int(s)
        if isinstance(a, Bool): return Bool("unk")
        if isinstance(a, VecVal):
            return VecVal(self.join_val(Int(a.ln), Int(b.ln), A, B, "vl").e)
        if isinstance(a, StructVal):
            sub = {}
            for k in sorted(set(a.sub) & set(b.sub)):
                if isinstance(a.sub[k], dict): sub[k] = a.sub[k]; continue
                v = self.join_val(a.sub[k], b.sub[k], A, B, hint + "s")
                if v is not None: sub[k] = v
            return StructVal(a.adt, sub)
        if isinstance(a, Slice):
            if a.base != b.base: return Unk("slice-join")
            o = self.join_val(Int(a.off), Int(b.off), A, B, "off"); l = self.join_val(Int(a.ln), Int(b.ln), A, B, "sl")
            return Slice(a.base, o.e, l.e)
        if isinstance(a, Enum):
            if a.adt != b.adt: return Unk("enum-join")
            d = self.join_val(Int(a.discr), Int(b.discr), A, B, "d")
            fields = {}
            for k in sorted(set(a.fields) & set(b.fields)):
                v = self.join_val(a.fields[k], b.fields[k], A, B, hint + "f")
                if v is not None: fields[k] = v
            # fields present on one side only are kept (other side's variant differs)
            for k in sorted(set(a.fields) ^ set(b.fields)):
                fields[k] = a.fields.get(k) or b.fields.get(k)
            return Enum(a.adt, d.e, fields)
        if isinstance(a, Ref): return Unk("ref-join")
        return a

    def join(self, A, B, fr, widen_=False, head_first=False, at_head=False):
        A = A.copy(); B = B.copy()
        R = State()
        self._changed = [] if head_first else None
        self._joined = []
        self._joined_defs = []
        changed = []   # (key, eA, eB, sym) for Int cells that differ
        for k in sorted(set(A.mem) | set(B.mem)):
            if k.endswith("#ty"):
                R.mem[k] = A.mem.get(k) or B.mem.get(k); continue
            a, b = A.mem.get(k), B.mem.get(k)
            if (a is None or b is None) and self.sum_stack and self.is_heap(k) and k in self.sum_stack[-1].init:
                if a is None: a = self.init_value(A, None, k)
                if b is None: b = self.init_value(B, None, k)
            if a is None or b is None:
                continue  # uninitialised on one side: drop (will be re-defaulted on read)
            v = self.join_val(a, b, A, B, k.split(".")[-1].replace("#", ""))
            if v is not None:
                R.mem[k] = v
        cands = []
        if head_first:
            changed = list(self._changed); self._changed = None
        if head_first and changed:
            # progress-ratio candidates: counter k (+1 per iteration) vs variable w with minimum progress m > 0
            counters = [(k, ea, eb, s) for (k, ea, eb, s) in changed if (eb - ea).is_const() and (eb - ea).c == 1]
            for (kk, eak, ebk, sk) in counters:
                for (kw, eaw, ebw, sw) in changed:
                    if kw == kk: continue
                    lo, hi = B.C.bounds(ebw - eaw)
                    if lo is not None and lo > 0:
                        g = fresh("g0"); R.mem[f"ghost:{kk}:{kw}:w"] = Int(eaw); R.mem[f"ghost:{kk}:{kw}:k"] = Int(eak)
                        cands.append(Con((sw - eaw) - (sk - eak).scale(lo), "ge"))
                    if hi is not None and hi < 0:
                        R.mem[f"ghost:{kk}:{kw}:w"] = Int(eaw); R.mem[f"ghost:{kk}:{kw}:k"] = Int(eak)
                        cands.append(Con((eaw - sw) - (sk - eak).scale(-hi), "ge"))
            # same-increment candidates (Karr): cells that changed by the same amount keep their difference
            bydelta = {}
            for (kx, eax, ebx, sx) in changed:
                bydelta.setdefault((ebx - eax).key(), []).append((kx, eax, sx))
            for grp in bydelta.values():
                for (k1, ea1, s1), (k2, ea2, s2) in zip(grp, grp[1:]):
                    R.mem[f"ghost:{k1}:{k2}:d"] = Int(ea1 - ea2)
                    cands.append(Con((s1 - s2) - (ea1 - ea2), "eq"))
            for key_, v_ in list(R.mem.items()):
                if key_.startswith("ghost:"):
                    A.mem[key_] = v_; B.mem[key_] = v_
        keep = self.live_atoms(R) | self.entry_atoms
        if self.sum_stack: keep |= self.sum_stack[-1].entry_syms
        try:
            PA = A.C.project(keep); PB = B.C.project(keep)
        except OverflowError:
            # the exact projection is too expensive here: keep what is written over the live atoms already (a weaker, sound state)
            LOSSY["FM blowup in join"] += 1
            PA = A.C.restrict(keep); PB = B.C.restrict(keep)
        if widen_ and self.soft_widen:
            R.C = weak_join(PA, PB, relax=True, thresholds=[x for x in self.thresholds if 0 <= x < (1 << 20)])
            W = widen(PA, PB, self.thresholds)
            for c in W.cons: R.C.add(c)
            # single-atom bounds only via strict widening with thresholds: drop non-relational bounds not in W
            for c in list(R.C.cons):
                if len(c.e.t) == 1 and c not in W.cons: R.C.cons.discard(c)
        elif widen_:
            R.C = widen(PA, PB, self.thresholds)
        else:
            R.C = weak_join(PA, PB)
        # relational candidates for freshly joined integers: stay below a buffer length both sides keep them below
        joined, self._joined = self._joined or [], None
        if joined and not widen_ and self.assume_offsets_in_packet:
            lens = sorted(a_ for a_ in (PA.atoms() & PB.atoms()) if a_.startswith("len"))[:6]
            live = self.live_atoms(R)
            for s_ in joined:
                if s_ not in live: continue
                cands.append(ge(lin(s_), 0))
                for L in lens:
                    cands.append(le(lin(s_), lin(L)))
        if joined and not widen_ and at_head and not os.environ.get("E4_NOHULL"):
            # (loop heads only: that is where a lost bound is fed back and amplified; elsewhere the cost is not worth it)
            # interval hull of every freshly joined integer: the constraint-wise join keeps a bound only when it is written
            # down on one side and entailed by the other, so `s == 0` joined with `s == t + 1, t <= 63` would lose `s <= 64`
            live = self.live_atoms(R)
            for s_ in joined:
                if s_ not in live: continue
                la, ha = PA.bounds(lin(s_)); lb, hb = PB.bounds(lin(s_))
                if la is not None and lb is not None: R.C.add(ge(lin(s_), min(la, lb)))
                if ha is not None and hb is not None and max(ha, hb) < (1 << 62): R.C.add(le(lin(s_), max(ha, hb)))
        jdefs, self._joined_defs = self._joined_defs or [], None
        if len(jdefs) >= 2 and not os.environ.get("E4_NOPAIRS"):
            # two joined integers whose difference is the same expression on both sides keep that difference (`n = len - start` computed
            # on either branch before the join: the joined n and the joined len are still `start` apart).  Purely syntactic, hence cheap.
            live = self.live_atoms(R)
            jl = [(s_, ea_, eb_) for (s_, ea_, eb_) in jdefs if s_ in live][:16]
            for i_, (s1, ea1, eb1) in enumerate(jl):
                for (s2, ea2, eb2) in jl[i_ + 1:]:
                    da, db = ea1 - ea2, eb1 - eb2
                    if da.key() == db.key() and len(da.t) <= 2 and not (set(da.atoms()) - keep):
                        cands.append(Con((lin(s1) - lin(s2)) - da, "eq"))
        if joined and widen_ and not os.environ.get("E4_NOSEMWIDEN"):
            # widening on meaning, not on spelling: a bound of a joined integer (absolute, or relative to an argument / buffer
            # length of the function) that the old state has and the new state still satisfies is stable, whether or not the old
            # state happens to have it written down as one constraint.  A bound is only ever kept or dropped: termination as before.
            live = self.live_atoms(R)
            common = PA.atoms() & PB.atoms()
            refs = sorted(a_ for a_ in (self.entry_atoms & common) if not a_.startswith("_"))[:6]
            for s_ in joined:
                if s_ not in live: continue
                for e_ in [None] + refs:
                    if e_ == s_: continue
                    d_ = lin(s_) if e_ is None else lin(s_) - lin(e_)
                    la, ha = PA.bounds(d_)
                    if la is None and ha is None: continue
                    lb, hb = PB.bounds(d_)
                    if la is not None and lb is not None and lb >= la and abs(la) < (1 << 40): cands.append(ge(d_, la))
                    if ha is not None and hb is not None and hb <= ha and abs(ha) < (1 << 40): cands.append(le(d_, ha))
        for c in cands:
            if PA.entails(c) and PB.entails(c):
                R.C.add(c)
        return R

    def state_leq(self, A, B):
        """A ⊑ B approx: same mem shape/keys and A.C entails all of B.C after unifying symbols.
        We use a cheap syntactic check: equal mem keys+values and constraint sets."""
        if set(k for k in A.mem if not k.endswith("#ty")) != set(k for k in B.mem if not k.endswith("#ty")): return False
        # alpha-rename by position: build mapping from A symbols to B symbols through mem values
        m = {}
        def unify(x, y):
            if type(x) != type(y): return False
            if isinstance(x, Int): return unify_lin(x.e, y.e)
            if isinstance(x, Bool):
                if x.kind != y.kind: return False
                if x.kind == "cmp": return x.op == y.op and unify_lin(x.l, y.l) and unify_lin(x.r, y.r)
                return x.v == y.v
            if isinstance(x, Slice): return x.base == y.base and unify_lin(x.off, y.off) and unify_lin(x.ln, y.ln)
            if isinstance(x, Enum):
                if x.adt != y.adt or set(x.fields) != set(y.fields): return False
                return unify_lin(x.discr, y.discr) and all(unify(x.fields[k], y.fields[k]) for k in x.fields)
            if isinstance(x, Ref): return x.loc == y.loc
            return True
        def unify_lin(p, q):
            if p.c != q.c or len(p.t) != len(q.t): return False
            if len(p.t) == 0: return True
            if len(p.t) == 1:
                (a, ka), = p.t.items(); (b, kb), = q.t.items()
                if ka != kb: return False
                if m.setdefault(a, b) != b: return False
                return True
            # multi-term: require identical after mapping known atoms
            for a, ka in p.t.items():
                b = m.get(a, a)
                if q.t.get(b) != ka: return False
            return True
        for k in A.mem:
            if k.endswith("#ty"): continue
            if not unify(A.mem[k], B.mem[k]): return False
        # rename A's constraints and compare entailment
        def ren(c):
            e = c.e
            t = {}
            for a, kk in e.t.items(): t[m.get(a, a)] = t.get(m.get(a, a), 0) + kk
            return Con(Lin(t, e.c), c.kind)
        AC = CSet([ren(c) for c in A.C.cons]); AC.bottom = A.C.bottom
        return all(AC.entails(c) for c in B.C.cons)

    # ------------------------------------------------------------ block execution
    def exec_block(self, f, fr, bb, st, site_prefix):
        b = f["blocks"][bb]
        if b["cleanup"]: return []
        fname = f["key"]
        try:
            for s in b["stmts"]:
                if s["k"] == "assign":
                    self.moved = []
                    if self.record and self.probe_spec and s["rv"]["k"] == "aggregate" and s["rv"].get("adt"):
                        for (pc, pin) in self.probe_spec:
                            if pc == "<aggregate:" + s["rv"]["adt"] + ">" and (pin is None or fname == pin):
                                PROBES.append(dict(site=f"{site_prefix}{fname}@bb{bb}", kind="aggregate", callee=pc, fn=fname, args=[], lens={}, C=st.C.copy(), at=s.get("at"), stmt=s,
                                                   mem={k2: v2 for k2, v2 in st.mem.items() if isinstance(v2, (Int, Enum, Bool, VecVal))}, fr=fr, bb=bb))
                    v = self.rvalue(st, fr, s["rv"], s["place"]["ty"], s.get("at"))
                    for m in self.moved: st.mem.pop(m, None)
                    self.write_place(st, fr, s["place"], v)
                    if self.track_loads and not s["place"]["proj"] and s["rv"]["k"] in ("use", "cast") and s["rv"]["x"].get("k") in ("copy", "move"):
                        # ghost: remember at which position of which buffer the byte now held by this local was read
                        spl = s["rv"]["x"]["place"]; dst = f"{fr}._{s['place']['local']}"
                        st.mem.pop("ghost:ld:" + dst, None)
                        if spl["proj"] and spl["proj"][-1]["k"] == "index":
                            try:
                                cur_ = self.resolve_place(st, fr, spl)
                                if cur_[0] == "byte":
                                    base_, pos_ = self.cell_index[self.byte_loc(st, cur_)]
                                    st.mem["ghost:ld:" + dst] = Int(pos_); self.load_base[dst] = base_
                                    if self.record and any(pc_ == "<load>" and (pin_ is None or fname == pin_ or fname.startswith(pin_ + "::{closure")) for (pc_, pin_) in self.probe_spec):
                                        PROBES.append(dict(site=f"{site_prefix}{fname}@bb{bb}", kind="load", callee="<load>", fn=fname, args=[], lens={}, C=st.C.copy(), at=s.get("at"),
                                                           base=base_, pos=pos_, mem={k2: v2 for k2, v2 in st.mem.items() if isinstance(v2, (Int, Enum, Bool, VecVal))}, fr=fr, bb=bb))
                            except Unmodelled:
                                pass
                        elif not spl["proj"] and ("ghost:ld:" + f"{fr}._{spl['local']}") in st.mem:
                            st.mem["ghost:ld:" + dst] = st.mem["ghost:ld:" + f"{fr}._{spl['local']}"]
                            self.load_base[dst] = self.load_base.get(f"{fr}._{spl['local']}")
                elif s["k"] == "setdiscr":
                    pass
                elif s["k"] == "dead":
                    loc = f"{fr}._{s['local']}"
                    if loc in st.mem:
                        del st.mem[loc]
                        pre = loc + "."
                        for k in [k for k in st.mem if k.startswith(pre)]: del st.mem[k]
            t = b["term"]; k = t["k"]
            if k == "goto": return [(t["target"], st)]
            if k == "return": return [("ret", st)]
            if k == "unreachable": return []
            if k == "drop": return [(t["target"], st)]
            if k == "switch":
                self.moved = []
                d = self.operand(st, fr, t["discr"])
                for m in self.moved: st.mem.pop(m, None)
                out = []
                if isinstance(d, Bool):
                    # targets: [[0, bbF]], otherwise bbT
                    for val, tb in t["targets"]:
                        cond = d.negate() if val == 0 else d
                        out += self.branch(st, cond, tb)
                    # otherwise: none of listed values
                    vals = [v for v, _ in t["targets"]]
                    if vals == [0]: out += self.branch(st, d, t["otherwise"])
                    elif vals == [1]: out += self.branch(st, d.negate(), t["otherwise"])
                    else: out.append((t["otherwise"], st.copy()))
                    return out
                x = self.as_int(st, d)
                for val, tb in t["targets"]:
                    s2 = st.copy(); s2.C.add(eq(x, val)); out.append((tb, s2))
                # otherwise: x differs from all listed values; encode when it tightens a range
                s2 = st.copy()
                lo, hi = s2.C.bounds(x)
                vals = sorted(v for v, _ in t["targets"])
                if lo is not None:
                    while lo in vals: lo += 1
                    s2.C.add(ge(x, lo))
                if hi is not None:
                    while hi in vals: hi -= 1
                    s2.C.add(le(x, hi))
                out.append((t["otherwise"], s2))
                return out
            if k == "assert":
                c = self.operand(st, fr, t["cond"])
                want = c if t["expected"] else (c.negate() if isinstance(c, Bool) else Bool("unk"))
                site = f"{site_prefix}{fname}@bb{bb}:{t['at']}"
                alts = want.cons() if isinstance(want, Bool) else None
                if alts is None:
                    self.oblige(st, [Con(lin(-1), "ge")], site, t["msg"], "unknown condition")
                    return [(t["target"], st)]
                if len(alts) == 1:
                    self.oblige(st, alts[0], site, t["msg"], t["msg_full"][:80])
                    st.assume(alts[0])
                    return [(t["target"], st)]
                if len(alts) == 0:
                    self.oblige(st, [Con(lin(-1), "ge")], site, t["msg"], "always fails")
                    return []
                # disjunction (Ne): proved if one alternative entailed
                ok = any(all(st.C.entails(c) for c in alt) for alt in alts)
                if self.record: OBLIGATIONS.append(dict(site=site, kind=t["msg"], detail="ne", ok=ok, cons=[]))
                return [(t["target"], st)]
            if k == "call":
                return self.exec_call(f, fr, bb, st, t, site_prefix)
            raise Unmodelled("terminator " + k)
        except Unmodelled as e:
            UNMODELLED[f"{fname}@bb{bb}: {e}"] += 1
            if self.record:
                OBLIGATIONS.append(dict(site=f"{site_prefix}{fname}@bb{bb}", kind="unmodelled", detail=str(e), ok=False, cons=[]))
            return []

    def branch(self, st, cond, tb):
        alts = cond.cons() if isinstance(cond, Bool) else None
        if alts is None:
            return [(tb, st.copy())]
        out = []
        for alt in alts:
            s2 = st.copy(); s2.assume(alt)
            if not s2.C.infeasible(): out.append((tb, s2))
        return out

    # ------------------------------------------------------------ calls
    def exec_call(self, f, fr, bb, st, t, site_prefix):
        callee = t["callee"]
        fname = f["key"]
        site = f"{site_prefix}{fname}@bb{bb}:{t['at']}"
        self.moved = []
        args = [self.operand(st, fr, a) for a in t["args"]]
        for m in self.moved: st.mem.pop(m, None)
        dest = t["dest"]; target = t["target"]
        if callee["k"] != "direct":
            raise Unmodelled("indirect call")
        path = callee.get("resolved") or callee["path"]
        results = None
        if self.record and self.probe_spec and self.track_loads:
            # a buffer element handed by reference to a callee counts as a load of that element
            for (pc, pin) in self.probe_spec:
                if pc == "<load>" and (pin is None or f["key"] == pin or f["key"].startswith(pin + "::{closure")):
                    for a_ in args:
                        if isinstance(a_, Ref) and a_.loc in self.cell_index:
                            base_, pos_ = self.cell_index[a_.loc]
                            PROBES.append(dict(site=site, kind="load", callee="<load>", fn=f["key"], args=[], lens={}, C=st.C.copy(), at=t.get("at"), base=base_, pos=pos_,
                                               mem={k: v for k, v in st.mem.items() if isinstance(v, (Int, Enum, Bool, VecVal))}, fr=fr, bb=bb))
        if self.record and self.probe_spec:
            for (pc, pin) in self.probe_spec:
                if (path == pc or path.endswith(pc)) and (pin is None or f["key"] == pin or f["key"].split("@")[0] == pin):
                    lens = {}
                    for ai, a_ in enumerate(args):
                        try:
                            if isinstance(a_, (Ref, Slice)): lens[ai] = self.seq_len(st, a_)
                        except Exception: pass
                    PROBES.append(dict(site=site, kind="call", callee=path, fn=f["key"], args=args, lens=lens, C=st.C.copy(), at=t.get("at"),
                                       mem={k: v for k, v in st.mem.items() if isinstance(v, (Int, Enum, Bool, VecVal))}, fr=fr, bb=bb))
        # rule hook C06.a: the offset handed to SuffixDict::insert must equal the current output length
        if path == "compress::SuffixDict::insert" and f["key"] == "compress::Compress::copy_compressed_name_with_base_offset" and self.rule_c06a:
            outlen = self.seq_len(st, st.mem[f"{fr}._2"]) if isinstance(st.mem.get(f"{fr}._2"), Ref) else None
            if outlen is not None and isinstance(args[2], Int):
                self.oblige(st, [eq(args[2].e, outlen)], site, "C06.a dict-offset == len(output)", f"{args[2].e} == {outlen}")
        for fp, fv in self.force_ret.items():
            if path == fp or path.endswith(fp):
                if isinstance(fv, tuple) and fv[0] == "ok_int":      # hypothesis run: the call succeeded and returned this integer
                    results = [(st, Enum(dest["ty"].get("adt", "std::result::Result"), 0, {(0, 0): Int(lin(fv[1]))}))]
                else:
                    results = [(st, Bool("const", v=fv))]
        # local callee?
        if results is None and (callee.get("resolved_local") or (callee.get("resolved") is None and callee.get("local"))):
            key = self.local_key(callee, f)
            if key is not None and "{closure" in key and callee.get("path", "").startswith("std::ops::Fn") and len(args) == 2 \
                    and isinstance(args[1], Enum) and args[1].adt == "(tuple)":
                # `f(x, y)` on a closure value: the body takes the environment and the arguments one by one, the call site a tuple
                n_ = self.fns[key].get("arg_count", 2) - 1
                args = [args[0]] + [args[1].fields.get((0, i), Unk()) for i in range(n_)]
                if isinstance(args[0], Enum) and self.fns[key]["locals"][1].get("k") == "ref":
                    cell_ = fresh("obj"); st.mem[cell_] = args[0]; args[0] = Ref(cell_)
                elif isinstance(args[0], Ref) and self.fns[key]["locals"][1].get("k") != "ref":
                    args[0] = st.mem.get(args[0].loc, args[0])
            if key is not None:
                if (self.havoc_threshold is not None and self.closure_size(key) > self.havoc_threshold) or any(path.endswith(o) for o in self.opaque):
                    results = self.havoc_call(st, args, dest["ty"], site)
                elif self.use_summaries and "{closure" not in key:
                    results = self.instantiate(self.summarize(key), args, st, site)
                else:
                    results = self.analyze(key, args, st, site_prefix=site_prefix)
                # carry caller frame: analyze() copied st including our frame; keep
        if results is None:
            m = MODELS.get(path) or MODELS.get(callee["path"])
            if m is None:
                for pre, h in PREFIX_MODELS:
                    if path.startswith(pre) or callee["path"].startswith(pre): m = h; break
            if m is None:
                raise Unmodelled("callee " + path)
            results = m(self, st, args, dest["ty"], site, callee, t)
        out = []
        for s2, rv in results:
            if target is None: continue
            self.write_place(s2, fr, dest, rv)
            out.append((target, s2))
        return out

    # ------------------------------------------------------------ loop ranking / bounds
    def rank_loops(self, key):
        """post-fixpoint: for every loop head find a {-1,0,+1}-combination of integer cells that strictly
        increases on every back-edge arrival, and bound it."""
        import itertools as _it
        fr, instate, heads, succ, f = self.last_instate[key]
        out = []
        saved = self.record; self.record = False
        self.fn_stack.append(f)
        inner = None
        blocks_ = f["blocks"]
        for hb in sorted(heads):
            arrivals = []
            head_states = [(k, s) for k, s in instate.items() if k[0] == hb]
            for (k, H) in head_states:
                H = H.copy()
                cells = [c for c, v in H.mem.items() if isinstance(v, Int) and not c.endswith("#ty") and "@[" not in c]
                for c in cells: H.mem["ghost:" + c] = H.mem[c]
                local = {}; work = []
                for (tb, ts) in self.exec_block(f, fr, hb, H.copy(), ""):
                    work.append((tb, ts))
                steps = 0
                while work:
                    tb, ts = work.pop()
                    steps += 1
                    if steps > 4000: break
                    if tb == "ret" or ts.bottom: continue
                    if tb == hb:
                        arrivals.append((k[1], H, ts)); continue
                    if tb in heads:
                        # an inner loop: step over it - continue behind each of its exits with every cell the inner loop can
                        # assign forgotten (sound; precise enough when the inner loop leaves the outer loop's counters alone)
                        if inner is None:
                            from analysis import facts as _F
                            try: inner = _F.natural_loops(f)
                            except Exception: inner = {}
                        body = inner.get(tb)
                        if not body or hb in body or (tb, "over") in local:
                            continue
                        local[(tb, "over")] = True
                        killed = set()
                        for bi_ in body:
                            for st_ in blocks_[bi_]["stmts"]:
                                if st_["k"] == "assign": killed.add(st_["place"]["local"])
                            tt_ = blocks_[bi_]["term"]
                            if tt_["k"] == "call": killed.add(tt_["dest"]["local"])
                        ts2 = ts.copy()
                        for l_ in killed:
                            pre_ = f"{fr}._{l_}"
                            for k_ in [k_ for k_ in ts2.mem if k_ == pre_ or k_.startswith(pre_ + ".") or k_.startswith(pre_ + "#")]:
                                if not k_.endswith("#ty"): ts2.mem.pop(k_, None)
                        for bi_ in sorted(body):
                            for m_ in succ[bi_]:
                                if m_ not in body and not blocks_[m_]["cleanup"]:
                                    work.append((m_, ts2.copy()))
                        continue
                    for (t2, s2) in self.exec_block(f, fr, tb, ts, ""):
                        work.append((t2, s2))
            if not arrivals:
                if self._slice_iter_loop(f, hb, succ):
                    out.append((hb, "slice iterator", "driven by a slice iterator: one iteration per element, at most the length of the slice (which is finite)",
                                dict(head=hb, measure="slice iterator", step=1, kind="slice-iter", text="one iteration per element of a slice")))
                    continue
                out.append((hb, None, "no back-edge arrival (loop exits on first pass or inner loop)")); continue
            # candidate cells: changed in some arrival
            cand = set()
            for pk, H, A in arrivals:
                for c, v in H.mem.items():
                    if c.startswith("ghost:"): continue
                    if isinstance(v, Int) and isinstance(A.mem.get(c), Int) and A.mem[c].key() != v.key() and "@[" not in c and not c.endswith("#ty"):
                        cand.add(c)
            cand = sorted(cand)
            def delta(A, H, combo):
                e = lin(0)
                for c, s in combo:
                    if not isinstance(A.mem.get(c), Int) or not isinstance(H.mem.get(c), Int): return None    # a cell only some partitions of the head hold
                    e = e + (A.mem[c].e - H.mem[c].e).scale(s)
                return e
            combos = [((c, s),) for c in cand for s in (1, -1)]
            combos += [((c1, s1), (c2, s2)) for c1, c2 in _it.combinations(cand, 2) for s1 in (1, -1) for s2 in (1, -1)]
            best = None
            for combo in combos:
                ok = True; minstep = None
                for pk, H, A in arrivals:
                    e = delta(A, H, combo)
                    if e is None: ok = False; break
                    lo, hi = A.C.bounds(e)
                    if lo is None or lo < 1: ok = False; break
                    minstep = lo if minstep is None else min(minstep, lo)
                if not ok:
                    continue
                # bound the measure: value at arrival (after the guards of the iteration) minus value at first entry
                his = []; los = []
                for pk, H, A in arrivals:
                    m = lin(0)
                    for c, s in combo: m = m + A.mem[c].e.scale(s)
                    lo, hi = A.C.bounds(m); his.append(hi)
                    m0 = lin(0)
                    for c, s in combo: m0 = m0 + H.mem[c].e.scale(s)
                    lo0, hi0 = H.C.bounds(m0); los.append(lo0)
                desc = " + ".join((("-" if s < 0 else "") + c.split(".")[-1]) for c, s in combo)
                cand_res = None
                if all(h is not None for h in his) and all(l is not None for l in los) and max(his) - min(los) < (1 << 40):
                    iters = (max(his) - min(los)) // minstep + 1
                    cand_res = dict(head=hb, measure=desc, step=minstep, kind="const", lo=min(los), hi=max(his), iters=iters,
                                    text=f"step >= {minstep}; measure in [{min(los)}, {max(his)}] => at most {iters} iterations (constant)")
                    score = (0, iters)
                    # a bound that is nothing but the range of the counter's integer type only says "the overflow check
                    # panics first" (and nothing at all in a build without overflow checks): not a loop bound
                    if len(combo) == 1:
                        c0, s0 = combo[0]
                        cty = H.mem.get(c0 + "#ty")
                        if cty is None and c0.startswith(fr + "._") and c0[len(fr) + 2:].isdigit():
                            cty = f["locals"][int(c0[len(fr) + 2:])]
                        if cty is None and "." in c0:
                            # field cell of a heap object: <root>.<field>[.<field>..] with the root's type recorded
                            root, _, path = c0.partition(".")
                            while cty is None and path:
                                rty = H.mem.get(root + "#ty")
                                cur = rty
                                for nm in path.split("."):
                                    a_ = self.adts.get(cur.get("adt")) if isinstance(cur, dict) and cur.get("k") == "adt" else None
                                    cur = next((fd["ty"] for fd in a_["variants"][0]["fields"] if fd["name"] == nm), None) if a_ and a_.get("variants") else None
                                    if cur is None: break
                                if cur is not None:
                                    cty = cur; break
                                if "." not in path: break
                                nxt, _, path = path.partition(".")
                                root = root + "." + nxt
                        if isinstance(cty, dict) and cty.get("k") == "int":
                            tlo, thi = int_range(cty)
                            if (s0 == 1 and max(his) >= thi) or (s0 == -1 and -min(los) <= tlo):
                                cand_res = dict(head=hb, measure=desc, step=minstep, kind="type-range",
                                                text=f"step >= {minstep}; the only bound of the counter is the range of its type [{tlo}, {thi}] (i.e. the overflow check)")
                                score = (3, 0)
                else:
                    rel = None
                    for pk, H, A in arrivals:
                        m = lin(0)
                        for c, s in combo: m = m + A.mem[c].e.scale(s)
                        for a in sorted(A.C.atoms()):
                            if a.startswith("len"):
                                lo, hi = A.C.bounds(m - lin(a))
                                if hi is not None: rel = (a, hi); break
                        if rel is None: break
                    if rel:
                        cand_res = dict(head=hb, measure=desc, step=minstep, kind="len", rel=rel[0], slack=rel[1],
                                        text=f"step >= {minstep}; measure <= {rel[0]} + {rel[1]} => at most len/{minstep} + c iterations (linear in the buffer length)")
                        score = (1, -minstep)
                    else:
                        cand_res = dict(head=hb, measure=desc, step=minstep, kind="unbounded",
                                        text=f"step >= {minstep}; measure not bounded by a constant or a length")
                        score = (2, 0)
                if best is None or score < best[0]:
                    best = (score, cand_res)
            if best is None:
                si = self._slice_iter_loop(f, hb, succ)
                if si:
                    out.append((hb, "slice iterator", "driven by a slice iterator: one iteration per element, at most the length of the slice (which is finite)",
                                dict(head=hb, measure="slice iterator", step=1, kind="slice-iter", text="one iteration per element of a slice")))
                    continue
                out.append((hb, None, f"no ranking among {cand}")); continue
            out.append((hb, best[1]["measure"], best[1]["text"], best[1]))
        self.fn_stack.pop()
        self.record = saved
        return out

    def _slice_iter_loop(self, f, hb, succ):
        """Is the loop with head hb driven by `slice::Iter::next()` (directly or through Enumerate / Copied / Cloned): the call sits on
        every cycle through the head and its `None` answer leaves the loop?  Such a loop runs once per element of a finite slice."""
        from analysis import facts as _F
        try:
            body = _F.natural_loops(f).get(hb)
            dom = _F.dominators(f)
        except Exception:
            return False
        if not body:
            return False
        blocks = f["blocks"]
        latches = [b for b in body if hb in succ[b]]
        for bi in sorted(body):
            t = blocks[bi]["term"]
            if t["k"] != "call": continue
            c = t["callee"]; path = (c.get("resolved_full") or c.get("full") or c.get("resolved") or c.get("path") or "")
            if not path.endswith("as std::iter::Iterator>::next") and "Iterator>::next" not in path: continue
            if "slice::Iter<" not in path and "slice::Iter " not in path and "slice::IterMut<" not in path and "slice::Chunks" not in path: continue
            if not all(bi in dom.get(l, ()) or bi == l for l in latches): continue
            nxt = t.get("target")
            if nxt is None: continue
            sw = blocks[nxt]["term"]
            if sw["k"] != "switch": continue
            none_edge = next((tb for v, tb in sw["targets"] if v == 0), None)
            if none_edge is not None and none_edge not in body:
                return True
        return False

    def closure_size(self, key):
        if key in self._csize: return self._csize[key]
        seen = set(); todo = [key]
        while todo:
            k = todo.pop()
            if k in seen or k not in self.fns: continue
            seen.add(k)
            f = self.fns[k]
            for b in f["blocks"]:
                t = b["term"]
                if t["k"] == "call" and t["callee"]["k"] == "direct":
                    c = t["callee"]
                    if c.get("resolved_local") or (c.get("resolved") is None and c.get("local")):
                        kk = self.local_key(c, f)
                        if kk: todo.append(kk)
        self._csize[key] = len(seen)
        return len(seen)

    def havoc_call(self, st, args, dty, site):
        """unknown local callee: forget everything reachable through reference arguments"""
        st = st.copy()
        for a in args:
            locs = []
            if isinstance(a, Ref): locs.append(a.loc)
            if isinstance(a, Slice): locs.append(a.base)
            if isinstance(a, StructVal):
                for x in a.sub.values():
                    if isinstance(x, Ref): locs.append(x.loc)
            for l in locs:
                for k in [k for k in st.mem if (k == l or k.startswith(l + ".") or k.startswith(l + "#") or k.startswith(l + "@")) and not k.endswith("#ty")]:
                    del st.mem[k]
                n = fresh("hlen"); st.C.add(ge(n, 0)); st.C.add(le(n, ISIZE_MAX))
                st.mem[l + "#len"] = Int(n)
        return [(st, self.default_value(st, dty, "havoc@" + site.split(" <= ")[0]))]

    def local_key(self, callee, f):
        path = callee.get("resolved") or callee["path"]
        cands = self.bypath.get(path, [])
        if not cands:
            # resolved path may print as <T as Trait>::m ; fall back to path field + impl_self
            cands = self.bypath.get(callee["path"], [])
        if not cands: return None
        if len(cands) == 1: return cands[0]["key"]
        import re as _re
        want = callee.get("impl_self")
        if not want:
            m = _re.match(r"^<(.+?) as ", callee.get("full", ""))
            if m and m.group(1) != "Self": want = m.group(1)
        want = want or f.get("inst_self")
        for c in cands:
            if c.get("inst_self") == want or c.get("impl_self") == want: return c["key"]
        for c in cands:
            if "@" not in c["key"]: return c["key"]
        return cands[0]["key"]


# ---------------------------------------------------------------- models of external callees
def ret1(st, v): return [(st, v)]

def m_len(an, st, args, dty, site, callee, t):
    return ret1(st, Int(an.seq_len(st, args[0])))

def m_is_empty(an, st, args, dty, site, callee, t):
    return ret1(st, Bool("cmp", op="Eq", l=an.seq_len(st, args[0]), r=lin(0)))

def m_deref_vec(an, st, args, dty, site, callee, t):
    return ret1(st, an.as_slice(st, args[0]))

def m_index(an, st, args, dty, site, callee, t):
    s = an.as_slice(st, args[0]); idx = args[1]
    if isinstance(idx, Int):
        an.oblige(st, [ge(idx.e, 0), lt(idx.e, s.ln)], site, "index", f"{idx.e} < {s.ln}")
        st.assume([lt(idx.e, s.ln)])
        b = "obj@" + site.split(" <= ")[0] + ":elem"; st.mem[b] = st.fresh_int({"bits": 8, "signed": False}, "byte")
        st.mem[b + "#ty"] = {"k": "int", "bits": 8, "signed": False}
        return ret1(st, Ref(b))
    if isinstance(idx, Enum):
        if idx.adt == "std::ops::RangeFrom":
            a = an.as_int(st, idx.fields[(0, 0)])
            an.oblige(st, [ge(a, 0), le(a, s.ln)], site, "range_from", f"{a} <= {s.ln}")
            st.assume([le(a, s.ln)])
            return ret1(st, Slice(s.base, s.off + a, s.ln - a))
        if idx.adt == "std::ops::Range":
            a = an.as_int(st, idx.fields[(0, 0)]); b = an.as_int(st, idx.fields[(0, 1)])
            an.oblige(st, [ge(a, 0), le(a, b), le(b, s.ln)], site, "range", f"{a} <= {b} <= {s.ln}")
            st.assume([le(a, b), le(b, s.ln)])
            return ret1(st, Slice(s.base, s.off + a, b - a))
        if idx.adt == "std::ops::RangeTo":
            b = an.as_int(st, idx.fields[(0, 0)])
            an.oblige(st, [ge(b, 0), le(b, s.ln)], site, "range_to", f"{b} <= {s.ln}")
            st.assume([le(b, s.ln)])
            return ret1(st, Slice(s.base, s.off, b))
    raise Unmodelled(f"index with {idx}")

def m_split_at(an, st, args, dty, site, callee, t):
    """<[T]>::split_at(mid) / split_at_mut: two views of the same bytes, (.., mid) and (mid, ..); panics when mid > len"""
    s = an.as_slice(st, args[0]); mid = an.as_int(st, args[1])
    an.oblige(st, [ge(mid, 0), le(mid, s.ln)], site, "range_to", f"{mid} <= {s.ln}")
    st.assume([le(mid, s.ln)])
    return ret1(st, Enum("(tuple)", 0, {(0, 0): Slice(s.base, s.off, mid), (0, 1): Slice(s.base, s.off + mid, s.ln - mid)}))

def m_read(nbytes):
    def h(an, st, args, dty, site, callee, t):
        s = an.as_slice(st, args[0])
        an.oblige(st, [ge(s.ln, nbytes)], site, "read_u%d" % (8 * nbytes), f"{s.ln} >= {nbytes}")
        return ret1(st, st.fresh_int(dty, "rd"))
    return h

def m_replace(an, st, args, dty, site, callee, t):
    r = args[0]
    if not isinstance(r, Ref): raise Unmodelled("replace non-ref")
    old = an.load(st, ("loc", r.loc), dty)
    st.mem[r.loc] = args[1]
    return ret1(st, old)

def m_try_branch(an, st, args, dty, site, callee, t):
    v = args[0]
    if not isinstance(v, Enum): raise Unmodelled("branch on non-enum")
    out = []
    # Result: 0 Ok -> Continue(0) ; 1 Err -> Break(1).  Option: 0 None -> Break ; 1 Some -> Continue
    is_opt = v.adt.startswith("std::option::Option")
    for d in (0, 1):
        s2 = st.copy(); s2.C.add(eq(v.discr, d))
        if s2.C.infeasible(): continue
        cont = (d == 0) != is_opt
        if cont:
            payload = v.fields.get((d, 0))
            if payload is None:
                payload = Unk("payload")
            out.append((s2, Enum("std::ops::ControlFlow", 0, {(0, 0): payload})))
        else:
            out.append((s2, Enum("std::ops::ControlFlow", 1, {(1, 0): Enum(v.adt, d, {})})))
    return out

def m_from_residual(an, st, args, dty, site, callee, t):
    adt = dty.get("adt", "")
    d = 0 if adt.startswith("std::option::Option") else 1
    return ret1(st, Enum(adt, d, {}))

def m_opaque(an, st, args, dty, site, callee, t):
    return ret1(st, an.default_value(st, dty, fresh("tmp")))

def m_widen_from(an, st, args, dty, site, callee, t):
    """<uM as From<uN>>::from for integer types: lossless widening"""
    v = args[0]
    if isinstance(v, Int): return ret1(st, v)
    return m_opaque(an, st, args, dty, site, callee, t)

def m_into_enum_const(an, st, args, dty, site, callee, t):
    v = args[0]
    if isinstance(v, Enum) and v.discr.is_const():
        a = an.adts.get(v.adt)
        if a:
            return ret1(st, Int(int(a["variants"][v.discr.c]["discr"])))
    return m_opaque(an, st, args, dty, site, callee, t)

def m_opt_is(some):
    def h(an, st, args, dty, site, callee, t):
        r = args[0]
        v = an.load(st, ("loc", r.loc), None) if isinstance(r, Ref) else r
        if isinstance(v, Enum):
            return ret1(st, Bool("cmp", op="Eq", l=v.discr, r=lin(1 if some else 0)))
        return ret1(st, Bool("unk"))
    return h

def m_opt_or(an, st, args, dty, site, callee, t):
    a, b = args
    if not isinstance(a, Enum) or not isinstance(b, Enum): return m_opaque(an, st, args, dty, site, callee, t)
    out = []
    s1 = st.copy(); s1.C.add(eq(a.discr, 1))
    if not s1.C.infeasible(): out.append((s1, Enum(a.adt, 1, {(1, 0): a.fields.get((1, 0), Unk())})))
    s0 = st.copy(); s0.C.add(eq(a.discr, 0))
    if not s0.C.infeasible(): out.append((s0, b))
    return out

def m_as_deref(an, st, args, dty, site, callee, t):
    """Option<Vec<u8>>::as_deref / as_ref on an owned buffer: the same presence, the payload seen as a slice of some buffer"""
    a = args[0]
    if isinstance(a, Ref): a = st.mem.get(a.loc, a)
    if not isinstance(a, Enum): return m_opaque(an, st, args, dty, site, callee, t)
    cell = fresh("obj")
    ln = st.fresh_int({"k": "int", "bits": 64, "signed": False}, "dl")
    st.C.add(le(ln.e, (1 << 63) - 1))
    st.mem[cell + "#len"] = ln
    return ret1(st, Enum(dty.get("adt", "std::option::Option"), a.discr, {(1, 0): Slice(cell, 0, ln.e)}))

def m_unwrap_or(an, st, args, dty, site, callee, t):
    a, b = args
    if not isinstance(a, Enum): return m_opaque(an, st, args, dty, site, callee, t)
    some_d = 1 if a.adt.startswith("std::option::Option") else 0
    out = []
    s1 = st.copy(); s1.C.add(eq(a.discr, some_d))
    if not s1.C.infeasible(): out.append((s1, a.fields.get((some_d, 0), an.default_value(s1, dty, fresh("tmp")))))
    s0 = st.copy(); s0.C.add(eq(a.discr, 1 - some_d))
    if not s0.C.infeasible(): out.append((s0, b))
    return out

def m_unwrap_or_else(an, st, args, dty, site, callee, t):
    a, clo = args
    if not isinstance(a, Enum): return m_opaque(an, st, args, dty, site, callee, t)
    some_d = 1 if a.adt.startswith("std::option::Option") else 0
    out = []
    s1 = st.copy(); s1.C.add(eq(a.discr, some_d))
    if not s1.C.infeasible(): out.append((s1, a.fields.get((some_d, 0), an.default_value(s1, dty, fresh("tmp")))))
    s0 = st.copy(); s0.C.add(eq(a.discr, 1 - some_d))
    if not s0.C.infeasible():
        done = False
        if isinstance(clo, Enum) and clo.adt.startswith("(closure)"):
            key = clo.adt[len("(closure)"):]
            if key in an.fns:
                cargs = [clo] if some_d == 1 else [clo, a.fields.get((1, 0), Unk())]
                for s2, rv in an.analyze(key, cargs, s0):
                    out.append((s2, rv))
                done = True
        if not done: out.append((s0, an.default_value(s0, dty, fresh("tmp"))))
    return out

def m_noop(an, st, args, dty, site, callee, t):
    return ret1(st, Enum("(tuple)", 0, {}))

def m_unwrap(an, st, args, dty, site, callee, t):
    a = args[0]
    if not isinstance(a, Enum): return m_opaque(an, st, args, dty, site, callee, t)
    some_d = 1 if a.adt.startswith("std::option::Option") else 0
    an.oblige(st, [eq(a.discr, some_d)], site, "unwrap", f"discr {a.discr} == {some_d}")
    st.C.add(eq(a.discr, some_d))
    return ret1(st, a.fields.get((some_d, 0), an.default_value(st, dty, fresh("tmp"))))

def m_result_map(an, st, args, dty, site, callee, t):
    a = args[0]
    if not isinstance(a, Enum): return m_opaque(an, st, args, dty, site, callee, t)
    # closure application: analyse closure body if local
    clo = args[1]
    out = []
    ok_d = 1 if a.adt.startswith("std::option::Option") else 0
    s1 = st.copy(); s1.C.add(eq(a.discr, ok_d))
    if not s1.C.infeasible():
        payload = a.fields.get((ok_d, 0), Unk())
        res = None
        if isinstance(clo, Enum) and clo.adt.startswith("(closure)"):
            key = clo.adt[len("(closure)"):]
            if key in an.fns:
                for s2, rv in an.analyze(key, [clo, payload], s1):
                    out.append((s2, Enum(dty.get("adt", a.adt), ok_d, {(ok_d, 0): rv})))
                res = True
        if res is None:
            out.append((s1, Enum(dty.get("adt", a.adt), ok_d, {})))
    s0 = st.copy(); s0.C.add(eq(a.discr, 1 - ok_d))
    if not s0.C.infeasible(): out.append((s0, Enum(dty.get("adt", a.adt), 1 - ok_d, {})))
    return out

def m_range_into_iter(an, st, args, dty, site, callee, t):
    return ret1(st, args[0])

def m_range_next(an, st, args, dty, site, callee, t):
    r = args[0]
    if not isinstance(r, Ref): raise Unmodelled("range next non-ref")
    v = st.mem.get(r.loc)
    if not isinstance(v, Enum): return m_opaque(an, st, args, dty, site, callee, t)
    a = an.as_int(st, v.fields[(0, 0)]); b = an.as_int(st, v.fields[(0, 1)])
    out = []
    s1 = st.copy(); s1.C.add(lt(a, b))
    if not s1.C.infeasible():
        s1.mem[r.loc] = Enum(v.adt, 0, {(0, 0): Int(a + 1), (0, 1): Int(b)})
        out.append((s1, Enum("std::option::Option", 1, {(1, 0): Int(a)})))
    s0 = st.copy(); s0.C.add(ge(a, b))
    if not s0.C.infeasible(): out.append((s0, Enum("std::option::Option", 0, {})))
    return out

def m_enum_cmp(op):
    def h(an, st, args, dty, site, callee, t):
        vals = []
        for r in args:
            v = an.load(st, ("loc", r.loc), None) if isinstance(r, Ref) else r
            vals.append(v)
        if all(isinstance(v, Enum) for v in vals):
            return ret1(st, Bool("cmp", op=op, l=vals[0].discr, r=vals[1].discr))
        return ret1(st, Bool("unk"))
    return h

def m_discr_value(an, st, args, dty, site, callee, t):
    r = args[0]
    v = an.load(st, ("loc", r.loc), None) if isinstance(r, Ref) else r
    if isinstance(v, Enum): return ret1(st, Int(v.discr))
    return m_opaque(an, st, args, dty, site, callee, t)

PROBES = []
TRUNC_OF = {}

def m_and_then(an, st, args, dty, site, callee, t):
    a, clo = args
    if not isinstance(a, Enum): return m_opaque(an, st, args, dty, site, callee, t)
    out = []
    s1 = st.copy(); s1.C.add(eq(a.discr, 1))
    if not s1.C.infeasible():
        done = False
        if isinstance(clo, Enum) and clo.adt.startswith("(closure)"):
            key = clo.adt[len("(closure)"):]
            if key in an.fns:
                for s2, rv in an.analyze(key, [clo, a.fields.get((1, 0), Unk())], s1):
                    out.append((s2, rv))
                done = True
        if not done: out.append((s1, an.default_value(s1, dty, fresh("tmp"))))
    s0 = st.copy(); s0.C.add(eq(a.discr, 0))
    if not s0.C.infeasible(): out.append((s0, Enum(a.adt, 0, {})))
    return out

def _apply_closure(an, st, clo, cargs, dty):
    """[(state, value)] of calling a closure value with the given (untupled) arguments; None when it is not a local closure"""
    if isinstance(clo, Enum) and clo.adt.startswith("(closure)"):
        key = clo.adt[len("(closure)"):]
        if key in an.fns:
            return list(an.analyze(key, [clo] + list(cargs), st))
    return None

def m_map_or(an, st, args, dty, site, callee, t):
    """Option::map_or(default, f) / Result::map_or(default, f)"""
    a, dflt, clo = args
    if not isinstance(a, Enum): return m_opaque(an, st, args, dty, site, callee, t)
    some_d = 1 if a.adt.startswith("std::option::Option") else 0
    out = []
    s1 = st.copy(); s1.C.add(eq(a.discr, some_d))
    if not s1.C.infeasible():
        r = _apply_closure(an, s1, clo, [a.fields.get((some_d, 0), Unk())], dty)
        if r is None: out.append((s1, an.default_value(s1, dty, fresh("tmp"))))
        else: out += r
    s0 = st.copy(); s0.C.add(eq(a.discr, 1 - some_d))
    if not s0.C.infeasible(): out.append((s0, dflt))
    return out

def m_map_or_else(an, st, args, dty, site, callee, t):
    a, dclo, clo = args
    if not isinstance(a, Enum): return m_opaque(an, st, args, dty, site, callee, t)
    some_d = 1 if a.adt.startswith("std::option::Option") else 0
    out = []
    s1 = st.copy(); s1.C.add(eq(a.discr, some_d))
    if not s1.C.infeasible():
        r = _apply_closure(an, s1, clo, [a.fields.get((some_d, 0), Unk())], dty)
        if r is None: out.append((s1, an.default_value(s1, dty, fresh("tmp"))))
        else: out += r
    s0 = st.copy(); s0.C.add(eq(a.discr, 1 - some_d))
    if not s0.C.infeasible():
        r = _apply_closure(an, s0, dclo, [] if some_d == 1 else [a.fields.get((1, 0), Unk())], dty)
        if r is None: out.append((s0, an.default_value(s0, dty, fresh("tmp"))))
        else: out += r
    return out

def m_max(an, st, args, dty, site, callee, t):
    a, b = args
    if isinstance(a, Int) and isinstance(b, Int):
        r = st.fresh_int(dty, "max"); st.C.add(ge(r.e, a.e)); st.C.add(ge(r.e, b.e)); st.C.add(le(r.e, a.e + b.e)) if int_range(dty)[0] == 0 else None
        return ret1(st, r)
    return m_opaque(an, st, args, dty, site, callee, t)

def m_min(an, st, args, dty, site, callee, t):
    a, b = args
    if isinstance(a, Int) and isinstance(b, Int):
        r = st.fresh_int(dty, "min"); st.C.add(le(r.e, a.e)); st.C.add(le(r.e, b.e))
        return ret1(st, r)
    return m_opaque(an, st, args, dty, site, callee, t)

def _array_len(t):
    """N of the `[T; N]` behind the receiver of an array Index call, read from the MIR type of the argument"""
    try:
        ty = t["args"][0]["place"]["ty"]
        while ty.get("k") in ("ref", "ptr"): ty = ty["to"]
        if ty.get("k") == "array":
            import re as _re
            m = _re.match(r"(\d+)", str(ty.get("n", "")))
            if m: return int(m.group(1))
    except Exception:
        pass
    return None

def m_array_index(an, st, args, dty, site, callee, t):
    # [T; N][range] -> slice view; N comes from the array type, so constant ranges are checked exactly
    base = "obj@" + site.split(" <= ")[0] + ":arr"; n = fresh("len"); st.C.add(ge(n, 0)); st.C.add(le(n, ISIZE_MAX)); st.mem[base + "#len"] = Int(n)
    idx = args[1]
    N = _array_len(t)
    if isinstance(idx, Enum) and idx.adt == "std::ops::RangeTo":
        e = an.as_int(st, idx.fields[(0, 0)])
        if N is not None: an.oblige(st, [le(e, N)], site, "range_to", f"{e} <= {N}")
        st.C.add(eq(n, e))
    elif isinstance(idx, Enum) and idx.adt == "std::ops::Range":
        a_, b_ = an.as_int(st, idx.fields[(0, 0)]), an.as_int(st, idx.fields[(0, 1)])
        an.oblige(st, [le(a_, b_)], site, "range", f"{a_} <= {b_}")
        if N is not None: an.oblige(st, [le(b_, N)], site, "range", f"{b_} <= {N}")
        st.C.add(eq(n, b_ - a_))
    elif isinstance(idx, Enum) and idx.adt == "std::ops::RangeFrom" and N is not None:
        a_ = an.as_int(st, idx.fields[(0, 0)])
        an.oblige(st, [le(a_, N)], site, "range_from", f"{a_} <= {N}")
        st.C.add(eq(n, lin(N) - a_))
    elif isinstance(idx, Enum) and idx.adt == "std::ops::RangeFull" and N is not None:
        st.C.add(eq(n, N))
    elif N is not None:
        st.C.add(le(n, N))
    return ret1(st, Slice(base, 0, n))

def m_chunks(exact):
    def h(an, st, args, dty, site, callee, t):
        s = an.as_slice(st, args[0]); n = an.as_int(st, args[1])
        an.oblige(st, [ge(n, 1)], site, "chunks", f"chunk size {n} != 0")
        return ret1(st, Enum("(chunks_exact)" if exact else "(chunks)", 0, {(0, 0): s, (0, 1): Int(n)}))
    return h

def m_chunks_next(an, st, args, dty, site, callee, t):
    r = args[0]
    v = st.mem.get(r.loc) if isinstance(r, Ref) else None
    if not isinstance(v, Enum) or v.adt not in ("(chunks)", "(chunks_exact)"): raise Unmodelled("chunks next on " + str(v))
    s = v.fields[(0, 0)]; n = an.as_int(st, v.fields[(0, 1)])
    out = []
    s1 = st.copy(); ln = fresh("len"); s1.C.add(le(ln, n)); s1.C.add(le(ln, s.ln))
    s1.C.add(ge(ln, 1) if v.adt == "(chunks)" else eq(ln, n))
    base = fresh("obj"); s1.mem[base + "#len"] = Int(ln)
    if not s1.C.infeasible(): out.append((s1, Enum("std::option::Option", 1, {(1, 0): Slice(base, 0, ln)})))
    out.append((st.copy(), Enum("std::option::Option", 0, {})))
    return out

def m_refmut_iter_next(an, st, args, dty, site, callee, t):
    """<&mut I as Iterator>::next: forward to the iterator behind the reference"""
    r = args[0]
    inner = st.mem.get(r.loc) if isinstance(r, Ref) else None
    if isinstance(inner, Ref):
        v = st.mem.get(inner.loc)
        if isinstance(v, Enum) and v.adt in ("(chunks)", "(chunks_exact)"):
            return m_chunks_next(an, st, [inner], dty, site, callee, t)
        if isinstance(v, Enum) and v.adt in ("(sliceiter)", "(enumerate)"):
            return m_iter_next(an, st, [inner], dty, site, callee, t)
    raise Unmodelled("next through &mut on " + str(inner))

def m_chunks_remainder(an, st, args, dty, site, callee, t):
    r = args[0]
    v = st.mem.get(r.loc) if isinstance(r, Ref) else None
    if not isinstance(v, Enum) or v.adt != "(chunks_exact)": raise Unmodelled("remainder on " + str(v))
    n = an.as_int(st, v.fields[(0, 1)])
    ln = fresh("len"); st.C.add(ge(ln, 0)); st.C.add(le(ln, n - 1))
    base = fresh("obj"); st.mem[base + "#len"] = Int(ln)
    return ret1(st, Slice(base, 0, ln))

def m_as_ref(an, st, args, dty, site, callee, t):
    r = args[0]
    if not isinstance(r, Ref): raise Unmodelled("as_ref of non-ref")
    v = an.load(st, ("loc", r.loc), None) if (r.loc in st.mem or (r.loc + "#ty") in st.mem) else None
    if not isinstance(v, Enum):
        v = an.init_value(st, {"k": "adt", "adt": "std::option::Option", "s": "std::option::Option<?>"}, r.loc)
        st.mem[r.loc] = v
    return ret1(st, Enum("std::option::Option", v.discr, {(1, 0): Ref(r.loc + ".0")}))

def m_vec_grow(delta_of):
    def h(an, st, args, dty, site, callee, t):
        r = args[0]
        if not isinstance(r, Ref): raise Unmodelled("vec op on non-ref")
        n = an.seq_len(st, r)
        d = delta_of(an, st, args)
        st.mem[r.loc + "#len"] = Int(n + d)
        return ret1(st, Enum("(tuple)", 0, {}))
    return h

def _d_slice(an, st, args):
    a = args[1]
    if isinstance(a, (Slice, Ref)):
        try: return an.seq_len(st, a) if isinstance(a, Ref) else a.ln
        except Unmodelled: pass
    s = fresh("grow"); st.C.add(ge(s, 0)); return lin(s)

def m_vec_new(an, st, args, dty, site, callee, t):
    return ret1(st, VecVal(0))

def m_to_owned(an, st, args, dty, site, callee, t):
    return ret1(st, VecVal(an.as_slice(st, args[0]).ln))

def m_write(nbytes):
    def h(an, st, args, dty, site, callee, t):
        s = an.as_slice(st, args[0])
        an.oblige(st, [ge(s.ln, nbytes)], site, "write_u%d" % (8 * nbytes), f"{s.ln} >= {nbytes}")
        val = args[1].e if isinstance(args[1], Int) else None
        try: total = an.seq_len(st, Ref(s.base))
        except Unmodelled: total = None
        if an.record: PROBES.append(dict(site=site, kind="write_u%d" % (8 * nbytes), base=s.base, off=s.off, val=val, total=total, C=st.C.copy()))
        return ret1(st, Enum("(tuple)", 0, {}))
    return h

def m_copy_from_slice(an, st, args, dty, site, callee, t):
    d = an.as_slice(st, args[0]); s = an.as_slice(st, args[1])
    an.oblige(st, [eq(d.ln, s.ln)], site, "copy_from_slice", f"{d.ln} == {s.ln}")
    return ret1(st, Enum("(tuple)", 0, {}))

def m_ok_or(an, st, args, dty, site, callee, t):
    a = args[0]
    if not isinstance(a, Enum): return m_opaque(an, st, args, dty, site, callee, t)
    out = []
    s1 = st.copy(); s1.C.add(eq(a.discr, 1))
    if not s1.C.infeasible(): out.append((s1, Enum("std::result::Result", 0, {(0, 0): a.fields.get((1, 0), Unk())})))
    s0 = st.copy(); s0.C.add(eq(a.discr, 0))
    if not s0.C.infeasible(): out.append((s0, Enum("std::result::Result", 1, {})))
    return out

def m_slice_iter(an, st, args, dty, site, callee, t):
    s = an.as_slice(st, args[0])
    return ret1(st, Enum("(sliceiter)", 0, {(0, 0): s, (0, 1): Int(0)}))

def m_enumerate(an, st, args, dty, site, callee, t):
    return ret1(st, Enum("(enumerate)", 0, {(0, 0): args[0], (0, 1): Int(0)}))

def _iter_next(an, st, itv, site):
    """returns list of (state, new_iter, item or None)"""
    s = itv.fields[(0, 0)]; pos = an.as_int(st, itv.fields[(0, 1)])
    out = []
    s1 = st.copy(); s1.C.add(lt(pos, s.ln))
    if not s1.C.infeasible():
        cell = f"{s.base}@[{s.off + pos}]"
        s1.mem.setdefault(cell + "#ty", {"k": "int", "bits": 8, "signed": False})
        out.append((s1, Enum("(sliceiter)", 0, {(0, 0): s, (0, 1): Int(pos + 1)}), Ref(cell)))
    s0 = st.copy(); s0.C.add(ge(pos, s.ln))
    if not s0.C.infeasible(): out.append((s0, itv, None))
    return out

def m_iter_next(an, st, args, dty, site, callee, t):
    r = args[0]
    if not isinstance(r, Ref): raise Unmodelled("iter next on non-ref")
    v = st.mem.get(r.loc)
    if not isinstance(v, Enum): raise Unmodelled(f"iter next on {v}")
    out = []
    if v.adt == "(sliceiter)":
        for s2, nv, item in _iter_next(an, st, v, site):
            s2.mem[r.loc] = nv
            out.append((s2, Enum("std::option::Option", 1, {(1, 0): item}) if item is not None else Enum("std::option::Option", 0, {})))
        return out
    if v.adt == "(enumerate)":
        inner = v.fields[(0, 0)]; cnt = an.as_int(st, v.fields[(0, 1)])
        for s2, nv, item in _iter_next(an, st, inner, site):
            if item is not None:
                s2.mem[r.loc] = Enum("(enumerate)", 0, {(0, 0): nv, (0, 1): Int(cnt + 1)})
                out.append((s2, Enum("std::option::Option", 1, {(1, 0): Enum("(tuple)", 0, {(0, 0): Int(cnt), (0, 1): item})})))
            else:
                out.append((s2, Enum("std::option::Option", 0, {})))
        return out
    raise Unmodelled("iter next on " + v.adt)

def m_vec_resize(an, st, args, dty, site, callee, t):
    r = args[0]
    st.mem[r.loc + "#len"] = Int(an.as_int(st, args[1]))
    return ret1(st, Enum("(tuple)", 0, {}))

def m_vec_truncate(an, st, args, dty, site, callee, t):
    r = args[0]; n = an.as_int(st, args[1]); cur = an.seq_len(st, r)
    out = []
    s1 = st.copy(); s1.C.add(le(n, cur))
    if not s1.C.infeasible():
        s1.mem[r.loc + "#len"] = Int(n); out.append((s1, Enum("(tuple)", 0, {})))
    s2 = st.copy(); s2.C.add(gt(n, cur))
    if not s2.C.infeasible(): out.append((s2, Enum("(tuple)", 0, {})))
    return out

def m_copy_within(an, st, args, dty, site, callee, t):
    s = an.as_slice(st, args[0]); rng = args[1]; dest = an.as_int(st, args[2])
    if isinstance(rng, Enum) and rng.adt == "std::ops::Range":
        a = an.as_int(st, rng.fields[(0, 0)]); b = an.as_int(st, rng.fields[(0, 1)])
    elif isinstance(rng, Enum) and rng.adt == "std::ops::RangeFrom":
        a = an.as_int(st, rng.fields[(0, 0)]); b = s.ln
    else: raise Unmodelled("copy_within range")
    an.oblige(st, [le(a, b)], site, "copy_within: src.start <= src.end", f"{a} <= {b}")
    an.oblige(st, [le(b, s.ln)], site, "copy_within: src.end <= len", f"{b} <= {s.ln}")
    an.oblige(st, [le(dest + (b - a), s.ln)], site, "copy_within: dest + count <= len", f"{dest} + {b - a} <= {s.ln}")
    return ret1(st, Enum("(tuple)", 0, {}))

def m_panic(an, st, args, dty, site, callee, t):
    an.oblige(st, [Con(lin(-1), "ge")], site, "panic", callee["path"])
    return []

def m_any(an, st, args, dty, site, callee, t):
    return ret1(st, Bool("unk"))

def m_all_any(an, st, args, dty, site, callee, t):
    """Iterator::all / any with a local closure over a Range<usize>: the verdict stays unknown, but the closure body is analysed once
    for a generic element start <= j < end (its potential panics and probes are seen in the caller's terms)."""
    r, clo = (args + [None, None])[:2]
    rng = st.mem.get(r.loc) if isinstance(r, Ref) else r
    if isinstance(rng, Enum) and rng.adt.startswith("std::ops::Range") and isinstance(clo, Enum) and clo.adt.startswith("(closure)") \
            and clo.adt[len("(closure)"):] in an.fns and isinstance(rng.fields.get((0, 0)), Int) and isinstance(rng.fields.get((0, 1)), Int):
        out = []
        s1 = st.copy()
        j = s1.fresh_int({"k": "int", "bits": 64, "signed": False}, "j")
        s1.C.add(ge(j.e, rng.fields[(0, 0)].e)); s1.C.add(lt(j.e, rng.fields[(0, 1)].e))
        if not s1.C.infeasible():
            ck = clo.adt[len("(closure)"):]
            env = clo
            if an.fns[ck]["locals"][1].get("k") == "ref":     # FnMut / Fn: the body receives a reference to the closure
                cell = fresh("obj")
                s1.mem[cell] = clo
                env = Ref(cell)
            for s2, rv in an.analyze(ck, [env, j], s1):
                out.append((s2, Bool("unk")))
        s0 = st.copy()
        out.append((s0, Bool("unk")))
        return out
    return ret1(st, Bool("unk"))

def m_checked_arith(an, st, args, dty, site, callee, t):
    """uN::checked_add / checked_sub: Some(exact result) when it fits the type, None otherwise"""
    path = callee.get("resolved") or callee.get("path") or ""
    op = path.rsplit("::", 1)[-1]
    a, b = (args + [None, None])[:2]
    if not (isinstance(a, Int) and isinstance(b, Int)) or op not in ("checked_add", "checked_sub"):
        return m_opaque(an, st, args, dty, site, callee, t)
    ity = None
    try:
        ity = t["args"][0].get("ty") or t["args"][0].get("place", {}).get("ty")
    except Exception:
        pass
    lo, hi = int_range(ity) if isinstance(ity, dict) and ity.get("k") == "int" else (0, (1 << 64) - 1)
    r = a.e + b.e if op == "checked_add" else a.e - b.e
    adt = dty.get("adt", "std::option::Option")
    out = []
    s1 = st.copy(); s1.C.add(ge(r, lo)); s1.C.add(le(r, hi))
    if not s1.C.infeasible(): out.append((s1, Enum(adt, 1, {(1, 0): Int(r)})))
    if op == "checked_add":
        s0 = st.copy(); s0.C.add(ge(r, hi + 1))
    else:
        s0 = st.copy(); s0.C.add(le(r, lo - 1))
    if not s0.C.infeasible(): out.append((s0, Enum(adt, 0, {})))
    return out

MODELS = {
    "std::vec::Vec::<T, A>::len": m_len,
    "std::vec::Vec::<T, A>::is_empty": m_is_empty,
    "core::slice::<impl [T]>::is_empty": m_is_empty,
    "core::slice::<impl [T]>::len": m_len,
    "<std::vec::Vec<T, A> as std::ops::Deref>::deref": m_deref_vec,
    "<std::vec::Vec<T, A> as std::ops::Index<I>>::index": m_index,
    "core::slice::index::<impl std::ops::Index<I> for [T]>::index": m_index,
    "<byteorder::BigEndian as byteorder::ByteOrder>::read_u16": m_read(2),
    "<byteorder::BigEndian as byteorder::ByteOrder>::read_u32": m_read(4),
    "std::mem::replace": m_replace,
    "<std::result::Result<T, E> as std::ops::Try>::branch": m_try_branch,
    "<std::option::Option<T> as std::ops::Try>::branch": m_try_branch,
    "<std::result::Result<T, F> as std::ops::FromResidual<std::result::Result<std::convert::Infallible, E>>>::from_residual": m_from_residual,
    "<std::option::Option<T> as std::ops::FromResidual<std::option::Option<std::convert::Infallible>>>::from_residual": m_from_residual,
    "std::option::Option::<T>::is_some": m_opt_is(True),
    "std::option::Option::<T>::is_none": m_opt_is(False),
    "std::option::Option::<T>::or": m_opt_or,
    "std::option::Option::<T>::unwrap_or": m_unwrap_or,
    "std::option::Option::<T>::as_deref": m_as_deref,
    "std::result::Result::<T, E>::unwrap_or": m_unwrap_or,
    "std::option::Option::<T>::unwrap": m_unwrap,
    "std::option::Option::<T>::unwrap_or_else": m_unwrap_or_else,
    "std::vec::Vec::<T, A>::reserve": m_noop,
    "std::vec::Vec::<T, A>::shrink_to_fit": m_noop,
    "std::result::Result::<T, E>::map": m_result_map,
    "std::option::Option::<T>::map": m_result_map,
    "<I as std::iter::IntoIterator>::into_iter": m_range_into_iter,
    "std::iter::range::<impl std::iter::Iterator for std::ops::Range<A>>::next": m_range_next,
    "core::slice::<impl [T]>::iter": m_slice_iter,
    "core::slice::iter::<impl std::iter::IntoIterator for &'a [T]>::into_iter": m_slice_iter,
    "std::slice::iter::<impl std::iter::IntoIterator for &'a [T]>::into_iter": m_slice_iter,
    "std::iter::Iterator::enumerate": m_enumerate,
    "<std::iter::Enumerate<I> as std::iter::Iterator>::next": m_iter_next,
    "<std::slice::Iter<'a, T> as std::iter::Iterator>::next": m_iter_next,
    "<std::slice::Iter<'a, T> as std::iter::Iterator>::any": m_any,
    "std::iter::Iterator::all": m_all_any,
    "std::option::Option::<T>::and_then": m_and_then,
    "std::cmp::max": m_max,
    "std::cmp::min": m_min,
    "std::cmp::Ord::min": m_min,
    "std::cmp::Ord::max": m_max,
    "std::array::<impl std::ops::Index<I> for [T; N]>::index": m_array_index,
    "std::array::<impl std::ops::IndexMut<I> for [T; N]>::index_mut": m_array_index,
    "std::iter::Iterator::any": m_any,
    "std::option::Option::<T>::as_ref": m_as_ref,
    "std::option::Option::<T>::as_mut": m_as_ref,
    "std::vec::Vec::<T, A>::extend_from_slice": m_vec_grow(_d_slice),
    "<std::vec::Vec<T, A> as std::iter::Extend<&'a T>>::extend": m_vec_grow(_d_slice),
    "std::vec::Vec::<T, A>::push": m_vec_grow(lambda an, st, args: lin(1)),
    "std::vec::Vec::<T>::new": m_vec_new,
    "std::vec::Vec::<T>::with_capacity": m_vec_new,
    "std::slice::<impl std::borrow::ToOwned for [T]>::to_owned": m_to_owned,
    "<std::vec::Vec<T, A> as std::ops::DerefMut>::deref_mut": m_deref_vec,
    "<std::vec::Vec<T, A> as std::ops::IndexMut<I>>::index_mut": m_index,
    "core::slice::index::<impl std::ops::IndexMut<I> for [T]>::index_mut": m_index,
    "<byteorder::BigEndian as byteorder::ByteOrder>::write_u16": m_write(2),
    "<byteorder::BigEndian as byteorder::ByteOrder>::write_u32": m_write(4),
    "core::slice::<impl [T]>::copy_from_slice": m_copy_from_slice,
    "core::slice::<impl [T]>::split_at": m_split_at,
    "core::slice::<impl [T]>::split_at_mut": m_split_at,
    "std::option::Option::<T>::expect": m_unwrap,
    "std::result::Result::<T, E>::unwrap": m_unwrap,
    "std::result::Result::<T, E>::expect": m_unwrap,
    "std::vec::Vec::<T, A>::resize": m_vec_resize,
    "std::vec::Vec::<T, A>::truncate": m_vec_truncate,
    "core::slice::<impl [T]>::copy_within": m_copy_within,
    "std::option::Option::<T>::ok_or": m_ok_or,
    "std::cmp::PartialEq::ne": m_enum_cmp("Ne"),
    "std::cmp::PartialEq::eq": m_enum_cmp("Eq"),
    "std::intrinsics::discriminant_value": m_discr_value,
    "core::intrinsics::discriminant_value": m_discr_value,
    "core::slice::<impl [T]>::chunks": m_chunks(False),
    "core::slice::<impl [T]>::chunks_exact": m_chunks(True),
    "<std::slice::Chunks<'a, T> as std::iter::Iterator>::next": m_chunks_next,
    "<std::slice::ChunksExact<'a, T> as std::iter::Iterator>::next": m_chunks_next,
    "core::slice::iter::ChunksExact::<'a, T>::remainder": m_chunks_remainder,
    "std::slice::ChunksExact::<'a, T>::remainder": m_chunks_remainder,
    "<&mut I as std::iter::Iterator>::next": m_refmut_iter_next,
    "core::array::<impl std::ops::Index<I> for [T; N]>::index": m_array_index,
    "core::array::<impl std::ops::IndexMut<I> for [T; N]>::index_mut": m_array_index,
    "std::option::Option::<T>::map_or": m_map_or,
    "std::option::Option::<T>::map_or_else": m_map_or_else,
    # read-only predicates / peeks on a slice: no panic, no effect, result unknown
    "core::slice::<impl [T]>::ends_with": m_opaque,
    "core::slice::<impl [T]>::starts_with": m_opaque,
    "core::slice::<impl [T]>::contains": m_opaque,
    "core::slice::<impl [T]>::last": m_opaque,
    "core::slice::<impl [T]>::first": m_opaque,
    "core::slice::<impl [u8]>::eq_ignore_ascii_case": m_opaque,
    "core::slice::ascii::<impl [u8]>::eq_ignore_ascii_case": m_opaque,
    "core::slice::ascii::<impl [u8]>::is_ascii": m_opaque,
    "core::slice::ascii::<impl [u8]>::make_ascii_uppercase": m_noop,
    "core::slice::ascii::<impl [u8]>::make_ascii_lowercase": m_noop,
    "std::str::from_utf8": m_opaque,
    "core::str::converts::from_utf8": m_opaque,
    "hex::decode": m_opaque,
    "core::panicking::panic": m_panic,
    "core::panicking::panic_fmt": m_panic,
    "core::panicking::assert_failed": m_panic,
}
PREFIX_MODELS = [
    ("std::convert::num::<impl std::convert::From<u", m_widen_from),
    ("core::convert::num::<impl std::convert::From<u", m_widen_from),
    ("anyhow::", m_opaque),
    ("<errors::DSError as anyhow::", m_opaque),
    ("<constants::Class as std::convert::Into", m_into_enum_const),
    ("<constants::Type as std::convert::Into", m_into_enum_const),
    ("<T as std::convert::Into<U>>::into", m_into_enum_const),
    ("chomp::", m_opaque),
    ("core::num::<impl u8>::checked_", m_checked_arith), ("core::num::<impl u16>::checked_", m_checked_arith), ("core::num::<impl u32>::checked_", m_checked_arith),
    ("core::num::<impl u64>::checked_", m_checked_arith), ("core::num::<impl usize>::checked_", m_checked_arith),
    ("core::num::", m_opaque),
    ("core::char::", m_opaque),
    ("std::net::", m_opaque),
    ("core::net::", m_opaque),
    ("<std::net::", m_opaque),
    ("std::fmt::", m_opaque),
    ("core::fmt::", m_opaque),
]


def load_facts():
    return json.load(open(glob.glob(os.environ.get("FACTS","/tmp/w/facts")+"/*.json")[0]))


def run(entry, setup):
    facts = load_facts()
    an = Analyzer(facts)
    st = State()
    args = setup(an, st)
    an.record = True
    OBLIGATIONS.clear(); UNMODELLED.clear()
    res = an.analyze(entry, args, st)
    return an, res


if __name__ == "__main__":
    entry = sys.argv[1]
    def setup(an, st):
        f = an.fns[entry]
        args = []
        for i in range(f["arg_count"]):
            ty = f["locals"][i + 1]
            args.append(an.default_value(st, ty, f"arg{i+1}", hint=f"arg{i+1}"))
        return args
    an, res = run(entry, setup)
    print("returns:")
    for s, v in res:
        print("  ", v)
        keep = an.live_atoms(s) | {a for a in s.C.atoms() if a.startswith("arg") or a.startswith("len")}
        sv = State(); sv.mem = {"r": v}
        keep = an.live_atoms(sv) | {a for a in s.C.atoms() if a.startswith("arg") or a.startswith("len")}
        print("     C:", s.C.project(keep))
    ok = sum(1 for o in OBLIGATIONS if o["ok"]); bad = [o for o in OBLIGATIONS if not o["ok"]]
    print(f"obligations: {len(OBLIGATIONS)} discharged {ok}")
    seen = set()
    for o in bad:
        k = (o["site"], o["kind"])
        if k in seen: continue
        seen.add(k)
        print("  OPEN", o["site"], o["kind"], o["detail"], o["cons"])
    for k, n in UNMODELLED.items(): print("  UNMODELLED", n, k)
