"""E0/E1: fact extraction (runs the mirfacts driver under cargo) and the
resolved-program view: functions, call graph, transitive effects.

Nothing in here executes dnssector code: `cargo +nightly check` only type-checks
and builds MIR, the driver dumps it as JSON.
"""
import collections
import glob
import json
import os
import shutil
import subprocess
import sys
import tempfile
import time

VERIF = os.path.dirname(os.path.dirname(os.path.abspath(__file__)))
DRIVER_DIR = os.path.join(VERIF, 'driver')
DRIVER = os.path.join(DRIVER_DIR, 'target', 'release', 'mirfacts')

CONFIGS = {
    # name: (rustflags, cargo args)
    'debug': ('-Zmir-opt-level=0 -Zalways-encode-mir -Cdebug-assertions=on -Coverflow-checks=on -Awarnings', []),
    'release': ('-Zmir-opt-level=0 -Zalways-encode-mir -Cdebug-assertions=off -Coverflow-checks=off -Awarnings', []),
    'hooks': ('-Zmir-opt-level=0 -Zalways-encode-mir -Cdebug-assertions=on -Coverflow-checks=on -Awarnings', ['--features', 'hooks']),
}


class ExtractionError(Exception):
    pass


def _sysroot_lib():
    out = subprocess.run(['rustc', '+nightly', '--print', 'sysroot'], capture_output=True, text=True)
    if out.returncode != 0:
        raise ExtractionError('nightly toolchain not available: ' + out.stderr.strip())
    return os.path.join(out.stdout.strip(), 'lib')


def ensure_driver():
    """Build the driver if it is missing or older than its source."""
    src = os.path.join(DRIVER_DIR, 'src', 'main.rs')
    if os.path.exists(DRIVER) and os.path.getmtime(DRIVER) >= os.path.getmtime(src):
        return
    env = dict(os.environ, CARGO_NET_OFFLINE='true')
    r = subprocess.run(['cargo', 'build', '--release', '--offline'], cwd=DRIVER_DIR, env=env,
                       capture_output=True, text=True)
    if r.returncode != 0 or not os.path.exists(DRIVER):
        raise ExtractionError('cannot build the mirfacts driver:\n' + r.stderr[-2000:])


def extract(repo, config='debug', crate='dnssector'):
    """Type-check `repo` under the driver and return the parsed fact document."""
    ensure_driver()
    flags, extra = CONFIGS[config]
    work = tempfile.mkdtemp(prefix='verif-facts-')
    try:
        out = os.path.join(work, 'out')
        tgt = os.path.join(work, 'target')
        os.makedirs(out)
        env = dict(os.environ)
        env.update({
            'MIRFACTS_OUT': out,
            'MIRFACTS_CRATES': crate,
            'LD_LIBRARY_PATH': _sysroot_lib() + ':' + env.get('LD_LIBRARY_PATH', ''),
            'RUSTFLAGS': flags,
            'RUSTC_WORKSPACE_WRAPPER': DRIVER,
            'CARGO_TARGET_DIR': tgt,
            'CARGO_NET_OFFLINE': 'true',
        })
        env.pop('RUSTC_WRAPPER', None)
        t0 = time.time()
        r = subprocess.run(['cargo', '+nightly', 'check', '--lib', '--offline'] + extra, cwd=repo, env=env,
                           capture_output=True, text=True)
        if r.returncode != 0:
            raise ExtractionError('cargo check failed on %s (%s):\n%s' % (repo, config, r.stderr[-3000:]))
        files = glob.glob(os.path.join(out, crate + '.*.json'))
        if len(files) != 1:
            raise ExtractionError('expected exactly one fact file, found %d (stale cargo cache?)' % len(files))
        with open(files[0]) as fh:
            doc = json.load(fh)
        doc['_extract_s'] = round(time.time() - t0, 2)
        doc['_config'] = config
        doc['_repo'] = repo
        return doc
    finally:
        shutil.rmtree(work, ignore_errors=True)


# ---------------------------------------------------------------------------
# small MIR helpers shared by all engines

def succ(b):
    t = b['term']
    k = t['k']
    if k == 'goto':
        return [t['target']]
    if k == 'switch':
        return [x[1] for x in t['targets']] + [t['otherwise']]
    if k in ('call', 'assert', 'drop'):
        return [t['target']] if t.get('target') is not None else []
    if k == 'other':
        return list(t.get('succ', []))
    return []


def call_path(t):
    """Resolved def-path of a direct call terminator (None for indirect calls)."""
    c = t['callee']
    if c['k'] != 'direct':
        return None
    return c.get('resolved') or c['path']


def call_trait_path(t):
    c = t['callee']
    return c.get('path') if c['k'] == 'direct' else None


def fields_of(place):
    """[(adt, field name)] for every field projection of a place, outermost last."""
    return [(p.get('adt'), p.get('name')) for p in place['proj'] if p['k'] == 'field']


def last_field(place):
    """(adt, name) of the innermost-to-the-value field projection (ignoring trailing derefs)."""
    for p in reversed(place['proj']):
        if p['k'] == 'field':
            return (p.get('adt'), p.get('name'))
        if p['k'] not in ('deref', 'downcast'):
            return None
    return None


def op_local(op):
    if op['k'] in ('copy', 'move'):
        return op['place']['local']
    return None


def op_const(op):
    if op['k'] == 'const' and 'val' in op:
        return op['val']
    return None


def blocks(f):
    """(index, block) for non-cleanup blocks."""
    for i, b in enumerate(f['blocks']):
        if not b['cleanup']:
            yield i, b


def stmts_and_term(b):
    for s in b['stmts']:
        yield s
    yield b['term']


def single_defs(f):
    """local -> ('rv', rvalue, at) | ('call', terminator, at) for locals assigned exactly once (whole place)."""
    cnt = collections.Counter()
    d = {}
    alld = collections.defaultdict(list)
    for i, b in blocks(f):
        for s in b['stmts']:
            if s['k'] == 'assign':
                if not s['place']['proj']:
                    cnt[s['place']['local']] += 1
                    d[s['place']['local']] = ('rv', s['rv'], s.get('at'))
                    alld[s['place']['local']].append(('rv', s['rv'], s.get('at')))
                elif s['place']['proj'][0]['k'] != 'deref':
                    cnt[s['place']['local']] += 2  # partially written: not single-def
        t = b['term']
        if t['k'] == 'call':
            if not t['dest']['proj']:
                cnt[t['dest']['local']] += 1
                d[t['dest']['local']] = ('call', t, t.get('at'))
                alld[t['dest']['local']].append(('call', t, t.get('at')))
            elif t['dest']['proj'][0]['k'] != 'deref':
                cnt[t['dest']['local']] += 2
    out = {k: v for k, v in d.items() if cnt[k] == 1}
    out['__all__'] = {k: v for k, v in alld.items() if cnt[k] == len(v) and 1 < len(v) <= 8}
    return out


def dominators(f):
    """Immediate-dominator-free simple dominator sets over non-cleanup blocks (bodies are small)."""
    idx = [i for i, _ in blocks(f)]
    preds = collections.defaultdict(set)
    for i, b in blocks(f):
        for m in succ(b):
            if not f['blocks'][m]['cleanup']:
                preds[m].add(i)
    allb = set(idx)
    dom = {i: set(allb) for i in idx}
    dom[0] = {0}
    changed = True
    while changed:
        changed = False
        for i in idx:
            if i == 0:
                continue
            ps = [dom[p] for p in preds[i] if p in dom]
            new = set.intersection(*ps) if ps else set()
            new = new | {i}
            if new != dom[i]:
                dom[i] = new
                changed = True
    return dom


def reachable_blocks(f, start=0, avoid=()):
    seen = set()
    todo = [start]
    while todo:
        n = todo.pop()
        if n in seen or n in avoid or f['blocks'][n]['cleanup']:
            continue
        seen.add(n)
        todo.extend(succ(f['blocks'][n]))
    return seen


def natural_loops(f):
    """{head block: set of blocks of the natural loop(s) with that head} (back edge a -> h with h dominating a)."""
    dom = dominators(f)
    preds = collections.defaultdict(set)
    for i, b in blocks(f):
        for m in succ(b):
            if not f['blocks'][m]['cleanup']:
                preds[m].add(i)
    loops = {}
    for i, b in blocks(f):
        for h in succ(b):
            if h in dom.get(i, ()) or h == i:
                body = loops.setdefault(h, {h})
                todo = [i]
                while todo:
                    n = todo.pop()
                    if n in body:
                        continue
                    body.add(n)
                    todo.extend(preds[n])
    return loops


PANIC_PREFIXES = ('core::panicking::', 'std::rt::begin_panic', 'core::option::expect_failed',
                  'core::result::unwrap_failed', 'core::option::unwrap_failed', 'std::rt::panic_fmt',
                  'core::slice::index::slice_', 'core::str::slice_error_fail')


def is_panic_path(p):
    return p is not None and p.startswith(PANIC_PREFIXES)


# ---------------------------------------------------------------------------

class Facts:
    def __init__(self, doc):
        from analysis import rename
        doc, self.renamed = rename.normalise(doc)     # a pure rename of a known function is undone (unique fingerprint match only)
        self.doc = doc
        self.config = doc.get('_config')
        self.fns = {f['key']: f for f in doc['fns']}
        self.bypath = collections.defaultdict(list)
        for f in doc['fns']:
            self.bypath[f['path']].append(f)
        self.adts = {a['path']: a for a in doc['adts']}
        self.statics = doc['statics']
        self.consts = {c['path']: c for c in doc['consts']}
        self.traits = {t['path']: t for t in doc['traits']}
        self._edges = None
        from analysis import inline
        self.inlined = inline.inline_new_helpers(self)   # {} on the pinned tree: only functions the tables do not know are spliced

    # ---- lookup ---------------------------------------------------------
    def fn(self, key):
        return self.fns.get(key)

    def instances(self, path):
        """All bodies for a def-path: the generic body and its per-impl instantiations."""
        return sorted(self.bypath.get(path, []), key=lambda f: f['key'])

    def inst_keys(self, path, concrete_only=True):
        fs = self.instances(path)
        ks = [f['key'] for f in fs if '@' in f['key']]
        if ks or concrete_only and any('@' in f['key'] for f in fs):
            return ks
        return [f['key'] for f in fs]

    def const_val(self, path):
        c = self.consts.get(path)
        return None if c is None else c.get('val')

    # ---- call graph -----------------------------------------------------
    def callee_keys(self, f, t):
        c = t['callee']
        if c['k'] != 'direct':
            return ['<indirect>']
        path = c.get('resolved') or c['path']
        cands = self.bypath.get(path) or self.bypath.get(c['path']) or []
        if not cands and t.get('_spliced') and (f.get('inst_self') or f.get('impl_self')) and '::' in path:
            # a generic helper spliced into an instantiated body: `T::method(x)` with T = the caller's Self
            me = f.get('inst_self') or f.get('impl_self')
            trait, method = path.rsplit('::', 1)
            for k in ('<%s as %s>::%s' % (me, trait, method), '%s@%s' % (path, me)):
                if k in self.fns:
                    return [k]
        if not cands and '::' in path:
            # a required trait method called on a generic receiver (no body under the trait's own path): class-hierarchy analysis
            trait, method = path.rsplit('::', 1)
            suffix = ' as %s>::%s' % (trait, method)
            impls = sorted(k for k in self.fns if k.endswith(suffix))
            if impls:
                return impls
        if not cands:
            return ['ext:' + path]
        if len(cands) == 1:
            return [cands[0]['key']]
        want = c.get('impl_self') or f.get('inst_self')
        # a default method called on Self inside an instantiated default method
        if f.get('inst_self'):
            ks = [x['key'] for x in cands if x.get('inst_self') == f['inst_self']]
            if ks:
                return ks[:1]
        ks = [x['key'] for x in cands if want is not None and (x.get('inst_self') == want or x.get('impl_self') == want)]
        if ks:
            return ks[:1]
        # default trait method called with a concrete receiver type: pick by the type in `full`
        full = c.get('resolved_full') or c.get('full') or ''
        ks = [x['key'] for x in cands if x.get('inst_self') and ('<' + x['inst_self'].split('<')[0]) in full.replace(' ', '')]
        if len(ks) == 1:
            return ks
        if c.get('resolved') is None:  # unresolved trait call: class-hierarchy analysis
            return sorted(x['key'] for x in cands if '@' in x['key']) or [cands[0]['key']]
        inst = sorted(x['key'] for x in cands if '@' in x['key'])
        if inst:
            return inst  # generic body shared by several impls: CHA
        return [cands[0]['key']]

    def closures_of(self, f):
        out = []
        for i, b in blocks(f):
            for s in b['stmts']:
                if s['k'] == 'assign' and s['rv']['k'] == 'aggregate' and s['rv'].get('agg') == 'closure':
                    out.append(s['rv']['def'])
        return out

    def fnitems_of(self, f):
        out = set()

        def walk(o):
            if isinstance(o, dict):
                if o.get('k') == 'const' and 'fn' in o:
                    out.add(o['fn'])
                for k, v in o.items():
                    if k != 'callee':
                        walk(v)
            elif isinstance(o, list):
                for v in o:
                    walk(v)
        for i, b in blocks(f):
            walk(b['stmts'])
            walk(b['term'].get('args', []))
        return out

    def out_edges(self, key):
        """(local callee keys, external leaves {path: [sites]}, indirect sites)."""
        f = self.fns[key]
        local = set()
        ext = collections.defaultdict(list)
        indirect = []
        for i, b in blocks(f):
            t = b['term']
            if t['k'] == 'call':
                for ck in self.callee_keys(f, t):
                    if ck == '<indirect>':
                        indirect.append(t.get('at'))
                    elif ck.startswith('ext:'):
                        ext[ck[4:]].append(t.get('at'))
                    else:
                        local.add(ck)
            elif t['k'] == 'drop':
                ty = t['place']['ty']
                if ty.get('k') == 'adt':
                    for g in self.bypath.get('<%s as std::ops::Drop>::drop' % ty['adt'], []):
                        local.add(g['key'])
        for c in self.closures_of(f):
            if c in self.fns:
                local.add(c)
        for p in self.fnitems_of(f):
            got = self.bypath.get(p)
            if got:
                insts = [x['key'] for x in got if '@' in x['key']]
                for k in (insts or [got[0]['key']]):
                    local.add(k)
            else:
                ext[p].append(f['at'])
        return local, ext, indirect

    def reach(self, entries, avoid=()):
        """Local bodies reachable from `entries` (never entering a body listed in `avoid`); external leaves and indirect call sites met on the way."""
        seen = set()
        todo = list(entries)
        ext = collections.defaultdict(set)
        indirect = []
        parent = {}
        while todo:
            k = todo.pop()
            if k in seen or k not in self.fns or k in avoid:
                continue
            seen.add(k)
            local, e, ind = self.out_edges(k)
            for p, sites in e.items():
                ext[p].add(k)
            for s in ind:
                indirect.append((k, s))
            for c in sorted(local):
                if c not in seen:
                    parent.setdefault(c, k)
                    todo.append(c)
        return seen, ext, indirect, parent

    def path_to(self, parent, key):
        out = [key]
        while out[-1] in parent:
            out.append(parent[out[-1]])
        return list(reversed(out))

    def has_cycle(self, keys):
        keys = set(keys)
        color = {}
        cyc = []

        def dfs(k, stack):
            color[k] = 1
            local, _, _ = self.out_edges(k)
            for c in sorted(local):
                if c not in keys:
                    continue
                if color.get(c) == 1:
                    cyc.append(stack + [k, c])
                elif c not in color:
                    dfs(c, stack + [k])
            color[k] = 2
        sys.setrecursionlimit(10000)
        for k in sorted(keys):
            if k not in color:
                dfs(k, [])
        return cyc


# ---------------------------------------------------------------------------
# value tracing through single-definition temporaries

def expr(f, defs, op, depth=10):
    """Symbolic description of an operand, looking through temporaries assigned exactly once.

    ('const', value|text) ('load', place) ('local', n) ('binop', op, l, r) ('unop', op, x) ('agg', adt, variant, [xs])
    ('cast', kind, x) ('ref', place) ('discr', place) ('call', path, [xs]) ('fn', path)
    """
    k = op.get('k')
    if k == 'const':
        if 'fn' in op:
            return ('fn', op['fn'])
        if 'val' in op:
            return ('const', op['val'])
        return ('const', op.get('dbg') or op.get('named') or op['ty'].get('s'))
    if k not in ('copy', 'move'):
        return ('unknown', str(op)[:60])
    pl = op['place']
    return expr_place(f, defs, pl, depth)


def expr_place(f, defs, pl, depth=10):
    loc = pl['local']
    if depth > 0 and loc in defs:
        d = defs[loc]
        if not pl['proj']:
            if d[0] == 'rv':
                return expr_rv(f, defs, d[1], depth - 1)
            t = d[1]
            return ('call', call_path(t) or '<indirect>', [expr(f, defs, a, depth - 1) for a in t['args']])
        # (x WithOverflow y).0
        if d[0] == 'rv' and d[1]['k'] == 'binop' and d[1]['op'].endswith('WithOverflow') and len(pl['proj']) == 1 \
                and pl['proj'][0]['k'] == 'field' and pl['proj'][0]['i'] == 0:
            return ('binop', d[1]['op'][:-len('WithOverflow')], expr(f, defs, d[1]['l'], depth - 1), expr(f, defs, d[1]['r'], depth - 1))
        # field of a locally built aggregate
        if d[0] == 'rv' and d[1]['k'] == 'aggregate' and len(pl['proj']) == 1 and pl['proj'][0]['k'] == 'field':
            i = pl['proj'][0]['i']
            if i < len(d[1]['ops']):
                return expr(f, defs, d[1]['ops'][i], depth - 1)
        # deref of a local that is a plain reborrow: (*_x) where _x = &(*_y).field...
        if d[0] == 'rv' and d[1]['k'] == 'ref' and pl['proj'] and pl['proj'][0]['k'] == 'deref':
            inner = d[1]['place']
            merged = {'local': inner['local'], 'proj': inner['proj'] + pl['proj'][1:], 'ty': pl['ty']}
            return expr_place(f, defs, merged, depth - 1)
        if d[0] == 'rv' and d[1]['k'] == 'use' and d[1]['x']['k'] in ('copy', 'move') and pl['proj']:
            inner = d[1]['x']['place']
            merged = {'local': inner['local'], 'proj': inner['proj'] + pl['proj'], 'ty': pl['ty']}
            return expr_place(f, defs, merged, depth - 1)
    if not pl['proj']:
        return ('local', loc)
    return ('load', pl)


def expr_rv(f, defs, rv, depth=10):
    k = rv['k']
    if k == 'use':
        return expr(f, defs, rv['x'], depth)
    if k == 'binop':
        return ('binop', rv['op'], expr(f, defs, rv['l'], depth), expr(f, defs, rv['r'], depth))
    if k == 'unop':
        return ('unop', rv['op'], expr(f, defs, rv['x'], depth))
    if k == 'aggregate':
        return ('agg', rv.get('adt') or rv.get('agg'), rv.get('variant'), [expr(f, defs, o, depth) for o in rv['ops']])
    if k == 'cast':
        return ('cast', rv.get('kind'), expr(f, defs, rv['x'], depth))
    if k in ('ref', 'rawptr'):
        return ('ref', rv['place'])
    if k == 'discr':
        return ('discr', rv['place'])
    return ('unknown', k)


def is_load_of(e, adt, field):
    """True iff expression `e` is a (possibly cast) load whose innermost field is adt.field."""
    while e[0] == 'cast':
        e = e[2]
    return e[0] == 'load' and last_field(e[1]) == (adt, field)


def expr_mentions_field(e, adt, field):
    if e[0] == 'load' or e[0] in ('ref', 'discr'):
        return (adt, field) in fields_of(e[1])
    for x in e[1:]:
        if isinstance(x, tuple) and expr_mentions_field(x, adt, field):
            return True
        if isinstance(x, list) and any(isinstance(y, tuple) and expr_mentions_field(y, adt, field) for y in x):
            return True
    return False


PLUMBING = ('as std::ops::Try>::branch', 'Option::<T>::ok_or', 'Option::<T>::unwrap', 'Option::<T>::expect', 'Result::<T, E>::unwrap',
            'Result::<T, E>::expect', 'Option::<T>::as_ref', 'Option::<T>::as_mut', 'Option::<T>::take', 'as std::convert::Into<U>>::into',
            'as std::convert::From<T>>::from', 'as std::clone::Clone>::clone', 'as std::ops::Deref>::deref', 'as std::ops::DerefMut>::deref_mut',
            'Option::<T>::unwrap_or', 'Option::<T>::copied', 'Option::<T>::cloned', 'as std::borrow::Borrow<T>>::borrow',
            'Vec::<T, A>::as_mut_slice', 'Vec::<T, A>::as_slice', 'Result::<T, E>::ok', 'as std::iter::IntoIterator>::into_iter',
            'std::iter::Iterator::by_ref')


def roots(f, defs, op, depth=16, _seen=None):
    """Where a value comes from, looking through copies, casts, projections and Option/Result plumbing.

    Returns a list of ('call', path, terminator) | ('load', place) | ('param', n) | ('const', v) | ('local', n) | ('agg', rv)
    """
    _seen = _seen if _seen is not None else set()
    k = op.get('k')
    if k == 'const':
        return [('const', op.get('val', op.get('dbg')))]
    if k not in ('copy', 'move'):
        return [('unknown', None)]
    return roots_place(f, defs, op['place'], depth, _seen)


def roots_place(f, defs, pl, depth=16, _seen=None):
    _seen = _seen if _seen is not None else set()
    loc = pl['local']
    has_field_on_deref = False
    # a load through a reference: (*_x).field -> the field of whatever _x points to
    if 1 <= loc <= f['arg_count'] and not any(p['k'] == 'field' for p in pl['proj']):
        return [('param', loc)]
    if any(p['k'] == 'field' and p.get('adt') not in (None, '(tuple)', '(closure)') and p.get('adt') not in
           ('std::result::Result', 'std::option::Option', 'std::ops::ControlFlow') for p in pl['proj']):
        return [('load', pl)]
    if depth <= 0 or loc in _seen:
        return [('local', loc)]
    d = defs.get(loc)
    if d is None:
        if 1 <= loc <= f['arg_count']:
            return [('param', loc)]
        multi = defs.get('__all__', {}).get(loc)
        if multi:
            out = []
            for dm in multi:
                out += _roots_def(f, defs, pl, dm, depth - 1, _seen | {loc})
            return out
        return [('local', loc)]
    _seen = _seen | {loc}
    return _roots_def(f, defs, pl, d, depth, _seen)


def _roots_def(f, defs, pl, d, depth, _seen):
    loc = pl['local']
    if d[0] == 'call':
        t = d[1]
        p = call_path(t) or ''
        if any(x in p for x in PLUMBING) and t['args']:
            return roots(f, defs, t['args'][0], depth - 1, _seen)
        return [('call', p, t)]
    rv = d[1]
    k = rv['k']
    if k == 'use' or k == 'cast':
        return roots(f, defs, rv['x'], depth - 1, _seen)
    if k in ('ref', 'rawptr'):
        return roots_place(f, defs, rv['place'], depth - 1, _seen)
    if k == 'aggregate':
        # tuple / Some(x): follow the projected component when the place names one, else all
        idx = [p['i'] for p in pl['proj'] if p['k'] == 'field']
        if idx and idx[0] < len(rv['ops']):
            return roots(f, defs, rv['ops'][idx[0]], depth - 1, _seen)
        out = []
        for o in rv['ops']:
            out += roots(f, defs, o, depth - 1, _seen)
        return out or [('agg', rv)]
    if k == 'binop':
        return roots(f, defs, rv['l'], depth - 1, _seen) + roots(f, defs, rv['r'], depth - 1, _seen)
    if k == 'unop':
        return roots(f, defs, rv['x'], depth - 1, _seen)
    return [('local', loc)]


def root_calls(rs):
    return [r[1] for r in rs if r[0] == 'call']


def unit_counters(f):
    """{local: {'init': k, 'dir': +1|-1, 'steps': [block index]}} for the locals of a body that are only ever assigned a constant
    (once) or their own value plus / minus one (checked or plain arithmetic): budgets and counters, whichever way they count."""
    writes = collections.defaultdict(list)
    for bi, b in blocks(f):
        for s in b['stmts']:
            if s['k'] == 'assign':
                writes[s['place']['local']].append((bi, s, bool(s['place']['proj'])))
        t = b['term']
        if t['k'] == 'call':
            writes[t['dest']['local']].append((bi, None, bool(t['dest']['proj'])))
    tmp = {}
    for l, ws in writes.items():
        if len(ws) == 1 and ws[0][1] is not None and not ws[0][2]:
            tmp[l] = ws[0][1]['rv']

    def _step_of(rv, c):
        """+1 / -1 when rv computes `c +/- 1`"""
        if rv['k'] == 'binop' and rv['op'].split('With')[0] in ('Add', 'Sub') and rv['l'].get('k') in ('copy', 'move') \
                and not rv['l']['place']['proj'] and rv['l']['place']['local'] == c and op_const(rv['r']) == 1:
            return 1 if rv['op'].startswith('Add') else -1
        return None
    # temporaries holding the result of `c.checked_add(1)` / `c.checked_sub(1)`: local -> (counter, +1 | -1)
    checked = {}
    for bi, b in blocks(f):
        t = b['term']
        if t['k'] == 'call' and not t['dest']['proj'] and len(t['args']) == 2 and op_const(t['args'][1]) == 1 \
                and t['args'][0].get('k') in ('copy', 'move') and not t['args'][0]['place']['proj']:
            p = call_path(t) or ''
            if p.startswith('core::num::') and p.endswith(('::checked_sub', '::checked_add')):
                src = t['args'][0]['place']['local']
                for _ in range(3):      # the receiver is usually a temporary copy of the counter
                    rv_ = tmp.get(src)
                    if rv_ is not None and rv_['k'] == 'use' and rv_['x'].get('k') in ('copy', 'move') and not rv_['x']['place']['proj']:
                        src = rv_['x']['place']['local']
                    else:
                        break
                checked[t['dest']['local']] = (src, -1 if p.endswith('sub') else 1)

    def _payload_of_checked(pl, c, depth=0):
        """+1 / -1 when the place is the Some payload of `c.checked_add/sub(1)` (possibly copied into a named local first)"""
        if depth > 3:
            return None
        if pl['local'] in checked and pl['proj'] and any(q['k'] == 'field' and q.get('i') == 0 for q in pl['proj']):
            cc, d = checked[pl['local']]
            return d if cc == c else None
        if not pl['proj'] and pl['local'] in tmp:
            rv = tmp[pl['local']]
            if rv['k'] == 'use' and rv['x'].get('k') in ('copy', 'move'):
                return _payload_of_checked(rv['x']['place'], c, depth + 1)
        return None
    out = {}
    for c, ws in writes.items():
        if c <= f['arg_count'] or len(ws) < 2 or any(w[1] is None or w[2] for w in ws):
            continue
        init, dirs, steps, ok = None, set(), [], True
        for bi, s, _ in ws:
            rv = s['rv']
            if rv['k'] == 'use' and rv['x'].get('k') == 'const' and isinstance(op_const(rv['x']), int):
                if init is not None:
                    ok = False
                init = op_const(rv['x'])
                continue
            d = _step_of(rv, c)
            if d is None and rv['k'] == 'use' and rv['x'].get('k') in ('copy', 'move'):
                pl = rv['x']['place']
                if len(pl['proj']) == 1 and pl['proj'][0]['k'] == 'field' and pl['proj'][0].get('i') == 0 and pl['local'] in tmp:
                    d = _step_of(tmp[pl['local']], c)
                elif not pl['proj'] and pl['local'] in tmp:
                    d = _step_of(tmp[pl['local']], c)
            if d is None and rv['k'] == 'use' and rv['x'].get('k') in ('copy', 'move'):
                d = _payload_of_checked(rv['x']['place'], c)
            if d is None:
                ok = False
                break
            dirs.add(d)
            steps.append(bi)
        if ok and init is not None and len(dirs) == 1 and steps:
            out[c] = {'init': init, 'dir': dirs.pop(), 'steps': steps}
    return out
