"""C18 — validation work is linear in the packet size.   (proof of loop bounds, E4 ranking)

Scope = the validator call tree of C01.  Every loop gets a strictly increasing measure from the relational abstract
interpreter (a {-1,0,+1}-combination of integer cells found automatically) together with its range:

  C18.walkers   every loop in a helper that the drivers call per record / per option (the two name walkers) has a CONSTANT
                iteration bound (e.g. name_len - refs_allowed in [-16, 255] => <= 272 iterations per walk)
  C18.drivers   the section loops of parse and the option loop of parse_opt advance a cursor bounded by the buffer length by a
                positive minimum step per iteration (>= 11 bytes per record, >= 4 per option), or have a constant bound
  C18.calls     the number of walker invocations per record is a constant (no loop in parse_rr / parse_question; call sites counted);
                every external callee reachable from the per-record functions (walkers excluded) is listed as constant-time in
                tables/extern_cost.json; the validator keeps no growable collection besides the packet

Both arithmetic configurations (overflow checks on / off) are ranked on every run, and a bound that is nothing but the range of the
counter's integer type is not accepted as a loop bound.

Together: steps <= a * len + b, printed in the evidence.  A walker whose best measure is only bounded by the buffer length
(a constant bound lost) makes the product quadratic and is reported.
"""
from analysis import facts as F
from analysis.e4 import E4

DS = 'dns_sector::DNSSector'
DRIVERS = {DS + '::parse', DS + '::parse_opt'}


def _slice_arg_bound(facts, key, limit=255):
    """largest length (<= limit) of the slice arguments handed to `key` over all its call sites, by E4 probes in each caller; None when
    some call site has no constant bound within the limit"""
    callers = set()
    for ck, cf in facts.fns.items():
        for _, b in F.blocks(cf):
            t = b['term']
            if t['k'] == 'call' and key in facts.callee_keys(cf, t):
                callers.add(ck)
    if not callers:
        return None
    worst = 0
    for ck in sorted(callers):
        e4c = E4(facts, probes=[(key.split('::', 1)[-1] if '::' in key else key, ck)], budget_s=200)
        try:
            e4c.summarize(ck)
        except Exception:  # noqa
            return None
        seen = False
        for p in e4c.probes():
            if p.get('kind') != 'call' or p['fn'] != ck or not (p['callee'] == key or p['callee'].endswith(key.split('::', 1)[-1])):
                continue
            lens = [v for v in (p.get('lens') or {}).values() if v is not None]
            if not lens:
                return None
            for ln in lens:
                lo, hi = p['C'].bounds(ln)
                if hi is None or hi > limit:
                    return None
                worst = max(worst, hi)
            seen = True
        if not seen:
            return None
    return worst


def run(ctx):
    # both arithmetic semantics on every run: with overflow checks a counter's own type range "bounds" a loop (the check panics
    # first); without them it wraps, and only a genuine measure survives
    for cfg in ['debug', 'release']:
        facts = ctx.facts(cfg)
        if facts.fn(DS + '::parse') is None:
            ctx.missing('C18.drivers', DS + '::parse')
            return
        e4 = E4(facts, keep_instates=True, budget_s=300)
        e4.summarize(DS + '::parse')
        for what, n in sorted(e4.unmodelled().items()):
            ctx.violation('C18.walkers', '<engine>', 'unmodelled:' + str(what)[:80], 'unmodelled construct in the validator scope: %s' % what, kind='undecided', config=cfg)
        walkers, drivers = [], []
        for key in e4.loop_functions():
            f = facts.fns[key]
            for r in e4.rank(key):
                hb, measure, text = r[0], r[1], r[2]
                info = r[3] if len(r) > 3 else None
                at = f['blocks'][hb]['term'].get('at') or f['at']
                if key in DRIVERS:
                    ok = info is not None and (info['kind'] == 'const' or (info['kind'] == 'len' and info['step'] >= 1))
                    drivers.append((key, at, info))
                    ctx.instance('C18.drivers', '%s loop at %s: measure %s; %s' % (key.split('::')[-1], at, measure, text), ok=ok, site=at)
                    if not ok:
                        ctx.violation('C18.drivers', key, 'loop#%d' % len(drivers), 'the driver loop at %s has no measure that advances by a positive minimum step within the buffer (%s): '
                                      'the number of records / options visited is not bounded by the packet length' % (at, text), site=at, config=cfg)
                else:
                    ok = info is not None and info['kind'] == 'const'
                    if info is not None and info['kind'] == 'slice-iter':
                        # one iteration per element of a slice: a constant bound if every caller hands over a slice of bounded length
                        bound = _slice_arg_bound(facts, key)
                        if bound is not None:
                            ok = True
                            info = dict(info, kind='const', iters=bound, text='one iteration per element of a slice of at most %d bytes (bound of the slice at every call site)' % bound)
                            text = info['text']
                    walkers.append((key, at, info))
                    ctx.instance('C18.walkers', '%s loop at %s: measure %s; %s' % (key.split('::')[-1], at, measure, text), ok=ok, site=at)
                    if not ok:
                        ctx.violation('C18.walkers', key, 'loop#%d' % len(walkers),
                                      'the loop at %s in %s, which runs once per name, has no constant iteration bound (%s): with up to len/11 records per packet the total work is no longer linear in the packet size'
                                      % (at, key, text), site=at, config=cfg)
        # the measures above are read off exact integer arithmetic.  Where overflow checks are off (release) an addition that can wrap
        # silently makes a "step of at least k" a step of possibly 0: every such addition in the validator scope must be shown not to wrap
        if getattr(e4.an, 'wrap_obligations', False):
            wraps = [o for o in e4.obligations() if 'wrap silently' in o.get('detail', '')]
            bad = [o for o in wraps if o.get('status') == 'open' or (o.get('status') == 'lifted' and o.get('ctx') == DS + '::parse')]
            seen_w = set()
            for o in bad:
                site_ = o['site'].split(' <= ')[0]
                if site_ in seen_w:
                    continue
                seen_w.add(site_)
                at_ = site_.split('@wrap:')[-1]
                ctx.violation('C18.drivers', site_.split('@')[0], 'wrap@' + site_.split('@')[0].split('::')[-1],
                              'without overflow checks the arithmetic at %s can wrap around for some packet: a cursor step computed from it can be 0 (or go backwards), '
                              'so the loops that advance by it are not bounded by the packet length' % at_, site=at_, config=cfg)
            ctx.instance('C18.drivers', 'release: %d additions / subtractions / multiplications in the validator scope shown not to wrap (the measures assume exact arithmetic)' % len(wraps),
                         ok=not bad, site=facts.fn(DS + '::parse')['at'])
        if len(walkers) < 2:
            ctx.violation('C18.walkers', '<floor>', 'walker loops', 'found %d per-name loops, expected the two name walkers' % len(walkers), kind='below-floor')
        if len(drivers) < 4:
            ctx.violation('C18.drivers', '<floor>', 'driver loops', 'found %d driver loops, expected 3 section loops + the option loop' % len(drivers), kind='below-floor')
        # walker invocations per record: no loop in the per-record functions, and a constant number of call sites
        per_record = [DS + '::parse_rr', DS + '::parse_question', DS + '::skip_name', DS + '::edns_skip_rr']
        calls = 0
        extra_entries = []
        for key in per_record:
            f = facts.fn(key)
            if f is None and key.endswith('::edns_skip_rr') and facts.fn(DS + '::parse_opt') is not None:
                # the tiny option-skipping helper has been folded into the option loop: its callees are classified from there
                extra_entries.append(DS + '::parse_opt')
                continue
            if f is None:
                ctx.missing('C18.calls', key)
                continue
            has_loop = key in e4.loop_functions()
            n = sum(1 for _, b in F.blocks(f) if b['term']['k'] == 'call' and any(x in (F.call_path(b['term']) or '') for x in ('check_compressed_name', 'check_uncompressed_name', 'skip_name')))
            calls = max(calls, n)
            ctx.instance('C18.calls', '%s: loop-free, %d name-walk call site(s)' % (key.split('::')[-1], n), ok=not has_loop, site=f['at'])
            if has_loop:
                ctx.violation('C18.calls', key, 'loop', '%s contains a loop: the number of name walks per record is no longer a constant' % key, site=f['at'], config=cfg)
        # nothing in the per-record work can cost more than a constant: every external callee reachable from the per-record functions
        # (walkers excluded) is in the table of constant-time operations
        import json as _json
        import os as _os
        with open(_os.path.join(F.VERIF, 'tables', 'extern_cost.json')) as fh:
            ctab = _json.load(fh)
        walkers_ = ('compress::Compress::check_compressed_name', DS + '::check_uncompressed_name')
        seen_, ext_, ind_, par_ = facts.reach([k for k in per_record if facts.fn(k) is not None] + extra_entries, avoid=walkers_)
        for p_ in sorted(ext_):
            okc = p_ in ctab['constant'] or p_.startswith(tuple(ctab.get('constant_prefix', [])))
            ctx.instance('C18.calls', 'per-record work calls %s: %s' % (p_, ctab['constant'].get(p_, 'not in tables/extern_cost.json')), ok=okc)
            if not okc:
                grow = any(p_.endswith(sfx) or (sfx + '::') in p_ for sfx in ctab['linear_or_growing_suffix'])
                who = sorted(ext_[p_])[0]
                ctx.violation('C18.calls', who, 'extern-cost:' + p_.split('::')[-1], 'the per-record part of the validator (%s) calls %s, %s: the cost of handling one record is no longer a constant'
                              % (who.split('::')[-1], p_, 'an operation whose cost or state grows with what was processed before' if grow else 'whose cost is not classified in tables/extern_cost.json'),
                              kind='rule-violated' if grow else 'undecided', site=facts.fns[who]['at'], config=cfg)
        for k_, s_ in ind_[:3]:
            ctx.violation('C18.calls', k_, 'indirect-call', 'indirect call in the per-record part of the validator at %s' % s_, kind='undecided', site=s_, config=cfg)
        # fields of the validator that per-record code can grow (a collection kept across records is a hidden re-scan in waiting)
        adt_ = facts.adts.get(DS, {})
        for fd in (adt_.get('variants') or [{}])[0].get('fields', []):
            tname = fd['ty'].get('adt', '')
            if tname.startswith(('std::vec::Vec', 'std::collections::')) and fd['name'] != 'packet':
                ctx.violation('C18.calls', DS, 'growing-field:' + fd['name'], 'DNSSector.%s is a %s kept across records: work that consults it depends on how many records came before' % (fd['name'], fd['ty'].get('s')),
                              site=adt_.get('at'), config=cfg)
        # the derived bound
        wc = max([i['iters'] for _, _, i in walkers if i and i['kind'] == 'const'] or [0])
        steps = [i['step'] for k, _, i in drivers if i and i['kind'] == 'len']
        rec_step = min(steps) if steps else None
        if wc and rec_step:
            per_rec = calls * (wc + 255) + 1
            ctx.extra['derived_bound'] = 'steps <= (len/%d + 1) * (%d walks * (%d iterations + 255 label bytes) + 1) + len/4 + const  =  O(len)' % (rec_step, calls, wc)
            ctx.sample({'config': cfg, 'walker_iteration_bound': wc, 'min_bytes_per_record': rec_step, 'walks_per_record_call_sites': calls,
                        'bound': ctx.extra['derived_bound']})
    ctx.trust('analysis/interp.py ranking search (post-fixpoint re-execution of each loop body) and analysis/lin.py')
    ctx.assume('the label-byte predicate (.iter().any()) costs at most one step per label byte; label bytes per name <= 255 by the name_len guard')
