"""E3 evaluation of hand-written or library byte comparisons: for which pairs of byte values (c1, c2) does a comparison step say
"different"?  The specification for DNS names is ASCII case-insensitive equality: different  <=>  lower(c1) != lower(c2).

Two shapes are supported:
  * a loop over two zipped byte iterators (`for (&c1, &c2) in a.iter().zip(b.iter())`): the region from the Some arm of Zip::next to the
    loop head is evaluated; "different" = the paths on which the function returns false inside the region;
  * a closure `|j| a[..j..].eq(..b[..j..])` returning bool: evaluated as a function, "different" = result false.
c2 is enumerated (256 concrete values), c1 is symbolic (8 Boolean variables), so every one of the 65 536 pairs is decided.
"""
from analysis import facts as F
from analysis.bits import BV, BF, Interp, EnumV, CellRef, Tup, View, Undecided, TOP, bf_table


def lower(x):
    return x + 32 if 65 <= x <= 90 else x


NAMES = ['c%d' % i for i in range(8)]


def _false_paths(results):
    acc = BF.const(0)
    for pc, r, m in results:
        if isinstance(r, BF) and r is not TOP and r.is_const() and not (r.tt & 1):
            acc = acc | pc
        elif isinstance(r, BF) and r is not TOP and not r.is_const():
            acc = acc | (pc & ~r)
        elif r is TOP:
            return TOP
    return acc


def zip_loop_table(facts, key):
    """{(c1, c2): different?} for the zipped byte loop of `key`, or (None, why)."""
    f = facts.fn(key)
    if f is None:
        return None, '%s not found' % key
    head = None
    for bi, b in F.blocks(f):
        t = b['term']
        if t['k'] == 'call' and (F.call_path(t) or '').endswith('Zip<A, B> as std::iter::Iterator>::next'):
            head, dest, nxt = bi, t['dest']['local'], t['target']
    if head is None:
        return None, 'no zipped byte loop (Zip::next) in %s' % key
    sw = f['blocks'][nxt]['term']
    some = next((tb for v, tb in sw.get('targets', []) if v == 1), None) if sw['k'] == 'switch' else None
    if some is None:
        return None, 'unexpected shape behind Zip::next in %s' % key
    user_ints = [l for l, nm in f['debug'] if f['locals'][l].get('k') == 'int']
    table = {}
    for c2 in range(256):
        verdicts = []
        for scen in (0, 1, 5):
            it = Interp(facts.fns, {})
            it.stop = {head}
            mem = {'B': [BV.sym('c', 8), BV.const(c2, 8)]}
            env = {dest: EnumV('std::option::Option', 1, [Tup([CellRef('B', 0), CellRef('B', 1)])])}
            for l in user_ints:
                env.setdefault(l, BV.const(scen, f['locals'][l].get('bits', 64)))
            results = []
            try:
                it._exec(f, some, env, mem, BF.const(1), results, 0)
            except Undecided as e:
                return None, 'comparison step of %s not evaluable: %s' % (key, e)
            except Exception as e:  # noqa
                return None, 'comparison step of %s not evaluable: %s: %s' % (key, type(e).__name__, e)
            diff = _false_paths(results)
            if diff is TOP:
                return None, 'comparison step of %s depends on untracked data' % key
            verdicts.append(bf_table(diff, NAMES))
        for c1 in range(256):
            vs = {c1 in v for v in verdicts}
            # "different" must not depend on the position inside the label, except that a mismatch can only be reported, never hidden
            table[(c1, c2)] = True if True in vs else False
            if len(vs) > 1:
                table[(c1, c2)] = None
    return table, None


def closure_table(facts, parent_key, closure_key, left_param, right_param):
    """{(c1, c2): different?} for a bool closure comparing one byte of parameter `left_param` with one of `right_param` of the parent."""
    f = facts.fn(parent_key)
    g = facts.fns.get(closure_key)
    if f is None or g is None:
        return None, 'closure %s not found' % closure_key
    defs = F.single_defs(f)
    ops = None
    for bi, b in F.blocks(f):
        for s in b['stmts']:
            if s['k'] == 'assign' and s['rv']['k'] == 'aggregate' and s['rv'].get('agg') == 'closure' and s['rv'].get('def') == closure_key:
                ops = s['rv']['ops']
    if ops is None:
        return None, 'closure aggregate not found in %s' % parent_key
    kinds = []
    for o in ops:
        d = defs.get(F.op_local(o))
        rs = F.roots_place(f, defs, d[1]['place']) if d and d[0] == 'rv' and d[1]['k'] == 'ref' else F.roots(f, defs, o)
        ty = (o.get('place') or {}).get('ty', {})
        is_buf = ty.get('k') == 'ref' and (ty.get('to', {}).get('k') == 'slice' or '[u8]' in ty.get('s', ''))
        if not is_buf:
            kinds.append('Z')
        elif any(r == ('param', left_param) or (r[0] == 'param' and str(r[1]) == str(left_param)) for r in rs):
            kinds.append('L')
        elif any(r[0] == 'param' and str(r[1]) == str(right_param) for r in rs):
            kinds.append('R')
        else:
            kinds.append('Z')
    if 'L' not in kinds or 'R' not in kinds:
        return None, 'closure %s does not capture both compared buffers (captures: %s)' % (closure_key, kinds)
    table = {}
    for c2 in range(256):
        it = Interp(facts.fns, {})
        mem = {'L': [BV.sym('c', 8)] * 4, 'R': [BV.const(c2, 8)] * 4, 'Z': [BV.const(0, 64)]}
        cap = Tup([View('L', 0) if k == 'L' else View('R', 0) if k == 'R' else CellRef('Z', 0) for k in kinds])
        try:
            r, _ = it.run(closure_key, [cap, BV.const(0, 64)], mem)
        except Undecided as e:
            return None, 'closure %s not evaluable: %s' % (closure_key, e)
        except Exception as e:  # noqa
            return None, 'closure %s not evaluable: %s: %s' % (closure_key, type(e).__name__, e)
        if not isinstance(r, BF) or r is TOP:
            return None, 'closure %s does not reduce to a Boolean function of the two bytes' % closure_key
        same = bf_table(r, NAMES)
        for c1 in range(256):
            table[(c1, c2)] = c1 not in same
    return table, None


def compare_with_spec(table):
    """[(c1, c2, got)] where the table disagrees with ASCII case-insensitive equality"""
    bad = []
    for (c1, c2), diff in sorted(table.items()):
        want = lower(c1) != lower(c2)
        if diff is None or diff != want:
            bad.append((c1, c2, diff))
    return bad
