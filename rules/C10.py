"""C10 — a failed operation changes nothing; the size limit holds (structural clauses).

  C10.a check-before-modify   in every listed mutating operation no path reaches an Err return after a destructive
                              event (packet replaced by anything but decompressor output, packet taken, buffer length
                              change, bytes or header/count overwritten, offset/summary fields stored).  Exceptions are
                              one (caller, callee) pair each, with a reason (tables/exceptions.json).
  C10.b size-test placement   in insert_rr the comparison against DNS_MAX_UNCOMPRESSED_SIZE is evaluated after the last
                              replacement of the packet and before the first growth of the buffer, on every path
                              (the test is made on the length the splice actually uses).  C10.b-arith (E4): no arithmetic of the
                              size test or the splice can overflow for any accepted packet, and the length handed to resize() is
                              provably <= 8192
  C10.c tombstone first       in set_raw_name, delete and resize_rr the `offset().ok_or(VoidRecord)?` test precedes every
                              destructive event on every path; in set_raw_name the name validation does too

Not decided: "still decodes to the same message" as a run-time equality.
"""
import json
import os

from analysis import facts as F
from analysis.cfg import PathFlow, Automaton
from analysis.pkt import PacketEvents, PP

RRI = 'rr_iterator::RRIterator'
OPS_PLAIN = ['parsed_packet::ParsedPacket::insert_rr', 'parsed_packet::ParsedPacket::insert_rr_from_string',
             'parsed_packet::ParsedPacket::rename_with_raw_names', 'parsed_packet::ParsedPacket::rrcount_inc',
             'parsed_packet::ParsedPacket::rrcount_dec']
OPS_TRAIT = ['rr_iterator::TypedIterable::set_raw_name', 'rr_iterator::TypedIterable::delete', 'rr_iterator::TypedIterable::resize_rr',
             'rr_iterator::RdataIterable::set_rr_ip', 'rr_iterator::DNSIterable::uncompress']
HARMLESS_FIELDS = {'cached'}   # dropping the cache never changes what the object decodes to
NORMALISERS = ('compress::Compress::uncompress', 'compress::Compress::uncompress_with_previous_offset')


def load_exceptions():
    with open(os.path.join(F.VERIF, 'tables', 'exceptions.json')) as fh:
        return json.load(fh)


class DirtyAu(Automaton):
    """state: None (clean) or a short description of the first destructive event on this path"""
    init = None

    def __init__(self, facts, pe, exceptions, used):
        self.facts = facts
        self.pe = pe
        self.exc = exceptions
        self.used = used
        self.defs = {}

    def _defs(self, f):
        if f['key'] not in self.defs:
            self.defs[f['key']] = F.single_defs(f)
        return self.defs[f['key']]

    def on_stmt(self, q, f, bi, s, env):
        if q is not None:
            return q
        for kind, site in self.pe.at(f['key'], s):
            if kind == 'replace':
                rs = F.roots(f, self._defs(f), s['rv']['x']) if s['rv']['k'] == 'use' else []
                if rs and all(r[0] == 'call' and r[1] in NORMALISERS for r in rs):
                    continue  # normalisation: same message, pointer-free bytes
                return 'packet replaced @' + site
            if kind in ('bytes', 'hdr', 'rdata'):
                return '%s overwritten @%s' % ({'bytes': 'packet bytes', 'hdr': 'header/count bytes', 'rdata': 'record bytes'}[kind], site)
        if s['k'] == 'assign':
            lf = F.last_field(s['place'])
            if lf and lf[0] == PP and lf[1] not in HARMLESS_FIELDS and lf[1] != 'packet':
                return 'ParsedPacket.%s stored @%s' % (lf[1], s['at'])
        return q

    def on_call(self, q, f, bi, t, env, flow):
        p = F.call_path(t) or ''
        base = f['key'].split('@')[0]
        for ex in self.exc.get('C10.a', []):
            if base.endswith(ex['caller']) and (p.endswith(ex['callee']) or (F.call_trait_path(t) or '').endswith(ex['callee'])):
                self.used.add(ex['caller'] + ' -> ' + ex['callee'])
                if ex['treat'] == 'infallible':
                    # keep only the successful outcomes of the callee
                    outs = []
                    for ck in self.facts.callee_keys(f, t):
                        if ck.startswith('ext:') or ck == '<indirect>':
                            continue
                        for (q2, kind) in flow.summary(ck, q):
                            if kind in ('Ok', 'ret', 'Some'):
                                outs.append((q2, 0 if kind == 'Ok' else 1 if kind == 'Some' else None))
                    return outs or [(q, 0)]
                if ex['treat'] == 'not-destructive':
                    outs = []
                    for ck in self.facts.callee_keys(f, t):
                        if ck.startswith('ext:') or ck == '<indirect>':
                            continue
                        cf = self.facts.fns[ck]
                        for (q2, kind) in flow.summary(ck, q):
                            outs.append((q, {'Ok': 0, 'Err': 1, 'None': 0, 'Some': 1}.get(kind)))
                    return outs or [(q, None)]
        if q is None:
            for kind, site in self.pe.at(f['key'], t):
                if kind in ('take', 'len', 'bytes', 'hdr', 'rdata', 'replace'):
                    q2 = '%s @%s' % ({'take': 'packet taken out of the object', 'len': 'buffer length changed', 'bytes': 'packet bytes overwritten',
                                       'hdr': 'header/count bytes overwritten', 'rdata': 'record bytes overwritten', 'replace': 'packet replaced'}[kind], site)
                    keys = [ck for ck in self.facts.callee_keys(f, t) if not ck.startswith('ext:') and ck != '<indirect>']
                    if not keys:
                        return [(q2, None)]
                    # a local helper that writes through a parameter: it cannot fail before writing in a way we track; keep its outcomes
                    outs = []
                    for ck in keys:
                        for (q3, kind2) in flow.summary(ck, q2):
                            outs.append((q3, {'Ok': 0, 'Err': 1, 'None': 0, 'Some': 1}.get(kind2)))
                    return outs
        return None


class SizeAu(Automaton):
    """0 = no valid size test yet, 1 = limit tested on the current buffer"""
    init = 0

    def __init__(self, facts, pe, limit):
        self.facts = facts
        self.pe = pe
        self.limit = limit
        self.defs = {}
        self.grow_unchecked = []

    def _defs(self, f):
        if f['key'] not in self.defs:
            self.defs[f['key']] = F.single_defs(f)
        return self.defs[f['key']]

    def on_stmt(self, q, f, bi, s, env):
        for kind, site in self.pe.at(f['key'], s):
            if kind == 'replace':
                q = 0
        return q

    def on_term(self, q, f, bi, t, env):
        if t['k'] == 'switch':
            e = F.expr(f, self._defs(f), t['discr'])
            if _mentions_const(e, self.limit) and e[0] == 'binop' and e[1] in ('Lt', 'Le', 'Gt', 'Ge'):
                return 1
        return q

    def on_call(self, q, f, bi, t, env, flow):
        for kind, site in self.pe.at(f['key'], t):
            if kind in ('take', 'replace'):
                return [(0, None)]
            if kind == 'len' and (F.call_path(t) or '').split('::')[-1] in ('resize', 'extend_from_slice', 'extend', 'push', 'insert', 'append', 'extend_from_within', 'resize_with'):
                if q != 1:
                    self.grow_unchecked.append((f['key'], t['at']))
        return None


def _mentions_const(e, v):
    if e[0] == 'const':
        return e[1] == v
    for x in e[1:]:
        if isinstance(x, tuple) and _mentions_const(x, v):
            return True
        if isinstance(x, list) and any(isinstance(y, tuple) and _mentions_const(y, v) for y in x):
            return True
    return False


class GuardAu(Automaton):
    """state (tested, validated, bad): VoidRecord test seen / name validated / set of complaints"""
    init = (False, False, frozenset())

    def __init__(self, facts, pe):
        self.facts = facts
        self.pe = pe
        self.defs = {}

    def _defs(self, f):
        if f['key'] not in self.defs:
            self.defs[f['key']] = F.single_defs(f)
        return self.defs[f['key']]

    def _destr(self, q, f, obj, site):
        tested, val, bad = q
        for kind, s2 in self.pe.at(f['key'], obj):
            if kind in ('len', 'bytes', 'hdr', 'take') or kind == 'replace' and not self._is_norm(f, obj):
                if not tested:
                    bad = bad | {'untested'}
                if not val:
                    bad = bad | {'unvalidated'}
        return (tested, val, bad)

    def _is_norm(self, f, s):
        if s.get('k') != 'assign' or s['rv']['k'] != 'use':
            return False
        rs = F.roots(f, self._defs(f), s['rv']['x'])
        return bool(rs) and all(r[0] == 'call' and r[1] in NORMALISERS for r in rs)

    def on_stmt(self, q, f, bi, s, env):
        return self._destr(q, f, s, s.get('at'))

    def on_call(self, q, f, bi, t, env, flow):
        tested, val, bad = q
        p = F.call_path(t) or ''
        if p in ('std::option::Option::<T>::ok_or', 'std::option::Option::<T>::expect', 'std::option::Option::<T>::unwrap'):
            rs = F.roots(f, self._defs(f), t['args'][0])
            if rs and all(r[0] == 'call' and (r[1].endswith('DNSIterable>::offset') or r[1] == 'rr_iterator::DNSIterable::offset') for r in rs):
                k0 = None
                a0 = t['args'][0]
                if a0['k'] in ('copy', 'move') and not a0['place']['proj']:
                    k0 = env.known.get(a0['place']['local'])
                if p.endswith('ok_or'):
                    outs = []
                    if k0 in (None, 1):
                        outs.append(((True, val, bad), 0))
                    if k0 in (None, 0):
                        outs.append(((tested, val, bad), 1))
                    return outs
                if not tested and k0 != 1:
                    bad = bad | {'tombstone-panics'}
                return [((True, val, bad), None)]
        if p.endswith('DNSSector::check_uncompressed_name'):
            return [((tested, True, bad), 0), ((tested, val, bad), 1)]
        q2 = self._destr(q, f, t, t.get('at'))
        if q2 != q:
            keys = [ck for ck in self.facts.callee_keys(f, t) if not ck.startswith('ext:') and ck != '<indirect>']
            if not keys:
                return [(q2, None)]
        return None


def _guard_on_edge(self, q, f, bi, t, value, target, env):
    """`match self.offset() { Some(..) => .., None => .. }` / `if self.offset().is_some()` count as the tombstone test on their Some edge."""
    tested, val, bad = q
    if tested:
        return q
    defs = self._defs(f)
    e = F.expr(f, defs, t['discr'])
    def is_off(rs):
        return bool(rs) and all(r[0] == 'call' and (r[1].endswith('DNSIterable>::offset') or r[1] == 'rr_iterator::DNSIterable::offset') for r in rs)
    some = None
    if e[0] == 'discr' and is_off(F.roots_place(f, defs, e[1])):
        some = (value == 1) if value is not None else None
        if value is None:
            some = not any(v == 1 for v, _ in t['targets'])
    elif e[0] == 'call' and e[1] in ('std::option::Option::<T>::is_some', 'std::option::Option::<T>::is_none') and e[2]:
        a = e[2][0]
        pl = a[1] if a[0] in ('ref', 'load') else None
        if pl is not None and is_off(F.roots_place(f, defs, pl)):
            truth = (value != 0) if value is not None else all(v == 0 for v, _ in t['targets'])
            some = truth if e[1].endswith('is_some') else not truth
    if some:
        return (True, val, bad)
    return q


GuardAu.on_edge = _guard_on_edge


COMPLAINTS = {'untested': 'a destructive event can happen before the `offset().ok_or(VoidRecord)` test: an operation on a deleted record\'s cursor would touch the packet',
              'unvalidated': 'a destructive event can happen before the new name has been validated',
              'tombstone-panics': 'the cursor offset is unwrapped (unwrap/expect) on a path where it has not been tested: on a deleted record\'s cursor the operation panics instead of reporting VoidRecord'}


def tombstone_rule(ctx, facts, cfg, pe, rid, ops, floor):
    gau = GuardAu(facts, pe)
    gflow = PathFlow(facts, gau)
    n = 0
    for p, need_val in ops:
        for key in facts.inst_keys(p):
            n += 1
            f = facts.fns[key]
            exits = gflow.summary(key, GuardAu.init)
            complaints = set()
            for (q, kind) in exits:
                complaints |= set(q[2])
            if not need_val:
                complaints.discard('unvalidated')
            ctx.instance(rid, '%s: tombstone test%s precede every destructive event and every unwrap of the cursor offset' % (key, ' and name validation' if need_val else ''), ok=not complaints, site=f['at'])
            for c in sorted(complaints):
                ctx.violation(rid, key, c, COMPLAINTS[c], site=f['at'], config=cfg)
    if n < floor:
        ctx.violation(rid, '<floor>', 'guarded operations', 'found %d instances of %s, expected %d' % (n, '/'.join(o[0].split('::')[-1] for o in ops), floor), kind='below-floor')


def clean_failure_rule(ctx, facts, cfg, rid, entries, exc=None, used=None, pe=None, floor=0):
    """No Err return after a destructive event, for the given operations (shared: C10.a over all operations, C09.g over insertion)."""
    exc = exc if exc is not None else load_exceptions()
    used = used if used is not None else set()
    pe = pe or PacketEvents(facts)
    au = DirtyAu(facts, pe, exc, used)
    flow = PathFlow(facts, au)
    n = 0
    for key in entries:
        f = facts.fns.get(key)
        if f is None:
            ctx.missing(rid, key)
            continue
        n += 1
        exits = flow.summary(key, None)
        bad = sorted(((q, kind) for (q, kind) in exits if kind in ('Err', 'None') and q is not None and f['locals'][0].get('adt') == 'std::result::Result'), key=repr)
        fails = any(kind == 'Err' for (q, kind) in exits)
        ctx.instance(rid, '%s: %s' % (key, 'can fail; every Err exit is clean' if fails and not bad else 'cannot fail' if not fails else 'Err after a destructive event'),
                     ok=not bad, site=f['at'])
        for (q, kind) in bad[:2]:
            w = flow.witness(key, None, q, kind)
            ctx.violation(rid, key, 'err-after:' + q.split(' @')[0], '%s can return an error after a destructive event (%s): the failed call leaves the packet object changed'
                          % (key.split('::')[-1].split('@')[0], q), site=q.split('@')[-1], path=flow.describe_path(key, w), config=cfg)
    if n < floor:
        ctx.violation(rid, '<floor>', 'operations', 'found %d operations, expected %d' % (n, floor), kind='below-floor')


def run(ctx):
    exc = load_exceptions()
    for cfg in ctx.configs():
        facts = ctx.facts(cfg)
        pe = PacketEvents(facts)
        used = set()
        # ------------------------------ C10.a ---------------------------------
        rid = 'C10.a'
        entries = [p for p in OPS_PLAIN if facts.fn(p)] + [k for p in OPS_TRAIT for k in facts.inst_keys(p)]
        for p in OPS_PLAIN:
            if facts.fn(p) is None:
                ctx.missing(rid, p)
        for p in OPS_TRAIT:
            if not facts.inst_keys(p):
                ctx.missing(rid, p)
        clean_failure_rule(ctx, facts, cfg, rid, sorted(set(entries)), exc=exc, used=used, pe=pe)
        ctx.floor(rid, 11, 'listed operations')
        for ex in exc.get('C10.a', []):
            k = ex['caller'] + ' -> ' + ex['callee']
            ctx.instance('C10.a-exceptions', 'exception %s (%s): %s' % (k, ex['treat'], ex['reason']), ok=True)
            if k not in used:
                ctx.violation('C10.a-exceptions', '<table>', k, 'exception "%s" in tables/exceptions.json no longer matches any call (stale suppression)' % k, kind='undecided', config=cfg)
        # ------------------------------ C10.b ---------------------------------
        rid = 'C10.b'
        limit = facts.const_val('constants::DNS_MAX_UNCOMPRESSED_SIZE')
        ins = facts.fn('parsed_packet::ParsedPacket::insert_rr')
        if limit is None or ins is None:
            ctx.missing(rid, 'constants::DNS_MAX_UNCOMPRESSED_SIZE / insert_rr')
        else:
            sau = SizeAu(facts, pe, limit)
            sflow = PathFlow(facts, sau)
            sflow.summary('parsed_packet::ParsedPacket::insert_rr', 0)
            grows = [(bi, kind, site) for (bi, kind, site) in pe.of('parsed_packet::ParsedPacket::insert_rr') if kind == 'len']
            ctx.instance(rid, 'insert_rr: %d buffer growth site(s), limit constant %d tested on the spliced buffer' % (len(grows), limit), ok=not sau.grow_unchecked, site=ins['at'])
            for (k, site) in sorted(set(sau.grow_unchecked)):
                ctx.violation(rid, k, 'growth-without-size-test', 'the packet buffer can grow at %s on a path where the %d-byte limit was not tested on that buffer '
                              '(no test, or the packet was replaced after the test): insertion can yield a packet above the limit' % (site, limit), site=site, config=cfg)
            if not grows:
                ctx.violation(rid, '<floor>', 'growth sites', 'no buffer growth found in insert_rr', kind='below-floor')
            if limit != 8192:
                ctx.violation(rid, 'constants::DNS_MAX_UNCOMPRESSED_SIZE', 'value', 'DNS_MAX_UNCOMPRESSED_SIZE is %d, the property states 8192' % limit, config=cfg)
        if cfg != 'hooks' and limit is not None:
            from rules import geometry
            geometry.insert_rule(ctx, facts, cfg, 'C10.b-geometry', 'C10.b-arith', limit)
        # ------------------------------ C10.c ---------------------------------
        tombstone_rule(ctx, facts, cfg, pe, 'C10.c', (('rr_iterator::TypedIterable::set_raw_name', True), ('rr_iterator::TypedIterable::delete', False), ('rr_iterator::TypedIterable::resize_rr', False)), 6)
    ctx.assume('cursor invariant: a live cursor lies at or behind the question (used by the listed resize_rr -> current_section exception)')
