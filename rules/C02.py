"""C02 — the parser accepts exactly the packets that are well-formed under its policy (the clauses visible in the code).

An equality of two infinite languages is not a static object.  What is decided is each clause of the policy as a fact that must
hold on every accepting path, each numeric limit as the exact constant / range that survives its guard, the exact byte set of
the label predicate, and the agreement of the sibling dispatch tables:

  C02.a accept facts (E4 point queries)
        parse, at the point where the ParsedPacket is built: qdcount = 1, offset = len (nothing left over), len >= 12;
        under the hypothesis is_response = false the answer and authority loops are unreachable (QR gating);
        parse_question: class = IN, 4 fixed bytes consumed;
        parse_rr, per record type: A rdlen = 4 and 14 bytes consumed; AAAA rdlen = 16 and 26; NS/CNAME/PTR: name starts at
        rdata+0, ends at rdata+rdlen; MX: name at rdata+2, ends at rdata+rdlen; SOA: two names then exactly 20 bytes;
        DNAME: pointer-free walker from rdata+0 to rdata+rdlen; default: 10 + rdlen; OPT: type 41, section = Additional,
        owner name exactly 1 byte, handed to parse_opt
  C02.b limits      label length guard constant = 63, name length guard = 255 (both walkers), pointer budget constant = 16, and
                    the E4 ranges confirm them: bytes added per label in [1, 64], accumulated name length <= 255
  C02.c characters  the label-byte predicate of the pointer-following walker is true exactly on {0x00-0x1f, 0x7f, '.', '\\'}
                    (bit-exact truth table over all 256 byte values); the pointer-free walker (DNAME) has no byte predicate
  C02.d siblings    the set of record types whose data holds names is the same in the validator, uncompress_rdata,
                    compress_rdata and the renamer: {NS, CNAME, PTR, MX, SOA}; OPT / DNAME / A / AAAA are validator-only arms

Not decided: that the conjunction of these clauses is the whole accepted language, "never to a root label", completeness
(nothing well-formed is turned away) beyond the three numeric limits.
"""
import json
import os

from analysis import facts as F
from analysis.cfg import PathFlow, Automaton
from analysis.e4 import E4
from analysis.interp import Int, Enum, Bool
from analysis.bits import BV, BF, Interp, CellRef, bf_from_fn, bf_table, Undecided, TOP
BF_TRUE = BF.const(1)

DS = 'dns_sector::DNSSector'
PARSE, PRR, PQ, POPT = DS + '::parse', DS + '::parse_rr', DS + '::parse_question', DS + '::parse_opt'
WALK_C, WALK_U = 'compress::Compress::check_compressed_name', DS + '::check_uncompressed_name'


def policy():
    with open(os.path.join(F.VERIF, 'tables', 'policy.json')) as fh:
        return json.load(fh)


def locals_rooted_in(facts, f, callee_suffix):
    defs = F.single_defs(f)
    out = []
    for l in range(len(f['locals'])):
        if l in defs and f['locals'][l].get('k') == 'int':
            rs = F.roots(f, defs, {'k': 'copy', 'place': {'local': l, 'proj': [], 'ty': {}}})
            if rs and all(r[0] == 'call' and r[1].endswith(callee_suffix) for r in rs):
                out.append(l)
    return out


def first_int(p, ls):
    for l in ls:
        v = p['mem'].get('%s._%d' % (p['fr'], l))
        if isinstance(v, Int):
            return v
    return None


def type_names(facts):
    return {int(v['discr']): v['name'] for v in facts.adts.get('constants::Type', {}).get('variants', [])}


def _is_enum_const(e, adt, variant):
    for _ in range(5):
        if e[0] == 'call' and e[2]:
            e = e[2][0]
        elif e[0] == 'cast':
            e = e[2]
    return e[0] == 'agg' and e[1] == adt and e[2] == variant


def hypothesis_run(facts, type_value, shared=None, budget_s=300):
    """parse_rr analysed by E4 with rr_type() forced to return `type_value`: (call probes, probes at the `Ok(..)` constructions, error)"""
    e4t = E4(facts, probes=[('DNSSector::increment_offset', PRR), ('Compress::check_compressed_name', PRR), ('DNSSector::check_compressed_name', PRR), ('DNSSector::check_uncompressed_name', PRR),
                            ('DNSSector::parse_opt', PRR), ('<aggregate:std::result::Result>', PRR)],
              force_ret={'DNSSector::rr_type': ('ok_int', type_value)}, budget_s=budget_s)
    if shared:
        e4t.an.summaries.update(shared)
    try:
        e4t.summarize(PRR)
    except Exception as ex:  # noqa
        return None, None, '%s: %s' % (type(ex).__name__, ex), e4t
    ps = e4t.probes()
    calls = [p for p in ps if p['fn'] == PRR and p['kind'] == 'call']
    oks = [p for p in ps if p['fn'] == PRR and p['kind'] == 'aggregate' and p.get('stmt') is not None and p['stmt']['rv'].get('variant') == 'Ok']
    return calls, oks, None, e4t


def address_size_rule(ctx, facts, cfg, rid, pol=None, runs=None):
    """Whatever the shape of the dispatch: with rr_type() == A (AAAA) every point of parse_rr that constructs the Ok result is reached
    only with rdlen == 4 (16).  Decided by an E4 run of parse_rr under that hypothesis (separate arms, one merged arm choosing the
    size by the type, a guarded arm falling through to the opaque default, helpers: all the same to it).
    Shared by C02.a and C03.g (the unchecked address readers)."""
    pol = pol or policy()
    rf = facts.fns.get(PRR)
    if rf is None:
        ctx.missing(rid, PRR)
        return

    def _fact(name, ok, detail, key, site):
        ctx.instance(rid, '%s: %s' % (name, detail), ok=ok, site=site)
        if not ok:
            ctx.violation(rid, key, name.replace(' ', '-'), 'accept-path fact "%s" does not hold on every accepting path: %s' % (name, detail), site=site, config=cfg)
    tv = {n: v for v, n in type_names(facts).items()}
    rdl = locals_rooted_in(facts, rf, 'DNSSector::rr_rdlen')
    shared_ = None
    for arm_ in ('A', 'AAAA'):
        want_ = pol['a_len'] if arm_ == 'A' else pol['aaaa_len']
        if runs is not None and arm_ in runs:
            calls, oks, err = runs[arm_]
        else:
            calls, oks, err, e4t_ = hypothesis_run(facts, tv.get(arm_, -1), shared_)
            shared_ = {k: S for k, S in e4t_.an.summaries.items() if k != PRR}     # callee summaries do not depend on the hypothesis
        if err is not None or oks is None:
            ctx.violation(rid, PRR, 'undecided: type ' + arm_, 'cannot analyse parse_rr under the hypothesis rr_type() == %s: %s' % (arm_, err), kind='undecided', config=cfg)
            continue
        bs = []
        for p in oks:
            rd = first_int(p, rdl)
            bs.append(p['C'].bounds(rd.e) if rd is not None else None)
        good = bool(bs) and all(b == (want_, want_) for b in bs)
        _fact('%s record size on every accepting path' % arm_, good,
              'with rr_type() == %s, parse_rr constructs its Ok result only with rdlen == %d (data length at the %d Ok construction(s) reached: %s)' % (arm_, want_, len(bs), sorted(set(bs), key=str)), PRR, rf['at'])


def accept_rule(ctx, facts, cfg, pol):
    rid = 'C02.a'
    e4 = E4(facts, keep_instates=True, probes=[('<aggregate:std::option::Option>', PARSE), ('DNSSector::increment_offset', PRR), ('DNSSector::increment_offset', PQ),
                                                ('Compress::check_compressed_name', PRR), ('DNSSector::check_uncompressed_name', PRR), ('DNSSector::parse_opt', PRR)])
    e4.summarize(PARSE)
    for what, n in sorted(e4.unmodelled().items()):
        ctx.violation(rid, '<engine>', 'unmodelled:' + str(what)[:80], 'unmodelled construct: %s' % what, kind='undecided', config=cfg)
    probes = e4.probes()

    def fact(name, ok, detail, key, site):
        ctx.instance(rid, '%s: %s' % (name, detail), ok=ok, site=site)
        if not ok:
            ctx.violation(rid, key, name.replace(' ', '-'), 'accept-path fact "%s" does not hold on every accepting path: %s' % (name, detail), site=site, config=cfg)

    # ---- parse: accept point ---------------------------------------------------
    pf = facts.fns[PARSE]
    qd = locals_rooted_in(facts, pf, 'DNSSector::qdcount')
    pdefs = F.single_defs(pf)
    acc = [p for p in probes if p['kind'] == 'aggregate' and p['fn'] == PARSE and p.get('stmt') is not None and
           any(r[0] == 'load' and F.last_field(r[1]) == (DS, 'packet') for o in p['stmt']['rv']['ops'] for r in F.roots(pf, pdefs, o))]
    if not acc:
        ctx.violation(rid, PARSE, 'accept-point', 'the point where parse() builds the ParsedPacket was not reached by the analysis', kind='undecided', config=cfg)
    for p in acc[:4]:
        C = p['C']
        q = first_int(p, qd)
        b = C.bounds(q.e) if q is not None else None
        fact('exactly one question', b == (1, 1), 'qdcount in %s at the accept point' % (b,), PARSE, p['at'])
    # "nothing left over" and "header present" as dominating guards of the accept point (the interpreter does not keep the
    # buffer length cell of the by-value `self` across the section loops, so these two are decided on the CFG)
    pdom = F.dominators(pf)
    acc_blocks = [bi for bi, b in F.blocks(pf) for st in b['stmts'] if st['k'] == 'assign' and st['rv']['k'] == 'aggregate' and st['rv'].get('adt') == 'parsed_packet::ParsedPacket']
    g_left = g_hdr = False
    for gi, gb in F.blocks(pf):
        t = gb['term']
        if t['k'] != 'switch':
            continue
        e = F.expr(pf, pdefs, t['discr'])
        safe = [tb for v_, tb in t['targets'] if v_ == 0]
        dominates = bool(safe) and bool(acc_blocks) and all(safe[0] in pdom.get(a, ()) or safe[0] == a for a in acc_blocks)
        if e[0] == 'binop' and e[1] == 'Gt' and e[3] == ('const', 0) and e[2][0] == 'call' and e[2][1].endswith('DNSSector::remaining_len') and dominates:
            g_left = True
        if e[0] == 'binop' and e[1] == 'Lt' and e[3] == ('const', pol['header_size']) and e[2][0] == 'call' and e[2][1].endswith('::len') and dominates:
            g_hdr = True
    fact('nothing left over', g_left, 'the accept point is dominated by the `remaining_len() > 0 -> error` test: %s' % g_left, PARSE, pf['at'])
    fact('header present', g_hdr, 'the accept point is dominated by the `len < %d -> error` test: %s' % (pol['header_size'], g_hdr), PARSE, pf['at'])
    # ---- parse_question --------------------------------------------------------------
    qf = facts.fns.get(PQ)
    if qf is None:
        ctx.missing(rid, PQ)
    else:
        cls = locals_rooted_in(facts, qf, 'DNSSector::rr_class')
        hits = [p for p in probes if p['fn'] == PQ and p['callee'].endswith('increment_offset')]
        for p in hits[:2]:
            a = p['args'][1]
            ab = p['C'].bounds(a.e) if isinstance(a, Int) else None
            fact('question fixed part', ab == (pol['question_fixed'], pol['question_fixed']), 'parse_question consumes %s bytes behind the name' % (ab,), PQ, p['at'])
        qdefs = F.single_defs(qf)
        qdom = F.dominators(qf)
        okret = [bi for bi, b in F.blocks(qf) for st in b['stmts'] if st['k'] == 'assign' and not st['place']['proj'] and st['place']['local'] == 0
                 and st['rv']['k'] == 'aggregate' and st['rv'].get('variant') == 'Ok']
        guard_ok = False
        for gi, gb in F.blocks(qf):
            t = gb['term']
            if t['k'] == 'switch':
                e = F.expr(qf, qdefs, t['discr'])
                if e[0] == 'binop' and e[1] in ('Ne', 'Eq'):
                    sides = [e[2], e[3]]
                    is_cls = any(any(r[0] == 'call' and r[1].endswith('DNSSector::rr_class') for r in F.roots(qf, qdefs, o)) for o in [])
                    rs = F.roots(qf, qdefs, t['discr'])
                    has_cls = any(r[0] == 'call' and r[1].endswith('DNSSector::rr_class') for r in rs)
                    has_in = any(_is_enum_const(x, 'constants::Class', 'IN') for x in sides)
                    if has_cls and has_in:
                        safe = [tb for v, tb in t['targets'] if v == 0] if e[1] == 'Ne' else [t['otherwise']]
                        if okret and all(safe[0] in qdom.get(r, ()) or safe[0] == r for r in okret):
                            guard_ok = True
        via_helper = any(b['term']['k'] == 'call' and (F.call_path(b['term']) or '').endswith('DNSSector::ensure_in_class') for _, b in F.blocks(qf))
        fact('question class IN', guard_ok or via_helper, 'the Ok return of parse_question is dominated by the `class != IN -> error` test (direct: %s, via ensure_in_class: %s)' % (guard_ok, via_helper), PQ, qf['at'])
        if not hits:
            ctx.violation(rid, PQ, 'accept-point', 'parse_question: no increment_offset reached', kind='undecided', config=cfg)
    # ---- parse_rr arms -----------------------------------------------------------------
    rf = facts.fns.get(PRR)
    if rf is None:
        ctx.missing(rid, PRR)
        return e4
    tn = type_names(facts)
    rdl = locals_rooted_in(facts, rf, 'DNSSector::rr_rdlen')
    tyl = locals_rooted_in(facts, rf, 'DNSSector::rr_type')
    fol = locals_rooted_in(facts, rf, 'check_compressed_name') + locals_rooted_in(facts, rf, 'check_uncompressed_name')
    # one hypothesis run per record type: `rr_type()` is forced to return that type, so every probe reached in parse_rr belongs to
    # it whatever the shape of the dispatch (separate arms, merged arms with the size chosen by the type, helpers, guards)
    by_arm = {}
    ok_exits = {}
    tv = {n: v for v, n in tn.items()}
    other = next(v for v in (16, 99, 250) if v not in tn or tn[v] not in ('A', 'AAAA', 'NS', 'CNAME', 'PTR', 'MX', 'SOA', 'DNAME', 'OPT'))
    shared = {k: S for k, S in e4.an.summaries.items() if k not in (PRR, PARSE)}
    main_summary_prr = e4.an.summaries.get(PRR)
    runs = {}
    for arm, val in [(n, tv[n]) for n in ('A', 'AAAA', 'NS', 'CNAME', 'PTR', 'MX', 'SOA', 'DNAME') if n in tv] + [('default', other)]:
        calls_, oks_, err_, _e = hypothesis_run(facts, val, shared)
        runs[arm] = (calls_, oks_, err_)
        if err_ is not None:
            ctx.violation(rid, PRR, 'undecided: type ' + arm, 'cannot analyse parse_rr under the hypothesis rr_type() == %s: %s' % (arm, err_), kind='undecided', config=cfg)
            continue
        by_arm[arm] = calls_
        ok_exits[arm] = oks_
    off_key = 'A0:%s.offset' % PRR

    def seq(arm):
        out = []
        for p in sorted(by_arm.get(arm, []), key=lambda p: (int(str(p['at']).split(':')[-1]), p['bb'])):
            C = p['C']
            rd = first_int(p, rdl)
            a1 = p['args'][1] if len(p['args']) > 1 and isinstance(p['args'][1], Int) else None
            off = p['mem'].get(off_key)
            ent = {'callee': p['callee'].split('::')[-1], 'at': p['at']}
            if rd is not None:
                ent['rdlen'] = C.bounds(rd.e)
            if a1 is not None:
                ent['arg'] = C.bounds(a1.e)
                if rd is not None:
                    ent['arg-rdlen'] = C.bounds(a1.e - rd.e)
                if isinstance(off, Int):
                    ent['arg-offset'] = C.bounds(a1.e - off.e)
            fo = [p['mem'].get('%s._%d' % (p['fr'], l)) for l in fol]
            fo = [x for x in fo if isinstance(x, Int)]
            if fo and rd is not None and isinstance(off, Int):
                ent['end-offset-rdlen'] = sorted({C.bounds(x.e - off.e - rd.e) for x in fo}, key=str)
            out.append(ent)
        # collapse duplicates from state partitions
        res = []
        for e in out:
            if not res or (res[-1]['callee'], res[-1]['at']) != (e['callee'], e['at']):
                res.append(e)
        return res

    H = pol['rr_header_size']
    for arm, want in (('A', pol['a_len']), ('AAAA', pol['aaaa_len'])):
        s = seq(arm)
        ok = len(s) == 1 and s[0]['callee'] == 'increment_offset' and s[0].get('rdlen') == (want, want) and s[0].get('arg') == (H + want, H + want)
        fact('%s record size' % arm, ok, '%s arm: %s' % (arm, [{k: v for k, v in e.items() if k != 'at'} for e in s]), PRR, s[0]['at'] if s else rf['at'])
    address_size_rule(ctx, facts, cfg, rid, pol, runs)
    s = seq('default')
    ok = len(s) == 1 and s[0]['callee'] == 'increment_offset' and s[0].get('arg-rdlen') == (H, H)
    fact('opaque record consumed exactly', ok, 'default arm: %s' % [{k: v for k, v in e.items() if k != 'at'} for e in s], PRR, s[0]['at'] if s else rf['at'])

    def name_arm(arm, label, walker, name_at, fixed_after, min_rdlen):
        s = seq(arm)
        calls = [e['callee'] for e in s]
        ok = bool(s) and calls[0] == 'increment_offset' and s[0].get('arg') == (H, H)
        walks = [e for e in s if e['callee'] == walker]
        ok = ok and len(walks) == (2 if fixed_after else 1) and walks[0].get('arg-offset') == (name_at, name_at)
        last = s[-1] if s else {}
        ok = ok and last.get('callee') == 'increment_offset' and last.get('arg-rdlen') == (0, 0)
        ends = last.get('end-offset-rdlen') or []
        ok = ok and (-fixed_after, -fixed_after) in ends
        # the smallest data length that reaches the end of the arm is exactly the smallest legal one: larger = a legal record is
        # turned away, smaller = the arm can run with less data than its fixed parts need
        lo_seen = last.get('rdlen', (None,))[0]
        ok = ok and lo_seen is not None and lo_seen == min_rdlen
        fact(label, ok, '%s arm (smallest accepted data length %s, legal minimum %d): %s' % (arm, lo_seen, min_rdlen, [{k: v for k, v in e.items() if k != 'at'} for e in s]), PRR, s[0]['at'] if s else rf['at'])

    for one_ in ('NS', 'CNAME', 'PTR'):
        name_arm(one_, 'name data filled exactly (%s)' % one_, 'check_compressed_name', 0, 0, 1)
    name_arm('MX', 'MX: preference then name, filled exactly', 'check_compressed_name', pol['mx_name_at'], 0, 3)
    name_arm('SOA', 'SOA: two names then 20 bytes, filled exactly', 'check_compressed_name', 0, pol['soa_fixed'], pol['soa_fixed'] + 2)
    name_arm('DNAME', 'DNAME: pointer-free name, filled exactly', 'check_uncompressed_name', 0, 0, 1)
    # ---- OPT ------------------------------------------------------------------------------
    S = e4.an.summaries.get(PRR)
    opt = [p for p in probes if p['fn'] == PRR and p['callee'].endswith('parse_opt')]
    for p in opt[:2]:
        C = p['C']
        ty = first_int(p, tyl)
        sec = p['mem'].get('%s._2' % p['fr'])
        off = p['mem'].get(off_key)
        ent = S.init.get(off_key)[0] if S is not None and S.init.get(off_key) else None
        okt = ty is not None and C.bounds(ty.e) == (pol['opt_type'], pol['opt_type'])
        oks = isinstance(sec, Enum) and C.bounds(sec.discr) == (3, 3)
        okr = isinstance(off, Int) and isinstance(ent, Int) and C.bounds(off.e - ent.e) == (1, 1)
        fact('OPT only in the additional section', oks, 'section discriminant %s at the parse_opt call' % (C.bounds(sec.discr) if isinstance(sec, Enum) else None,), PRR, p['at'])
        fact('OPT owner is the root name', okr, 'owner name length %s at the parse_opt call' % (C.bounds(off.e - ent.e) if isinstance(off, Int) and isinstance(ent, Int) else None,), PRR, p['at'])
        fact('parse_opt only for type OPT', okt, 'type %s' % (C.bounds(ty.e) if ty is not None else None,), PRR, p['at'])
    if not opt:
        ctx.violation(rid, PRR, 'opt-arm', 'no call to parse_opt reached in parse_rr', kind='undecided', config=cfg)
    # duplicate OPT: the stores of parse_opt are dominated by the edns_end.is_some() -> Err test
    of = facts.fns.get(POPT)
    if of:
        defs = F.single_defs(of)
        dom = F.dominators(of)
        safe = None
        for gi, gb in F.blocks(of):
            t = gb['term']
            if t['k'] == 'switch':
                e = F.expr(of, defs, t['discr'])
                if e[0] == 'call' and e[1].endswith('Option::<T>::is_some') and e[2] and (e[2][0][0] == 'ref' and F.last_field(e[2][0][1]) == (DS, 'edns_end')):
                    safe = [tb for v, tb in t['targets'] if v == 0]
        stores = [(bi, s) for bi, b in F.blocks(of) for s in b['stmts'] if s['k'] == 'assign' and F.last_field(s['place']) and F.last_field(s['place'])[0] == DS]
        ok = bool(safe) and bool(stores) and all(safe[0] in dom.get(bi, ()) or safe[0] == bi for bi, s in stores)
        fact('at most one OPT', ok, 'every store of parse_opt is dominated by the `edns_end.is_some() -> error` test', POPT, of['at'])
        # ... and the flag that test reads is raised on every successful path, so that a later OPT meets it
        class _FlagAu(Automaton):
            init = False

            def on_stmt(self_, q, f_, bi_, s_, env_):
                if s_['k'] == 'assign' and F.last_field(s_['place']) == (DS, 'edns_end'):
                    e_ = F.expr_rv(f_, F.single_defs(f_), s_['rv'])
                    return e_[0] == 'agg' and e_[1] == 'std::option::Option' and e_[2] == 'Some'
                return q
        flow_ = PathFlow(facts, _FlagAu())
        exits_ = flow_.summary(POPT, _FlagAu.init)
        oks_ = [(q_, k_) for (q_, k_) in exits_ if k_ == 'Ok']
        bad_ = [(q_, k_) for (q_, k_) in oks_ if not q_]
        fact('at most one OPT (flag raised)', bool(oks_) and not bad_, 'every successful path of parse_opt stores edns_end = Some(..), the flag its "only one OPT" test reads (%d Ok exit state(s))' % len(oks_), POPT, of['at'])
    # ---- QR gating: hypothesis run ---------------------------------------------------------
    e4h = E4(facts, probes=[('DNSSector::parse_rr', PARSE)], force_ret={'DNSSector::is_response': False})
    e4h.summarize(PARSE)
    secs = set()
    for p in e4h.probes():
        for a in p['args']:
            if isinstance(a, Enum):
                b = p['C'].bounds(a.discr)
                secs |= set(range(b[0], b[1] + 1)) if b[0] is not None and b[1] is not None else {-1}
    fact('answer/authority records only in responses', secs <= {3}, 'with is_response() = false the parse_rr calls still reachable are for sections %s (3 = Additional)' % sorted(secs), PARSE, pf['at'])
    e4n = E4(facts, probes=[('DNSSector::parse_rr', PARSE)])
    return e4


def const_in_guard(facts, f, op, k):
    """Is there a switch in f whose discriminant is `x <op> const k` (after looking through temporaries)?"""
    defs = F.single_defs(f)
    for gi, gb in F.blocks(f):
        t = gb['term']
        if t['k'] == 'switch':
            e = F.expr(f, defs, t['discr'])
            if e[0] == 'binop' and e[1] == op and e[3] == ('const', k):
                return t.get('at')
    return None


def limit_guard(e):
    """A comparison of a value with a constant read as an upper limit: (value expr, L, True when the comparison is true ABOVE the limit).
    `x > L`, `x >= L+1`, `L < x`, `L+1 <= x` are true above; `x <= L`, `x < L+1`, `L >= x`, `L+1 > x` are true at or below."""
    if e[0] != 'binop' or e[1] not in ('Gt', 'Ge', 'Lt', 'Le'):
        return None
    op, l, r = e[1], e[2], e[3]
    if r[0] == 'const' and isinstance(r[1], int):
        c = r[1]
        return {'Gt': (l, c, True), 'Ge': (l, c - 1, True), 'Le': (l, c, False), 'Lt': (l, c - 1, False)}[op]
    if l[0] == 'const' and isinstance(l[1], int):
        c = l[1]
        return {'Lt': (r, c, True), 'Le': (r, c - 1, True), 'Ge': (r, c, False), 'Gt': (r, c - 1, False)}[op]
    return None


def guard_consts(facts, f, op):
    """upper limits tested by the body's branches, whatever way round the comparison is written (`> 63`, `>= 64`, `<= 63` ...)"""
    defs = F.single_defs(f)
    out = []
    for gi, gb in F.blocks(f):
        t = gb['term']
        if t['k'] == 'switch':
            g = limit_guard(F.expr(f, defs, t['discr']))
            if g is not None:
                out.append(g[1])
    return out


def accumulation_sites(f, defs):
    """(block, statement, accumulator local, label-length local) of every `name_len += label_len + 1` (checked or plain add), the
    `label_len + 1` possibly held in a named local first"""
    out = []
    for bi, b in F.blocks(f):
        for s in b['stmts']:
            if not (s['k'] == 'assign' and s['rv']['k'] == 'binop' and s['rv']['op'].startswith('Add') and s['rv']['l'].get('k') == 'copy'
                    and not s['rv']['l']['place']['proj'] and s['rv']['r'].get('k') in ('copy', 'move')):
                continue
            acc_l = s['rv']['l']['place']['local']
            # walk back from the right operand through copies and `.0` of a checked add to `L + 1`
            cur = s['rv']['r']['place']['local'] if not s['rv']['r']['place']['proj'] else None
            lbl_l = None
            for _ in range(8):
                d = defs.get(cur) if cur is not None else None
                if not d or d[0] != 'rv':
                    break
                rv2 = d[1]
                if rv2['k'] == 'use' and rv2['x']['k'] in ('copy', 'move'):
                    cur = rv2['x']['place']['local']       # a copy, or the value part `.0` of a checked addition
                    continue
                if rv2['k'] == 'binop' and rv2['op'].startswith('Add') and rv2['l'].get('k') in ('copy', 'move') and not rv2['l']['place']['proj'] and F.op_const(rv2['r']) == 1:
                    lbl_l = rv2['l']['place']['local']
                    for _ in range(4):   # release builds copy the label length into a temporary first
                        dl = defs.get(lbl_l)
                        if dl and dl[0] == 'rv' and dl[1]['k'] == 'use' and dl[1]['x']['k'] in ('copy', 'move') and not dl[1]['x']['place']['proj']:
                            lbl_l = dl[1]['x']['place']['local']
                        else:
                            break
                break
            if lbl_l is None:
                continue
            out.append((bi, s, acc_l, lbl_l))
    return out


def _has_pointer_mask(e, depth=0):
    """does the expression contain the 14-bit pointer mask (`& 0x3fff`, or `& 0x3f` of the first byte)?"""
    if depth > 12 or not isinstance(e, tuple):
        return False
    if e[0] == 'binop' and e[1] == 'BitAnd' and (e[2] in (('const', 0x3fff), ('const', 0x3f)) or e[3] in (('const', 0x3fff), ('const', 0x3f))):
        return True
    for x in e[1:]:
        if isinstance(x, tuple) and _has_pointer_mask(x, depth + 1):
            return True
        if isinstance(x, (list,)):
            for y in x:
                if isinstance(y, tuple) and _has_pointer_mask(y, depth + 1):
                    return True
    return False


def pointer_follow_sites(f, defs):
    """blocks in which a loop-carried local (the cursor) is set to a decoded compression pointer"""
    out = []
    for bi, b in F.blocks(f):
        for s in b['stmts']:
            if s['k'] == 'assign' and not s['place']['proj'] and s['rv']['k'] == 'use' and s['rv']['x'].get('k') in ('copy', 'move') \
                    and s['place']['local'] not in defs:
                hit = _has_pointer_mask(F.expr(f, defs, s['rv']['x']))
                if not hit:
                    # the decoded pointer may have travelled through a Result and `?` (a checking helper spliced in): look at what it is made of
                    rs = F.roots(f, defs, s['rv']['x'])
                    hit = any(r in (('const', 0x3fff), ('const', 0x3f)) for r in rs) and any(r[0] in ('load', 'call', 'param') for r in rs)
                if hit:
                    out.append((bi, s))
    return out


def pointer_budget(facts, f, instate_of):
    """(max pointers followed per call | None, counter description, problem | None).

    A budget is a local that starts at a constant and moves by one (either way) exactly once per pointer followed: the step lies on
    every path of a loop iteration that follows a pointer (before or after the follow).  The number of pointers one call can follow
    is then the distance the counter can travel from its initial value, read off the relational invariant at the loop head."""
    defs = F.single_defs(f)
    follows = pointer_follow_sites(f, defs)
    if not follows:
        return None, None, 'no pointer follow (cursor := decoded 14-bit pointer) found'
    loops = F.natural_loops(f)
    best = None
    problems = []
    for c, info in sorted(F.unit_counters(f).items()):
        steps = set(info['steps'])
        ok = True
        for fb, fs in follows:
            hs = [h for h, body in loops.items() if fb in body]
            if not hs:
                ok = False
                problems.append('the follow at %s is outside any loop' % fs.get('at'))
                continue
            h = min(hs, key=lambda x: len(loops[x]))
            body = loops[h]
            if not steps <= body:
                ok = False
                continue

            def reach(src, avoid):
                seen, todo = set(), [src]
                while todo:
                    n = todo.pop()
                    if n in seen or n in avoid or n not in body:
                        continue
                    seen.add(n)
                    for m in F.succ(f['blocks'][n]):
                        if m != h:
                            todo.append(m)
                return seen
            before = fb not in reach(h, steps)          # every way from the loop head to the follow passes the step
            back_src = {n for n in body if h in F.succ(f['blocks'][n])}
            after = not (reach(fb, steps) & back_src) if fb not in steps else True   # every way from the follow back to the head passes it
            if fb in steps:
                before = True
            if not (before or after):
                ok = False
                problems.append('the pointer followed at %s does not always consume the budget held in _%d' % (fs.get('at'), c))
        if not ok:
            continue
        inst = instate_of(f['key'])
        if not inst:
            problems.append('no invariant available for %s' % f['key'])
            continue
        fr, instate, heads, succ, ff = inst
        vals = []
        for (bb, pk), st in instate.items():
            if bb in heads:
                v = st.mem.get('%s._%d' % (fr, c))
                if isinstance(v, Int):
                    lo, hi = st.C.bounds(v.e)
                    vals.append(lo if info['dir'] < 0 else hi)
        if not vals or any(v is None for v in vals):
            problems.append('the counter _%d is not bounded at the loop head' % c)
            continue
        travelled = max(abs(v - info['init']) for v in vals)
        best = (travelled, 'local _%d: starts at %d, %s one per pointer' % (c, info['init'], 'minus' if info['dir'] < 0 else 'plus'))
        break
    if best is None:
        return None, None, '; '.join(problems) or 'no counter that moves by one per pointer followed'
    return best[0], best[1], None


def limits_rule(ctx, facts, cfg, pol, e4):
    rid = 'C02.b'
    for key, needs_refs in ((WALK_C, True), (WALK_U, False)):
        f = facts.fn(key)
        if f is None:
            ctx.missing(rid, key)
            continue
        gts = guard_consts(facts, f, 'Gt')
        okl = pol['label_max'] in gts and not [g for g in gts if g in range(32, 128) and g != pol['label_max']]
        ctx.instance(rid, '%s: label length guard `> %d` (guards found: %s)' % (key.split('::')[-1], pol['label_max'], gts), ok=okl, site=f['at'])
        if not okl:
            ctx.violation(rid, key, 'label-limit', 'the label length limit of %s is not exactly %d (comparison constants found: %s)' % (key, pol['label_max'], gts), site=f['at'], config=cfg)
        okn = pol['name_max'] in gts and not [g for g in gts if g in range(200, 400) and g != pol['name_max']]
        ctx.instance(rid, '%s: name length guard `> %d`' % (key.split('::')[-1], pol['name_max']), ok=okn, site=f['at'])
        if not okn:
            ctx.violation(rid, key, 'name-limit', 'the total name length limit of %s is not exactly %d (comparison constants found: %s)' % (key, pol['name_max'], gts), site=f['at'], config=cfg)
        # E4 range of the amount added per label and of the accumulated length
        inst = e4.an.last_instate.get(key)
        if inst:
            fr, instate, heads, succ, ff = inst
            defs = F.single_defs(f)
            done = False
            for bi, s, acc_l, lbl_l in accumulation_sites(f, defs):
                if True:
                    los, his, ahi = [], [], []
                    for (bb, pk), st in instate.items():
                        if bb != bi:
                            continue
                        v = st.mem.get('%s._%d' % (fr, lbl_l))
                        a = st.mem.get('%s._%d' % (fr, acc_l))
                        if isinstance(v, Int) and isinstance(a, Int):
                            lo, hi = st.C.bounds(v.e)
                            l2, h2 = st.C.bounds(a.e)
                            los.append(lo); his.append(hi); ahi.append(h2)
                    if his and all(x is not None and x < 1000000 for x in ahi):
                        done = True
                        # the label length itself: the accumulation is dominated by the `byte > label_max -> error` test on the very byte it adds
                        dom = F.dominators(f)

                        def _load_key(e):
                            while e[0] == 'cast':
                                e = e[2]
                            if e[0] == 'load':
                                return (e[1]['local'], tuple((p_['k'], p_.get('local'), p_.get('i')) for p_ in e[1]['proj']))
                            return None
                        lk = _load_key(F.expr(f, defs, {'k': 'copy', 'place': {'local': lbl_l, 'proj': [], 'ty': {}}}))
                        guarded = False
                        for gi, gb in F.blocks(f):
                            t = gb['term']
                            if t['k'] == 'switch':
                                g_ = limit_guard(F.expr(f, defs, t['discr']))
                                if g_ is not None and g_[1] == pol['label_max'] and lk is not None and _load_key(g_[0]) == lk:
                                    below = [tb for v_, tb in t['targets'] if v_ == 0] if g_[2] else ([t['otherwise']] if all(v_ == 0 for v_, _ in t['targets']) else [tb for v_, tb in t['targets'] if v_ == 1])
                                    if below and (below[0] in dom.get(bi, ()) or below[0] == bi):
                                        guarded = True
                        if guarded and all(x is not None for x in his):
                            his = [min(h, pol['label_max']) for h in his]
                        ok = all(x is not None for x in los + his + ahi) and min(los) == 0 and max(his) == pol['label_max'] and max(ahi) <= pol['name_max']
                        ctx.instance(rid, '%s: label length reaching the accumulation in [%s, %s], accumulated name length before the add <= %s'
                                     % (key.split('::')[-1], min(x for x in los if x is not None) if any(x is not None for x in los) else None, max(his) if all(x is not None for x in his) else None,
                                        max(ahi) if all(x is not None for x in ahi) else None), ok=ok, site=s['at'])
                        if not ok:
                            ctx.violation(rid, key, 'ranges', 'ranges reaching the name-length accumulation in %s: label length %s..%s (policy 0..%d), accumulated length <= %s (policy <= %d)'
                                          % (key, los, his, pol['label_max'], ahi, pol['name_max']), site=s['at'], config=cfg)
            if not done:
                ctx.violation(rid, key, 'accumulation-site', 'name-length accumulation not found / not bounded in %s' % key, kind='undecided', config=cfg)
        if needs_refs:
            v = facts.const_val('constants::DNS_MAX_HOSTNAME_INDIRECTIONS')
            n_ptr, how, problem = pointer_budget(facts, f, lambda k_: e4.an.last_instate.get(k_))
            ok = v == pol['pointer_max'] and n_ptr == pol['pointer_max']
            ctx.instance(rid, 'pointer budget: at most %s pointers followed per name (%s); DNS_MAX_HOSTNAME_INDIRECTIONS = %s' % (n_ptr, how or problem, v), ok=ok, site=f['at'])
            if not ok:
                if n_ptr is None:
                    ctx.violation(rid, key, 'pointer-budget', 'pointer budget of the validator not established: %s' % problem, site=f['at'], config=cfg, kind='undecided' if 'does not always' not in (problem or '') else 'rule-violated')
                else:
                    ctx.violation(rid, key, 'pointer-budget', 'pointer budget: one name can be reached through %s pointers (%s), policy %d; DNS_MAX_HOSTNAME_INDIRECTIONS = %s' % (n_ptr, how, pol['pointer_max'], v), site=f['at'], config=cfg)
            # strictly backward: the follow is guarded by `ref >= lowest_offset -> error`
            ges = guard_consts(facts, f, 'Ge')
            defs = F.single_defs(f)
            has_back = False
            for gi, gb in F.blocks(f):
                t = gb['term']
                if t['k'] == 'switch':
                    e = F.expr(f, defs, t['discr'])
                    if e[0] == 'binop' and e[1] == 'Ge' and e[2][0] in ('local', 'cast', 'binop') and e[3][0] == 'local':
                        has_back = True
                    if e[0] == 'binop' and e[1] in ('Le', 'Lt') and e[3][0] in ('local', 'cast', 'binop') and e[2][0] == 'local':
                        has_back = True     # the same test written the other way round (`lowest <= ref`, or `ref < lowest` with the arms swapped)
            ctx.instance(rid, 'pointer targets are tested `>= lowest offset so far -> error` (strictly backward)', ok=has_back, site=f['at'])
            if not has_back:
                ctx.violation(rid, key, 'backward-only', 'no `ref_offset >= lowest_offset` refusal found: forward / self pointers could be followed', site=f['at'], config=cfg)
    v255 = facts.const_val('constants::DNS_MAX_HOSTNAME_LEN')
    ctx.instance(rid, 'DNS_MAX_HOSTNAME_LEN = %s' % v255, ok=v255 == pol['name_max'])
    if v255 != pol['name_max']:
        ctx.violation(rid, 'constants::DNS_MAX_HOSTNAME_LEN', 'value', 'DNS_MAX_HOSTNAME_LEN is %s, policy says %d' % (v255, pol['name_max']), config=cfg)


def scan_helpers(facts, f, models=None):
    """{callee key: refused byte set} for the local bool-returning functions the walker calls with a byte slice"""
    if models is None:
        models = {'<impl u8>::is_ascii_control': lambda args, m: bf_from_fn([args[0]], lambda c: c < 32 or c == 127),
                  '<impl u8>::is_ascii_graphic': lambda args, m: bf_from_fn([args[0]], lambda c: 33 <= c <= 126),
                  '<impl u8>::is_ascii': lambda args, m: bf_from_fn([args[0]], lambda c: c < 128),
                  '<impl u8>::is_ascii_whitespace': lambda args, m: bf_from_fn([args[0]], lambda c: c in (9, 10, 12, 13, 32))}
    out = {}
    if f is None:
        return out
    for bi, b in F.blocks(f):
        t = b['term']
        if t['k'] == 'call':
            for ck in facts.callee_keys(f, t):
                if ck in facts.fns and ck not in out and facts.fns[ck]['locals'][0].get('k') == 'bool':
                    tab = loop_predicate_table(facts, ck, models)
                    if tab is not None:
                        out[ck] = tab
    return out


def loop_predicate_table(facts, key, models):
    """For a bool-returning function that walks a byte slice and returns early: the set of byte values c for which one
    iteration returns true (E3 on the loop body with a symbolic byte), provided the exhausted loop returns false.  None if the
    function does not have that shape."""
    from analysis.bits import EnumV
    f = facts.fn(key)
    if f is None or f['locals'][0].get('k') != 'bool':
        return None
    head = None
    for bi, b in F.blocks(f):
        t = b['term']
        if t['k'] == 'call' and (F.call_path(t) or '').endswith("Iter<'a, T> as std::iter::Iterator>::next"):
            if head is not None:
                return None
            head, dest, nxt = bi, t['dest']['local'], t['target']
    if head is None:
        return None
    sw = f['blocks'][nxt]['term']
    if sw['k'] != 'switch':
        return None
    some = next((tb for v, tb in sw['targets'] if v == 1), None)
    none = next((tb for v, tb in sw['targets'] if v == 0), sw.get('otherwise'))
    if some is None or none is None:
        return None
    try:
        it = Interp(facts.fns, models)
        it.stop = {head}
        res = []
        it._exec(f, some, {dest: EnumV('std::option::Option', 1, [CellRef('B', 0)])}, {'B': [BV.sym('c', 8)]}, BF_TRUE, res, 0)
        refused = set()
        names = ['c%d' % i for i in range(8)]
        for pc, r, m in res:
            if r is None:
                continue            # back to the loop head: this byte let the walk go on
            if r is TOP or getattr(r, 'vs', None) is None:
                return None
            refused |= bf_table(pc & r, names)
        end = []
        it2 = Interp(facts.fns, models)
        it2._exec(f, none, {dest: EnumV('std::option::Option', 0, [])}, {'B': [BV.sym('c', 8)]}, BF_TRUE, end, 0)
        if not end or any(r is None or r is TOP or not (r.is_const() and not (r.tt & 1)) for pc, r, m in end):
            return None             # the exhausted walk must answer false
        return refused
    except Exception:  # noqa
        return None


def charset_rule(ctx, facts, cfg, pol):
    rid = 'C02.c'
    f = facts.fn(WALK_C)
    closures = [c for c in facts.closures_of(f)] if f else []
    want = set(range(0, 32)) | {127, ord('.'), ord('\\')}
    models = {'<impl u8>::is_ascii_control': lambda args, m: bf_from_fn([args[0]], lambda c: c < 32 or c == 127),
              '<impl u8>::is_ascii_graphic': lambda args, m: bf_from_fn([args[0]], lambda c: 33 <= c <= 126),
              '<impl u8>::is_ascii': lambda args, m: bf_from_fn([args[0]], lambda c: c < 128),
              '<impl u8>::is_ascii_whitespace': lambda args, m: bf_from_fn([args[0]], lambda c: c in (9, 10, 12, 13, 32))}
    n = 0
    for ck in closures:
        cf = facts.fns.get(ck)
        if cf is None or cf['locals'][0].get('k') != 'bool':
            continue
        n += 1
        try:
            r, _ = Interp(facts.fns, models).run(ck, ['CLOSURE', CellRef('C', 0)], {'C': [BV.sym('c', 8)]})
            got = bf_table(r, ['c%d' % i for i in range(8)]) if r is not TOP else None
        except Exception as e:  # noqa
            got = None
            ctx.violation(rid, ck, 'undecided', 'cannot evaluate the label-byte predicate bit-exactly: %s' % e, site=cf['at'], kind='undecided', config=cfg)
            continue
        ok = got == want
        ctx.instance(rid, 'label bytes refused by %s: %d values, expected %d' % (ck.split('::')[-2], len(got or ()), len(want)), ok=ok, site=cf['at'])
        if not ok:
            extra = sorted((got or set()) - want)
            miss = sorted(want - (got or set()))
            ctx.violation(rid, ck, 'byte-set', 'the label-byte predicate refuses %s; it no longer refuses %s and additionally refuses %s'
                          % ('%d byte values' % len(got) if got is not None else 'an undetermined set', ['0x%02x' % x for x in miss], ['0x%02x' % x for x in extra]), site=cf['at'], config=cfg)
    # ... or a helper the walker hands the label to (a loop over the bytes with an early `return true`)
    for hk, tab in sorted(scan_helpers(facts, f, models).items()):
        n += 1
        ok = tab == want
        ctx.instance(rid, 'label bytes refused by %s: %d values, expected %d' % (hk.split('::')[-1], len(tab), len(want)), ok=ok, site=facts.fns[hk]['at'])
        if not ok:
            ctx.violation(rid, hk, 'byte-set', 'the label-byte scan %s refuses %d byte values; it no longer refuses %s and additionally refuses %s'
                          % (hk, len(tab), ['0x%02x' % x for x in sorted(want - tab)], ['0x%02x' % x for x in sorted(tab - want)]), site=facts.fns[hk]['at'], config=cfg)
    if n < 1:
        ctx.violation(rid, '<floor>', 'label predicate', 'no boolean closure found in check_compressed_name', kind='below-floor')
    fu = facts.fn(WALK_U)
    if fu:
        cl = [c for c in facts.closures_of(fu) if facts.fns.get(c, {}).get('locals', [{}])[0].get('k') == 'bool']
        ctx.instance(rid, 'the pointer-free walker (DNAME) applies no byte predicate', ok=not cl, site=fu['at'])
        if cl:
            ctx.violation(rid, WALK_U, 'dname-predicate', 'check_uncompressed_name now filters label bytes; DNAME targets may hold any bytes', site=fu['at'], config=cfg)


class _ScanAu(Automaton):
    """state (label accounted, label scanned, complaints) per loop iteration of the pointer-following walker"""
    init = (False, 'no', frozenset())

    def __init__(self, f, defs, key, heads, acc_stmts, pred_closures):
        self.f, self.defs, self.key, self.heads, self.acc_stmts, self.pred = f, defs, key, heads, acc_stmts, pred_closures

    def _enter(self, q, target, at):
        if target in self.heads:
            acc, scan, bad = q
            if acc and scan != 'clean':
                bad = bad | {str(at)}
            return (False, 'no', bad)
        return q

    def on_stmt(self, q, f, bi, s, env):
        if f['key'] == self.key and id(s) in self.acc_stmts:
            return (True, q[1], q[2])
        return q

    def on_term(self, q, f, bi, t, env):
        if f['key'] == self.key and t.get('target') is not None:
            return self._enter(q, t['target'], t.get('at') or 'the end of the loop body')
        return q

    def on_call(self, q, f, bi, t, env, flow):
        if f['key'] != self.key:
            return None
        p = F.call_path(t) or ''
        q2 = q
        if p.endswith('::any') or p.endswith('::all') or p.endswith('::position') or p.endswith('::find'):
            a = t['args'][1] if len(t['args']) > 1 else {}
            ty = a.get('ty') or (a.get('place') or {}).get('ty') or {}
            if ty.get('def') in self.pred:
                q2 = (q[0], 'called', q[2])
        elif p in self.pred:          # a scan helper: called with the label, answers whether a forbidden byte was found
            q2 = (q[0], 'called', q[2])
        if t.get('target') is not None:
            q2 = self._enter(q2, t['target'], t.get('at'))
        return [(q2, None)] if q2 != q else None

    def on_edge(self, q, f, bi, t, value, target, env):
        if f['key'] != self.key:
            return q
        if q[1] == 'called':
            e = F.expr(f, self.defs, t['discr'])
            neg = False
            while e[0] == 'unop' and e[1] == 'Not':
                e, neg = e[2], not neg
            if e[0] == 'call' and (str(e[1]).endswith('::any') or str(e[1]) in self.pred):
                found = (value != 0) if value is not None else all(v == 0 for v, _ in t['targets'])
                if neg:
                    found = not found
                q = (q[0], 'dirty' if found else 'clean', q[2])
        return self._enter(q, target, t.get('at'))


def scan_on_every_path_rule(ctx, facts, cfg):
    """C02.c (path clause): no label is accepted unscanned.  In every iteration of the walker's loop that accounts a label
    (name_len += label_len + 1), the label-byte predicate (C02.c evaluates its byte set) is run over the label and found
    false before the next iteration starts or the name is accepted; a path that skips the scan (labels reached through a
    pointer, short labels, ...) or goes on after a hit is reported."""
    rid = 'C02.c'
    f = facts.fn(WALK_C)
    if f is None:
        ctx.missing(rid, WALK_C)
        return
    defs = F.single_defs(f)
    acc = accumulation_sites(f, defs)
    loops = F.natural_loops(f)
    heads = set(loops)
    acc = [(bi, s_) for bi, s_, a_, l_ in acc if any(bi in body for body in loops.values())]
    pred = {c for c in facts.closures_of(f) if facts.fns.get(c, {}).get('locals', [{}])[0].get('k') == 'bool'} | set(scan_helpers(facts, f))
    # the accumulation of the name length (not of the cursor): the one whose result is compared with the name limit
    pol = policy()
    lim = []
    for bi, s_ in acc:
        dst = s_['place']['local']
        for gi, gb in F.blocks(f):
            t = gb['term']
            if t['k'] == 'switch':
                e = F.expr(f, defs, t['discr'])
                if e[0] == 'binop' and e[1] in ('Gt', 'Ge', 'Le', 'Lt') and ('const', pol['name_max']) in (e[2], e[3]):
                    if dst in [r[1]['local'] for r in F.roots(f, defs, t['discr']) if r[0] == 'load' and not r[1]['proj']] or any(
                            x[0] == 'load' and not x[1]['proj'] and x[1]['local'] == dst for x in (e[2], e[3])):
                        lim.append((bi, s_))
    lim = lim or acc
    if not lim or not heads or not pred:
        ctx.violation(rid, WALK_C, 'scan anchors', 'cannot find the name-length accumulation (%d), the loop (%d) or the label-byte predicate (%d) in check_compressed_name' % (len(lim), len(heads), len(pred)), kind='anchor-missing', config=cfg)
        return
    au = _ScanAu(f, defs, WALK_C, heads, {id(s_) for _, s_ in lim[:1]}, pred)
    flow = PathFlow(facts, au)
    exits = flow.summary(WALK_C, _ScanAu.init)
    bad_loop = set()
    bad_exit = []
    for (q, kind) in exits:
        bad_loop |= set(q[2])
        if kind in ('Ok', 'ret', 'Some') and q[0] and q[1] != 'clean':
            bad_exit.append((q, kind))
    ok = not bad_loop and not bad_exit
    ctx.instance(rid, 'check_compressed_name: every label accounted in an iteration is scanned by the byte predicate and found clean before the next iteration / acceptance [%s]' % cfg, ok=ok, site=f['at'])
    if bad_exit:
        q0, k0 = bad_exit[0]
        ctx.violation(rid, WALK_C, 'label accepted unscanned (last label)', 'check_compressed_name can accept a name whose last accounted label was not scanned by the label-byte predicate (or was found dirty)',
                      site=f['at'], path=flow.describe_path(WALK_C, flow.witness(WALK_C, _ScanAu.init, q0, k0)), config=cfg)
    if bad_loop:
        ctx.violation(rid, WALK_C, 'label accepted unscanned', 'check_compressed_name can move on to the next label (loop re-entered from %s) without having run the label-byte predicate over the label it just accounted, or after the predicate found a forbidden byte: '
                      'control characters, dots or backslashes are accepted in such labels' % ', '.join(sorted(bad_loop)), site=sorted(bad_loop)[0], config=cfg)


def type_sets(facts, key):
    """Type variants compared against (x == Type::V.into()) in one body."""
    f = facts.fn(key)
    if f is None:
        return None
    defs = F.single_defs(f)
    out = set()
    for gi, gb in F.blocks(f):
        t = gb['term']
        if t['k'] == 'switch':
            e = F.expr(f, defs, t['discr'])
            if e[0] == 'binop' and e[1] in ('Eq', 'Ne'):
                for side in (e[2], e[3]):
                    x = side
                    for _ in range(4):
                        if x[0] == 'call' and x[2]:
                            x = x[2][0]
                        elif x[0] == 'cast':
                            x = x[2]
                    if x[0] == 'agg' and x[1] == 'constants::Type':
                        out.add(x[2])
    return out


def siblings_rule(ctx, facts, cfg, pol):
    rid = 'C02.d'
    want = set(pol['name_bearing'])
    v = type_sets(facts, PRR)
    if v is None:
        ctx.missing(rid, PRR)
        return
    okv = v == want | set(pol['validator_only'])
    ctx.instance(rid, 'validator dispatches on %s' % sorted(v), ok=okv, site=facts.fn(PRR)['at'])
    if not okv:
        ctx.violation(rid, PRR, 'validator-types', 'parse_rr dispatches on %s; policy: names in %s, plus %s' % (sorted(v), sorted(want), sorted(pol['validator_only'])), site=facts.fn(PRR)['at'], config=cfg)
    for key in ('compress::Compress::uncompress_rdata', 'compress::Compress::compress_rdata', 'renamer::Renamer::rename_response_section'):
        s = type_sets(facts, key)
        if s is None:
            ctx.missing(rid, key)
            continue
        ok = s == want
        ctx.instance(rid, '%s rewrites names in %s' % (key.split('::')[-1], sorted(s)), ok=ok, site=facts.fn(key)['at'])
        if not ok:
            ctx.violation(rid, key, 'name-bearing-types', '%s treats %s as name-bearing; the validator checks names in %s: %s'
                          % (key.split('::')[-1], sorted(s), sorted(want), 'types %s are validated as names but copied verbatim (pointers would dangle)' % sorted(want - s) if want - s else
                             'types %s are rewritten as names without having been validated as such' % sorted(s - want)), site=facts.fn(key)['at'], config=cfg)


def run(ctx):
    pol = policy()
    for cfg in ctx.configs():
        if cfg == 'hooks':
            continue
        facts = ctx.facts(cfg)
        e4 = accept_rule(ctx, facts, cfg, pol)
        limits_rule(ctx, facts, cfg, pol, e4)
        charset_rule(ctx, facts, cfg, pol)
        scan_on_every_path_rule(ctx, facts, cfg)
        siblings_rule(ctx, facts, cfg, pol)
    ctx.trust('tables/policy.json (the policy constants of the property text / RFC 1035 2.3.4), analysis/interp.py contracts, analysis/bits.py')
