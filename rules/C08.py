"""C08 — a mutated packet object matches a fresh parse of its own bytes (structural clauses).

  C08.a shift-set    on every Ok path of a body that shifts any of offset_{answers,nameservers,additional}
                     (Option::map over the old value), offset_edns is shifted as well
  C08.h shift-by     (E4, rules/geometry.py) every closure that shifts a recorded offset in resize_rr / insert_rr returns, on each of its
                     paths, x or x + the splice amount; paths that leave x alone are confined to offsets at or before the cursor;
                     the offset_edns closure of resize_rr distinguishes OPT before / behind the record being resized
  C08.b cache        every listed mutating operation that replaces, resizes or overwrites name bytes of the packet
                     stores `cached = None` on every successful path; any other public mutator found by effects is reported
  C08.d protocol     every site that stores the result of uncompress_with_previous_offset(_, ref) into `packet` takes
                     `ref` from the cursor's offset(), stores the translated value with set_offset before recompute_rr,
                     and calls recompute_sections before returning Ok
  C08.i stale cursor   no value read from offset()/offset_next() before the packet is replaced by its decompressed form is used after
                     the replacement (other than as the reference handed to the decompressor)
  C08.e recompute    RRIterator::recompute computes offset_next, per section, with the same callee / constant as the
                     `next` of the iterator that walks that section
  C08.g presence     no listed operation returns successfully with the packet taken out of the object
  C08.f re-parse     functions that refresh offsets from a fresh parse copy all five offsets from the same-named field
                     and compare the four EDNS summaries

Not decided: equality with a fresh parse for arbitrary operation sequences (a run-time relation).
"""
import re

from analysis import facts as F
from analysis.cfg import PathFlow, Automaton, VARIANTS
from analysis.pkt import PacketEvents, PP

RRI = 'rr_iterator::RRIterator'
OFFS = ('offset_answers', 'offset_nameservers', 'offset_additional')
ALL_OFFS = ('offset_question',) + OFFS + ('offset_edns',)
EDNS_SUMMARIES = ('edns_count', 'ext_rcode', 'edns_version', 'ext_flags')

MUTATORS_PLAIN = ['parsed_packet::ParsedPacket::set_tid', 'parsed_packet::ParsedPacket::set_flags', 'parsed_packet::ParsedPacket::set_response',
                  'parsed_packet::ParsedPacket::set_rcode', 'parsed_packet::ParsedPacket::set_opcode', 'parsed_packet::ParsedPacket::insert_rr',
                  'parsed_packet::ParsedPacket::insert_rr_from_string', 'parsed_packet::ParsedPacket::rename_with_raw_names',
                  'parsed_packet::ParsedPacket::recompute', 'parsed_packet::ParsedPacket::rrcount_inc', 'parsed_packet::ParsedPacket::rrcount_dec',
                  'synth::gen::query']
MUTATORS_TRAIT = ['rr_iterator::TypedIterable::set_raw_name', 'rr_iterator::TypedIterable::delete', 'rr_iterator::RdataIterable::set_rr_ttl',
                  'rr_iterator::RdataIterable::set_rr_ip', 'rr_iterator::DNSIterable::uncompress']
#: public low-level handles that hand out raw mutable access or leave the packet half-edited by design; not "operations" of C08
LOW_LEVEL = {'parsed_packet::ParsedPacket::packet_mut': 'hands out &mut Vec<u8>; the caller owns coherence',
             'parsed_packet::ParsedPacket::into_packet': 'consumes the object',
             'rr_iterator::TypedIterable::resize_rr': 'splice helper: leaves a gap the caller must fill (set_raw_name / delete do)',
             'rr_iterator::DNSIterable::raw_mut': 'raw mutable view', 'rr_iterator::DNSIterable::name_slice_mut': 'raw mutable view',
             'rr_iterator::DNSIterable::rdata_slice_mut': 'raw mutable view',
             'rr_iterator::DNSIterable::recompute_sections': 'second half of the in-place decompression protocol (C08.d)',
             'parsed_packet::ParsedPacket::empty': 'constructor'}


def is_none_store(f, defs, s, field):
    if s['k'] != 'assign' or F.last_field(s['place']) != (PP, field):
        return None
    e = F.expr_rv(f, defs, s['rv'])
    if e[0] == 'agg' and e[1] == 'std::option::Option':
        return e[2] == 'None'
    return False


class CacheAu(Automaton):
    """state (mutated, reset, mc): question-affecting event seen / cached=None stored / known value of maybe_compressed"""
    init = (False, False, None)

    def __init__(self, facts, pe):
        self.facts = facts
        self.pe = pe
        self.defs = {}

    def _defs(self, f):
        if f['key'] not in self.defs:
            self.defs[f['key']] = F.single_defs(f)
        return self.defs[f['key']]

    def on_stmt(self, q, f, bi, s, env):
        mut, reset, mc = q
        defs = self._defs(f)
        r = is_none_store(f, defs, s, 'cached')
        if r is True:
            reset = True
        elif r is False:
            reset = False  # the cache is being filled
        if s['k'] == 'assign' and F.last_field(s['place']) == (PP, 'maybe_compressed'):
            e = F.expr_rv(f, defs, s['rv'])
            mc = e[1] if e[0] == 'const' and e[1] in (0, 1) else None
        for kind, site in self.pe.at(f['key'], s):
            if kind in ('replace', 'len', 'bytes'):
                mut = True
        return (mut, reset, mc)

    def on_call(self, q, f, bi, t, env, flow):
        mut, reset, mc = q
        for kind, site in self.pe.at(f['key'], t):
            if kind in ('replace', 'len', 'bytes', 'take'):
                mut = True
        if (mut, reset, mc) != q:
            # continue with the default treatment from the updated state
            q2 = (mut, reset, mc)
            keys = [ck for ck in self.facts.callee_keys(f, t) if not ck.startswith('ext:') and ck != '<indirect>']
            if not keys:
                return [(q2, None)]
        return None

    def on_edge(self, q, f, bi, t, value, target, env):
        mut, reset, mc = q
        e = F.expr(f, self._defs(f), t['discr'])
        neg = False
        while e[0] == 'unop' and e[1] == 'Not':
            neg = not neg
            e = e[2]
        if F.is_load_of(e, PP, 'maybe_compressed'):
            v = value if value is not None else (1 if all(x[0] == 0 for x in t['targets']) else None)
            if v is not None and neg:
                v = 1 - v
            if v is not None:
                if mc is not None and mc != v:
                    return 'PRUNE'
                return (mut, reset, v)
        return q


def _is_shift_store(f, defs, s):
    """field name when `s` stores offset_X <- offset_X.map(..) (a shift of the old value), else None"""
    if s['k'] != 'assign':
        return None
    lf = F.last_field(s['place'])
    if not lf or lf[0] != PP or lf[1] not in ALL_OFFS:
        return None
    e = F.expr_rv(f, defs, s['rv'])
    if e[0] == 'call' and e[1].endswith('Option::<T>::map') and e[2] and F.is_load_of(e[2][0], PP, lf[1]):
        return lf[1]
    return None


class ShiftAu(Automaton):
    """state = frozenset of ParsedPacket offset fields shifted (Option::map of the old value) so far"""
    init = frozenset()

    def __init__(self):
        self.defs = {}

    def on_stmt(self, q, f, bi, s, env):
        if f['key'] not in self.defs:
            self.defs[f['key']] = F.single_defs(f)
        x = _is_shift_store(f, self.defs[f['key']], s)
        if x:
            return frozenset(q | {x})
        return q

    def on_call(self, q, f, bi, t, env, flow):
        d = t['dest']
        lf = F.last_field(d) if d['proj'] else None
        p = F.call_path(t) or ''
        if lf and lf[0] == PP and lf[1] in ALL_OFFS and p.endswith('Option::<T>::map') and t['args']:
            if f['key'] not in self.defs:
                self.defs[f['key']] = F.single_defs(f)
            e = F.expr(f, self.defs[f['key']], t['args'][0])
            if F.is_load_of(e, PP, lf[1]):
                return [(frozenset(q | {lf[1]}), None)]
        return None


def shift_sites(f):
    out = []
    defs = F.single_defs(f)
    for bi, b in F.blocks(f):
        for s in b['stmts']:
            x = _is_shift_store(f, defs, s)
            if x:
                out.append((x, s['at']))
        t = b['term']
        if t['k'] == 'call' and t['dest']['proj']:
            lf = F.last_field(t['dest'])
            if lf and lf[0] == PP and lf[1] in ALL_OFFS and (F.call_path(t) or '').endswith('Option::<T>::map'):
                e = F.expr(f, defs, t['args'][0])
                if F.is_load_of(e, PP, lf[1]):
                    out.append((lf[1], t['at']))
    return out


class ProtoAu(Automaton):
    """in-place decompression protocol; state = (stage, ref_ok, translated, rr_before_translate, sections)"""
    init = (0, True, False, False, False)

    def __init__(self, facts, pe):
        self.facts = facts
        self.pe = pe
        self.defs = {}

    def _defs(self, f):
        if f['key'] not in self.defs:
            self.defs[f['key']] = F.single_defs(f)
        return self.defs[f['key']]

    def on_stmt(self, q, f, bi, s, env):
        stage, ref_ok, tr, bad_rr, sec = q
        if stage >= 1 and s['k'] == 'assign' and F.last_field(s['place']) == (PP, 'packet'):
            rs = F.roots(f, self._defs(f), s['rv']['x']) if s['rv']['k'] == 'use' else F.roots(f, self._defs(f), {'k': 'copy', 'place': s['place']})
            if any(r[0] == 'call' and r[1].endswith('uncompress_with_previous_offset') for r in rs):
                stage = 2
        return (stage, ref_ok, tr, bad_rr, sec)

    def on_call(self, q, f, bi, t, env, flow):
        stage, ref_ok, tr, bad_rr, sec = q
        p = F.call_path(t) or ''
        tp = F.call_trait_path(t) or ''
        defs = self._defs(f)
        if p.endswith('Compress::uncompress_with_previous_offset'):
            rs = F.roots(f, defs, t['args'][1])
            ok = bool(rs) and all(r[0] == 'call' and r[1].endswith('DNSIterable>::offset') or (r[0] == 'call' and r[1] == 'rr_iterator::DNSIterable::offset') for r in rs)
            return [((1, ok, False, False, False), None)]
        if stage >= 1 and (tp == 'rr_iterator::DNSIterable::set_offset' or p.endswith('DNSIterable>::set_offset')):
            rs = F.roots(f, defs, t['args'][1])
            if any(r[0] == 'call' and r[1].endswith('uncompress_with_previous_offset') for r in rs):
                return [((stage, ref_ok, True, bad_rr, sec), None)]
        if stage >= 1 and (tp == 'rr_iterator::DNSIterable::recompute_rr' or p.endswith('DNSIterable>::recompute_rr')):
            return [((stage, ref_ok, tr, bad_rr or not tr, sec), None)]
        if stage >= 1 and (tp == 'rr_iterator::DNSIterable::recompute_sections' or p.endswith('DNSIterable>::recompute_sections')):
            return [((stage, ref_ok, tr, bad_rr, True), None)]
        if tp.startswith('rr_iterator::') or p.startswith('rr_iterator::') or p.startswith('parsed_packet::') or p.startswith('compress::') or p.startswith('dns_sector::'):
            # other local calls do not take part in the protocol; do not descend (keeps the automaton local to the site)
            return [(q, None)] if not self._returns_enum(f, t) else None
        return None

    def _returns_enum(self, f, t):
        return t['dest']['ty'].get('adt') in VARIANTS


class PresenceAu(Automaton):
    """state: is ParsedPacket.packet known to hold bytes? (True at entry; `take` empties it, a store of Some(..) refills it)"""
    init = True

    def __init__(self, facts, pe):
        self.facts = facts
        self.pe = pe
        self.defs = {}

    def on_stmt(self, q, f, bi, s, env):
        for kind, site in self.pe.at(f['key'], s):
            if kind == 'replace':
                if f['key'] not in self.defs:
                    self.defs[f['key']] = F.single_defs(f)
                e = F.expr_rv(f, self.defs[f['key']], s['rv'])
                q = not (e[0] == 'agg' and e[2] == 'None')
        return q

    def on_call(self, q, f, bi, t, env, flow):
        for kind, site in self.pe.at(f['key'], t):
            if kind == 'take':
                return [(False, None)]
        return None


def presence_rule(ctx, facts, cfg, pe, entries):
    rid = 'C08.g'
    flow = PathFlow(facts, PresenceAu(facts, pe))
    for key in sorted(set(entries)):
        f = facts.fns[key]
        exits = flow.summary(key, True)
        bad = [(q, kind) for (q, kind) in exits if q is False and kind in ('Ok', 'ret', 'Some')]
        ctx.instance(rid, '%s leaves the packet in place on success' % key, ok=not bad, site=f['at'])
        for (q, kind) in bad[:1]:
            w = flow.witness(key, True, q, kind)
            ctx.violation(rid, key, 'packet-taken', 'a successful path through %s takes the packet out of the object and never stores it back: '
                          'every later access panics in packet()' % key.split('::')[-1], site=f['at'], path=flow.describe_path(key, w), config=cfg)


def run(ctx):
    for cfg in ctx.configs():
        facts = ctx.facts(cfg)
        pe = PacketEvents(facts)
        ents = [p for p in MUTATORS_PLAIN if facts.fn(p)] + [k for p in MUTATORS_TRAIT for k in facts.inst_keys(p)]
        presence_rule(ctx, facts, cfg, pe, ents)
        shift_rule(ctx, facts, cfg)
        if cfg != 'hooks':
            from rules import geometry
            geometry.shift_closure_rule(ctx, facts, cfg, 'C08.h')
        cache_rule(ctx, facts, cfg, pe)
        proto_rule(ctx, facts, cfg, pe)
        stale_rule(ctx, facts, cfg)
        recompute_rule(ctx, facts, cfg)
        reparse_rule(ctx, facts, cfg)
    ctx.assume('cursor invariants (offset <= offset_next <= len) and well-formedness of accepted packets are run-time facts')


# ---------------------------------------------------------------------------
def shift_rule(ctx, facts, cfg):
    rid = 'C08.a'
    au = ShiftAu()
    flow = PathFlow(facts, au)
    n = 0
    for key, f in sorted(facts.fns.items()):
        if f['kind'] == 'Closure' or ('@' not in key and facts.inst_keys(f['path'], False) != [key] and any('@' in k for k in facts.inst_keys(f['path'], False))):
            continue
        sites = shift_sites(f)
        if not any(x in OFFS for x, _ in sites):
            continue
        n += 1
        exits = flow.summary(key, frozenset())
        bad = [(q, kind) for (q, kind) in exits if kind in ('Ok', 'ret', 'Some') and (q & set(OFFS)) and 'offset_edns' not in q]
        ctx.instance(rid, '%s shifts %s' % (key, sorted({x for x, _ in sites})), ok=not bad, site=f['at'])
        for (q, kind) in bad[:1]:
            w = flow.witness(key, frozenset(), q, kind)
            ctx.violation(rid, key, 'offset_edns', 'a successful path shifts %s but not offset_edns: the EDNS cursor would read stale bytes'
                          % sorted(q), site=sites[0][1], path=flow.describe_path(key, w), config=cfg)
    if n < 2:
        ctx.violation(rid, '<floor>', 'shifting bodies', 'found %d bodies that shift section offsets, expected insert_rr and resize_rr' % n, kind='below-floor')



def cache_rule_for(ctx, facts, cfg, pe, rid, entries, what, floor=1):
    """the cache clause of C08.b on a given list of operations (shared with C11: a deleted question must not live on in the cache)"""
    if 'cached' not in [fl['name'] for v in facts.adts.get(PP, {}).get('variants', []) for fl in v['fields']]:
        ctx.instance(rid, 'ParsedPacket has no `cached` field: nothing to invalidate', ok=True)
        return
    flow = PathFlow(facts, CacheAu(facts, pe))
    n = 0
    for key in sorted(set(entries)):
        f = facts.fns[key]
        exits = flow.summary(key, CacheAu.init)
        bad = [(q, kind) for (q, kind) in exits if kind in ('Ok', 'ret', 'Some') and q[0] and not q[1]]
        muts = any(q[0] for (q, kind) in exits)
        n += 1 if muts else 0
        ctx.instance(rid, '%s: %s' % (key, 'question cache reset on all successful paths' if muts and not bad else 'no question-affecting event' if not muts else 'MISSING reset'), ok=not bad, site=f['at'])
        for (q, kind) in bad[:1]:
            w = flow.witness(key, CacheAu.init, q, kind)
            ctx.violation(rid, key, 'cached', 'a successful path through %s changes the packet without storing `cached = None`: %s' % (key.split('::')[-1], what),
                          site=f['at'], path=flow.describe_path(key, w), config=cfg)
    if n < floor:
        ctx.violation(rid, '<floor>', 'operations with a cache reset', 'found %d packet-changing operations among %s, expected at least %d' % (n, sorted(set(entries))[:3], floor), kind='below-floor')


# ---------------------------------------------------------------------------
def cache_rule(ctx, facts, cfg, pe):
    rid = 'C08.b'
    if 'cached' not in [fl['name'] for v in facts.adts.get(PP, {}).get('variants', []) for fl in v['fields']]:
        ctx.instance(rid, 'ParsedPacket has no `cached` field: nothing to invalidate', ok=True)
        return
    au = CacheAu(facts, pe)
    flow = PathFlow(facts, au)
    entries = []
    for p in MUTATORS_PLAIN:
        if facts.fn(p) is None:
            ctx.missing(rid, p)
        else:
            entries.append(p)
    for p in MUTATORS_TRAIT:
        ks = facts.inst_keys(p)
        if not ks:
            ctx.missing(rid, p)
        entries += ks
    listed = set(entries)
    # fail closed on public mutators that are not in the table
    for key, f in sorted(facts.fns.items()):
        if f['kind'] == 'Closure' or key in listed:
            continue
        base = key.split('@')[0]
        is_pub = 'Public' in str(f.get('vis')) or f.get('trait') in ('rr_iterator::TypedIterable', 'rr_iterator::RdataIterable', 'rr_iterator::DNSIterable') \
            or f.get('impl_trait') == 'rr_iterator::DNSIterable'
        if not is_pub or not (key.startswith('parsed_packet::') or 'rr_iterator::' in key):
            continue
        if '@' not in key and any('@' in k for k in facts.inst_keys(f['path'], False)):
            continue
        if base in LOW_LEVEL or any(base.endswith(' as ' + x) for x in LOW_LEVEL) or any(key.endswith('>::' + x.split('::')[-1]) and x.startswith('rr_iterator::DNSIterable') for x in LOW_LEVEL):
            continue
        exits = flow.summary(key, CacheAu.init)
        if any(q[0] for (q, kind) in exits):
            entries.append(key)
            ctx.violation(rid, key, 'unlisted-mutator', 'public function %s changes the packet bytes/length but is neither a listed operation nor a listed low-level handle; '
                          'add it to rules/C08.py after reading it' % key, site=f['at'], kind='undecided', config=cfg)
    for key in sorted(set(entries)):
        f = facts.fns[key]
        exits = flow.summary(key, CacheAu.init)
        bad = [(q, kind) for (q, kind) in exits if kind in ('Ok', 'ret', 'Some') and q[0] and not q[1]]
        muts = any(q[0] for (q, kind) in exits)
        ctx.instance(rid, '%s: %s' % (key, 'mutates names/length; cached reset on all successful paths' if muts and not bad else
                                       'no question-affecting event' if not muts else 'MISSING reset'), ok=not bad, site=f['at'])
        for (q, kind) in bad[:1]:
            w = flow.witness(key, CacheAu.init, q, kind)
            ctx.violation(rid, key, 'cached', 'a successful path through %s replaces/resizes/overwrites the packet without storing `cached = None`: '
                          'question(), question_raw() and qtype_qclass() would keep returning the old question' % key.split('::')[-1],
                          site=f['at'], path=flow.describe_path(key, w), config=cfg)
    ctx.floor(rid, 12, 'listed mutating operations')


# ---------------------------------------------------------------------------
def proto_rule(ctx, facts, cfg, pe):
    rid = 'C08.d'
    au = ProtoAu(facts, pe)
    flow = PathFlow(facts, au)
    n = 0
    for key, f in sorted(facts.fns.items()):
        if f['kind'] == 'Closure':
            continue
        if '@' not in key and any('@' in k for k in facts.inst_keys(f['path'], False)):
            continue
        has = any(t['k'] == 'call' and (F.call_path(t) or '').endswith('Compress::uncompress_with_previous_offset') for _, b in F.blocks(f) for t in [b['term']])
        stores = any(s['k'] == 'assign' and F.last_field(s['place']) == (PP, 'packet') for _, b in F.blocks(f) for s in b['stmts'])
        if not (has and stores):
            continue
        n += 1
        exits = flow.summary(key, ProtoAu.init)
        probs = []
        for (q, kind) in sorted(exits, key=repr):
            stage, ref_ok, tr, bad_rr, sec = q
            if kind not in ('Ok', 'ret', 'Some') or stage < 2:
                continue
            if not ref_ok:
                probs.append(('ref-not-offset', 'the reference offset handed to uncompress_with_previous_offset is not the cursor\'s offset()', q, kind))
            if not tr:
                probs.append(('no-set_offset', 'the translated offset is never stored with set_offset', q, kind))
            if bad_rr:
                probs.append(('recompute_rr-before-set_offset', 'recompute_rr runs before the translated offset is stored', q, kind))
            if not sec:
                probs.append(('no-recompute_sections', 'recompute_sections is not called before returning', q, kind))
        ctx.instance(rid, '%s: in-place decompression site' % key, ok=not probs, site=f['at'])
        seenp = set()
        for (inst, msg, q, kind) in probs:
            if inst in seenp:
                continue
            seenp.add(inst)
            w = flow.witness(key, ProtoAu.init, q, kind)
            ctx.violation(rid, key, inst, 'in-place decompression protocol broken in %s: %s' % (key.split('::')[-1].split('@')[0], msg),
                          site=f['at'], path=flow.describe_path(key, w), config=cfg)
    if n < 3:     # the pinned tree has 6 (set_raw_name, delete and uncompress, per iterator type); mutators that call uncompress() instead of repeating it leave 3
        ctx.violation(rid, '<floor>', 'in-place decompression sites', 'found %d sites, expected at least the uncompress() of the three iterator types' % n, kind='below-floor')


# ---------------------------------------------------------------------------
class StaleAu(Automaton):
    """Path-sensitive provenance of cursor positions in one body.
    state = (replaced, prov, complaints): prov = frozenset of (local, call block) "this local holds (something computed from) the result of
    the offset()/offset_next() call in that block, made before the packet was replaced"; entries are created only while not replaced."""
    init = (False, frozenset(), frozenset())
    PLUMBING = ('std::option::', 'std::result::', '<std::result::', '<std::option::', 'core::option::', 'core::result::', '<core::', 'std::convert::', '<T as std::convert::')

    def __init__(self, facts, top):
        self.facts = facts
        self.top = top

    @staticmethod
    def _is_cursor_call(t):
        return bool(re.search(r'DNSIterable>?::offset(_next)?$', F.call_path(t) or ''))

    @staticmethod
    def _locals_of(o, acc):
        if isinstance(o, dict):
            if 'local' in o and 'proj' in o:
                acc.add(o['local'])
                for pj in o['proj']:
                    if pj.get('k') == 'index' and 'local' in pj:
                        acc.add(pj['local'])
            for v in o.values():
                StaleAu._locals_of(v, acc)
        elif isinstance(o, list):
            for v in o:
                StaleAu._locals_of(v, acc)

    def _prov_of(self, prov, obj):
        ls = set()
        self._locals_of(obj, ls)
        return {cb for (l, cb) in prov if l in ls}

    def on_stmt(self, q, f, bi, s, env):
        if f['key'] != self.top or s['k'] != 'assign':
            return q
        rep, prov, bad = q
        src = self._prov_of(prov, s['rv'])
        # a sink: an element of a buffer addressed with a stale position (read or written)
        idx = set()
        for pl in [s['place']] + ([s['rv'].get('place')] if isinstance(s['rv'].get('place'), dict) else []) + \
                ([s['rv']['x'].get('place')] if isinstance(s['rv'].get('x'), dict) and isinstance(s['rv']['x'].get('place'), dict) else []):
            for pj in pl.get('proj', []):
                if pj.get('k') == 'index' and 'local' in pj:
                    idx.add(pj['local'])
        if rep and any(l in idx for (l, cb) in prov):
            bad = bad | {(bi, 'stmt', f['blocks'][bi]['stmts'].index(s))}
        if F.last_field(s['place']) == (PP, 'packet') and not rep:
            return (True, prov, bad)
        if not s['place']['proj']:
            L = s['place']['local']
            prov = frozenset((l, cb) for (l, cb) in prov if l != L) | frozenset((L, cb) for cb in src)
        return (rep, prov, bad)

    def on_call(self, q, f, bi, t, env, flow):
        if f['key'] != self.top:
            return None
        rep, prov, bad = q
        p = F.call_path(t) or ''
        src = self._prov_of(prov, t['args'])
        plumbing = p.startswith(self.PLUMBING) or ' as std::ops::Try>' in p or ' as std::ops::FromResidual' in p
        if rep and src and not plumbing and not p.endswith('uncompress_with_previous_offset'):
            bad = bad | {(bi, 'term', 0)}
        L = t['dest']['local'] if not t['dest']['proj'] else None
        if L is not None:
            prov = frozenset((l, cb) for (l, cb) in prov if l != L)
            if self._is_cursor_call(t):
                if not rep:
                    prov = prov | {(L, bi)}
            elif plumbing:
                prov = prov | frozenset((L, cb) for cb in src)
        q2 = (rep, prov, bad)
        if q2 != q:
            keys = [ck for ck in self.facts.callee_keys(f, t) if not ck.startswith('ext:') and ck != '<indirect>']
            if not keys or plumbing or self._is_cursor_call(t):
                return [(q2, None)]
            # a local callee: keep the updated state and let the default treatment walk into it (events inside it are ignored)
            return [(q2, None)]
        return None


def stale_rule(ctx, facts, cfg):
    """C08.i: a value obtained from the cursor's offset()/offset_next() before the packet is replaced by its decompressed form is not
    used afterwards (positions move when names expand; the translated value must be re-read).  Provenance is tracked per path."""
    rid = 'C08.i'
    n = 0
    for key, f in sorted(facts.fns.items()):
        if f['kind'] == 'Closure':
            continue
        if '@' not in key and any('@' in k for k in facts.inst_keys(f['path'], False)):
            continue
        has = any(t['k'] == 'call' and (F.call_path(t) or '').endswith('Compress::uncompress_with_previous_offset') for _, b in F.blocks(f) for t in [b['term']])
        stores = any(s['k'] == 'assign' and F.last_field(s['place']) == (PP, 'packet') for _, b in F.blocks(f) for s in b['stmts'])
        if not (has and stores):
            continue
        n += 1
        au = StaleAu(facts, key)
        flow = PathFlow(facts, au)
        exits = flow.summary(key, StaleAu.init)
        bad = set()
        wit = None
        for (q, kind) in exits:
            if q[2]:
                bad |= set(q[2])
                wit = wit or (q, kind)
        ncur = sum(1 for _, b in F.blocks(f) if b['term']['k'] == 'call' and StaleAu._is_cursor_call(b['term']))
        ctx.instance(rid, '%s: no cursor position read before the in-place decompression is used after it (%d offset()/offset_next() call(s) tracked per path)' % (key, ncur), ok=not bad, site=f['at'])
        for (bi, what, idx) in sorted(bad)[:2]:
            at = (f['blocks'][bi]['stmts'][idx] if what == 'stmt' else f['blocks'][bi]['term']).get('at')
            ctx.violation(rid, key, 'stale-offset@%s' % ((F.call_path(f['blocks'][bi]['term']) or 'call').split('::')[-1] if what == 'term' else 'element-access'),
                          '%s uses, at %s, a record position that was read from the cursor before the packet was replaced by its decompressed form: names in front of the record have grown, '
                          'the bytes are written to / read from the wrong place' % (key.split('::')[-1].split('@')[0], at), site=at,
                          path=flow.describe_path(key, flow.witness(key, StaleAu.init, wit[0], wit[1])) if wit else None, config=cfg)
    if n < 3:
        ctx.violation(rid, '<floor>', 'in-place decompression sites', 'found %d sites, expected at least 3' % n, kind='below-floor')


# ---------------------------------------------------------------------------
def offset_next_kinds(f, facts):
    """Per path: what is stored into RRIterator.offset_next, described by callee / constant, keyed by the section switch value if any."""
    out = []
    # enumerate acyclic paths with a per-path definition map
    def kind_of(e):
        if e[0] == 'call':
            if e[1].startswith('std::option::') or e[1].startswith('std::result::'):
                return ('init', e[1].split('::')[-1])
            return ('call', e[1].split('::')[-1])
        if e[0] == 'binop' and e[1] == 'Add':
            a, b = e[2], e[3]
            if b[0] == 'const':
                return ('add-const', b[1])
        if e[0] == 'load':
            return ('load', F.last_field(e[1]))
        return ('other', e[0])

    def walk(bi, env, sect, seen):
        if bi in seen or f['blocks'][bi]['cleanup']:
            return
        b = f['blocks'][bi]
        env = dict(env)
        for s in b['stmts']:
            if s['k'] != 'assign':
                continue
            pl = s['place']
            e = eval_rv(s['rv'], env)
            if not pl['proj']:
                env[pl['local']] = e
            elif F.last_field(pl) == (RRI, 'offset_next'):
                out.append((sect, kind_of(e), s['at']))
        t = b['term']
        if t['k'] == 'call':
            if not t['dest']['proj']:
                env[t['dest']['local']] = ('call', F.call_path(t) or '?', [eval_op(a, env) for a in t['args']])
            if t.get('target') is not None:
                walk(t['target'], env, sect, seen | {bi})
        elif t['k'] == 'switch':
            d = eval_op(t['discr'], env)
            is_sec = d[0] == 'discr' and F.last_field(d[1]) == (RRI, 'section')
            for v, tb in t['targets']:
                walk(tb, env, v if is_sec else sect, seen | {bi})
            walk(t['otherwise'], env, 'other' if is_sec else sect, seen | {bi})
        else:
            for m in F.succ(b):
                walk(m, env, sect, seen | {bi})

    def eval_op(o, env):
        if o['k'] == 'const':
            return ('const', o.get('val', o.get('dbg')))
        if o['k'] in ('copy', 'move'):
            pl = o['place']
            if not pl['proj']:
                return env.get(pl['local'], ('local', pl['local']))
            base = env.get(pl['local'])
            if base is not None and base[0] == 'tuple' and len(pl['proj']) == 1 and pl['proj'][0]['k'] == 'field':
                return base[1][pl['proj'][0]['i']]
            if base is not None and base[0] == 'ovf' and pl['proj'][0]['k'] == 'field' and pl['proj'][0]['i'] == 0:
                return base[1]
            return ('load', pl)
        return ('unknown',)

    def eval_rv(rv, env):
        k = rv['k']
        if k == 'use':
            return eval_op(rv['x'], env)
        if k == 'aggregate' and rv.get('agg') == 'tuple':
            return ('tuple', [eval_op(o, env) for o in rv['ops']])
        if k == 'binop':
            op = rv['op']
            e = ('binop', op.replace('WithOverflow', ''), eval_op(rv['l'], env), eval_op(rv['r'], env))
            return ('ovf', e) if op.endswith('WithOverflow') else e
        if k == 'discr':
            return ('discr', rv['place'])
        if k == 'aggregate':
            return ('agg', rv.get('adt'), rv.get('variant'), [eval_op(o, env) for o in rv['ops']])
        if k == 'cast':
            return eval_op(rv['x'], env)
        return ('unknown',)
    import sys
    sys.setrecursionlimit(10000)
    walk(0, {}, None, frozenset())
    return out


def recompute_rule(ctx, facts, cfg):
    rid = 'C08.e'
    sect_disc = {v['name']: int(v['discr']) for v in facts.adts.get('constants::Section', {}).get('variants', [])}
    if not sect_disc:
        ctx.missing(rid, 'constants::Section')
        return
    # what each iterator's `next` stores into offset_next after the advance
    per_impl = {}
    for key, f in sorted(facts.fns.items()):
        if key.endswith(' as rr_iterator::DNSIterable>::next') or key.endswith('::next_including_opt'):
            kinds = set()
            sub, _, _, _ = facts.reach([key])
            for k2 in sorted(sub):
                kinds |= {k for (_, k, _) in offset_next_kinds(facts.fns[k2], facts) if k[0] in ('call', 'add-const')}
            if kinds:
                per_impl[f['path']] = kinds
                per_impl[key] = kinds
    # which Section each iterator type is built with
    sect_of = {}
    for key, f in sorted(facts.fns.items()):
        if not key.startswith('parsed_packet::ParsedPacket::into_iter_'):
            continue
        defs = F.single_defs(f)
        secs, iters = set(), set()
        for bi, b in F.blocks(f):
            t = b['term']
            if t['k'] == 'call':
                p = F.call_path(t) or ''
                if p.endswith("RRIterator::<'t>::new"):
                    e = F.expr(f, defs, t['args'][1])
                    if e[0] == 'agg' and e[1] == 'constants::Section':
                        secs.add(e[2])
                if p.endswith('::next') or p.endswith('::next_including_opt'):
                    iters.add(p)
        for it in iters:
            for s in secs:
                sect_of.setdefault(it, set()).add(s)
    rec = facts.fn("rr_iterator::RRIterator::<'t>::recompute")
    if rec is None:
        ctx.missing(rid, 'RRIterator::recompute')
        return
    rk = offset_next_kinds(rec, facts)
    by_sect = {}
    for sect, kind, at in rk:
        by_sect.setdefault(sect, set()).add(kind)
    n = 0
    for it, secs in sorted(sect_of.items()):
        want = per_impl.get(it)
        if not want:
            continue
        for sname in sorted(secs):
            n += 1
            d = sect_disc[sname]
            got = by_sect.get(d) or by_sect.get('other') or by_sect.get(None) or set()
            ok = bool(got) and got == want
            ctx.instance(rid, 'section %s: next stores %s, recompute stores %s' % (sname, sorted(want), sorted(got)), ok=ok, site=rec['at'])
            if not ok:
                ctx.violation(rid, "rr_iterator::RRIterator::recompute", 'section-' + sname,
                              'RRIterator::recompute computes offset_next for a %s cursor as %s, but the iterator of that section (%s) uses %s: '
                              'after set_raw_name / in-place decompression the cursor would not designate the following record'
                              % (sname, sorted(got), it.split('::')[-2:], sorted(want)), site=rec['at'], config=cfg)
    if n < 5:
        ctx.violation(rid, '<floor>', 'iterator/section pairs', 'matched %d (iterator, section) pairs, expected 5' % n, kind='below-floor')


# ---------------------------------------------------------------------------
def reparse_rule(ctx, facts, cfg):
    rid = 'C08.f'
    n = 0
    for key, f in sorted(facts.fns.items()):
        if f['kind'] == 'Closure':
            continue
        defs = F.single_defs(f)
        copies = {}
        for bi, b in F.blocks(f):
            for s in b['stmts']:
                if s['k'] == 'assign':
                    lf = F.last_field(s['place'])
                    if lf and lf[0] == PP and lf[1] in ALL_OFFS:
                        e = F.expr_rv(f, defs, s['rv'])
                        if e[0] == 'load' and F.last_field(e[1]) and F.last_field(e[1])[0] == PP and e[1]['local'] != s['place']['local']:
                            copies[lf[1]] = (F.last_field(e[1])[1], s['at'])
        if not copies:
            continue
        parses = any(t['k'] == 'call' and (F.call_path(t) or '').endswith('DNSSector::parse') for _, b in F.blocks(f) for t in [b['term']])
        if not parses:
            continue
        n += 1
        crossed = {k: v for k, v in copies.items() if v[0] != k}
        missing = [o for o in ALL_OFFS if o not in copies]
        # the EDNS summaries must be compared (assert_eq) or copied
        seen_sum = set()
        for bi, b in F.blocks(f):
            for s in b['stmts']:
                if s['k'] == 'assign' and s['rv']['k'] == 'ref':
                    lf = F.last_field(s['rv']['place'])
                    if lf and lf[0] == PP and lf[1] in EDNS_SUMMARIES:
                        seen_sum.add(lf[1])
                if s['k'] == 'assign':
                    lf = F.last_field(s['place'])
                    if lf and lf[0] == PP and lf[1] in EDNS_SUMMARIES:
                        seen_sum.add(lf[1])
        miss_sum = [x for x in EDNS_SUMMARIES if x not in seen_sum]
        # the bytes that were parsed must be the bytes installed in the object
        installs = False
        for bi, b in F.blocks(f):
            for s in b['stmts']:
                if s['k'] == 'assign' and F.last_field(s['place']) == (PP, 'packet') and s['rv']['k'] in ('use', 'aggregate'):
                    rs = F.roots(f, defs, s['rv']['x']) if s['rv']['k'] == 'use' else [r for o in s['rv']['ops'] for r in F.roots(f, defs, o)]
                    if any(r[0] == 'call' and (r[1].endswith('ParsedPacket::into_packet') or r[1].endswith('DNSSector::parse')) for r in rs):
                        installs = True
        if not installs:
            ctx.violation(rid, key, 'parsed-bytes-not-installed', '%s refreshes the offsets from a parse result but does not store that result\'s bytes '
                          '(into_packet()) into `packet`: offsets and bytes can disagree' % key, site=f['at'], config=cfg)
        # path-sensitive part: no successful path installs new packet bytes without refreshing all five offsets on that same path
        class _RefreshAu(Automaton):
            init = (False, frozenset())

            def on_stmt(self_, q, f_, bi_, s_, env_):
                if f_['key'] != key or s_['k'] != 'assign':
                    return q
                rep, got = q
                lf_ = F.last_field(s_['place'])
                if lf_ == (PP, 'packet'):
                    e_ = F.expr_rv(f_, F.single_defs(f_), s_['rv'])
                    if e_[0] == 'agg' and e_[1] == 'std::option::Option' and e_[2] == 'Some':
                        return (True, got)
                if lf_ and lf_[0] == PP and lf_[1] in ALL_OFFS:
                    return (rep, got | {lf_[1]})
                return q
        rflow = PathFlow(facts, _RefreshAu())
        rexits = rflow.summary(key, _RefreshAu.init)
        stale = [(q, kind) for (q, kind) in rexits if kind == 'Ok' and q[0] and len(q[1]) < len(ALL_OFFS)]
        if stale:
            q0, k0 = stale[0]
            ctx.violation(rid, key, 'bytes-installed-without-offsets', '%s can return successfully after installing new packet bytes without refreshing %s on that path: the recorded section / EDNS positions '
                          'describe the old bytes' % (key.split('::')[-1], sorted(set(ALL_OFFS) - set(q0[1]))), site=f['at'], path=rflow.describe_path(key, rflow.witness(key, _RefreshAu.init, q0, k0)), config=cfg)
        ok = not crossed and not missing and not miss_sum and installs and not stale
        ctx.instance(rid, '%s refreshes %s from a fresh parse on every successful path that installs new bytes' % (key, sorted(copies)), ok=ok, site=f['at'])
        for k, v in crossed.items():
            ctx.violation(rid, key, 'crossed-' + k, '%s is refreshed from the parse result\'s %s' % (k, v[0]), site=v[1], config=cfg)
        for m in missing:
            ctx.violation(rid, key, 'missing-' + m, 'the re-parse in %s refreshes %s but not %s' % (key, sorted(copies), m), site=f['at'], config=cfg)
        for m in miss_sum:
            ctx.violation(rid, key, 'summary-' + m, 'the re-parse in %s neither compares nor copies the EDNS summary %s' % (key, m), site=f['at'], config=cfg)
    if n < 2:
        ctx.violation(rid, '<floor>', 're-parse writers', 'found %d re-parse writers, expected recompute and rename_with_raw_names' % n, kind='below-floor')
