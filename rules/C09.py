"""C09 — each mutation has exactly its stated effect (structural clauses).

  C09.b pairs      set_rr_ttl writes the field rr_ttl reads (bit-exact), set_rr_ip writes [10,14) / [10,26) where rr_ip reads and
                   checks the address family against the record type; rrcount_inc / rrcount_dec read and write, per Section,
                   the same header count (Question->qd, Answer->an, NameServers->ns, Additional->ar), and change it by exactly one
  C09.c tables     insertion_offset(section) consults exactly the start offsets of the later sections, in wire order, else the end
                   of the packet; insert_rr, per section, records its own start with or(Some(insertion_offset)) and shifts exactly
                   the later sections' offsets plus offset_edns
  C09.d pairing    every successful path of insert_rr performs exactly one rrcount_inc of the section argument; every successful
                   path of delete lowers exactly one count, the one of the section the record was in *before* the splice moved the
                   section boundaries (C09.d-delete = the delete-protocol automaton of C11.a)
                   (delete <-> rrcount_dec is decided under C11.a)
  C09.g refusal    (the C10.a automaton on insert_rr / insert_rr_from_string) a refused insertion returns before any byte, count or offset
                   of the object has been touched
  C09.e pointer-free  insert_rr, set_raw_name and delete resize the buffer / overwrite name bytes only on paths where maybe_compressed is
                   known to be false (after the normalisation), so no other record's compression pointer can be invalidated
  C09.a geometry   (E4, rules/geometry.py) the byte moves of resize_rr (both directions) and insert_rr satisfy the preconditions of
                   copy_within / copy_from_slice for every valid cursor (offset <= len, shift inside the packet) and every object whose
                   section offsets lie inside the packet

Not decided: that all *other* records are byte-identical after an operation (a run-time equality).
"""
from analysis import facts as F
from analysis.cfg import PathFlow, Automaton
from analysis.pkt import PP
from rules import layout

SECT = {0: 'Question', 1: 'Answer', 2: 'NameServers', 3: 'Additional'}
GET = {'Question': 'qdcount', 'Answer': 'ancount', 'NameServers': 'nscount', 'Additional': 'arcount'}
LATER = {'Question': ['offset_answers', 'offset_nameservers', 'offset_additional'], 'Answer': ['offset_nameservers', 'offset_additional'],
         'NameServers': ['offset_additional'], 'Additional': []}
OWN = {'Question': 'offset_question', 'Answer': 'offset_answers', 'NameServers': 'offset_nameservers', 'Additional': 'offset_additional'}


def section_names(facts):
    return {int(v['discr']): v['name'] for v in facts.adts.get('constants::Section', {}).get('variants', [])}


class SectAu(Automaton):
    """Generic: state = (section name or None, payload); subclasses fill the payload.  The section is learnt from a switch on
    the discriminant of the Section-typed parameter."""

    def __init__(self, facts, param):
        self.facts = facts
        self.param = param
        self.names = section_names(facts)
        self.defs = {}

    def _defs(self, f):
        if f['key'] not in self.defs:
            self.defs[f['key']] = F.single_defs(f)
        return self.defs[f['key']]

    def _is_param(self, f, local):
        """is this local the Section parameter, or a copy of it (the argument of a helper spliced into this body)?"""
        defs = self._defs(f)
        for _ in range(8):
            if local == self.param:
                return True
            d = defs.get(local)
            if d and d[0] == 'rv' and d[1]['k'] == 'use' and d[1]['x']['k'] in ('copy', 'move') and not d[1]['x']['place']['proj']:
                local = d[1]['x']['place']['local']
                continue
            if d and d[0] == 'rv' and d[1]['k'] == 'ref' and not d[1]['place']['proj']:
                local = d[1]['place']['local']
                continue
            return False
        return False

    def on_edge(self, q, f, bi, t, value, target, env):
        sec, pay = q
        e = F.expr(f, self._defs(f), t['discr'])
        if e[0] == 'discr' and not e[1]['proj'] and self._is_param(f, e[1]['local']):
            name = self.names.get(value, 'other') if value is not None else 'other'
            if sec is not None and sec != name:
                return 'PRUNE'
            return (name, pay)
        return q

    def section_test(self, q, f, t):
        """`section == Section::X` / `!=` on the parameter: [(state, truth)] or None"""
        p = F.call_path(t) or ''
        if not (p.endswith('constants::Section as std::cmp::PartialEq>::eq') or p.endswith('constants::Section as std::cmp::PartialEq>::ne')) or len(t['args']) != 2:
            return None
        defs = self._defs(f)
        sides = [F.expr(f, defs, a) for a in t['args']]
        const = None
        has_param = False
        for a, e in zip(t['args'], sides):
            x = e
            while x[0] in ('ref', 'cast') and len(x) > 1 and isinstance(x[-1], tuple):
                x = x[-1]
            if e[0] == 'agg' and e[1] == 'constants::Section':
                const = e[2]
            elif x[0] == 'agg' and x[1] == 'constants::Section':
                const = x[2]
            else:
                l = F.op_local(a)
                if l is not None and self._is_param(f, l):
                    has_param = True
        if const is None:
            # the constant may be a promoted `&Section::X`: look at the roots
            for a in t['args']:
                for r in F.roots(f, defs, a):
                    if r[0] == 'agg' and r[1] == 'constants::Section':
                        const = r[2]
        if const is None or not has_param:
            return None
        sec, pay = q
        is_eq = p.endswith('::eq')
        if sec is not None:
            return [(q, 1 if (sec == const) == is_eq else 0)]
        return [((const, pay), 1 if is_eq else 0), (q, 0 if is_eq else 1)]


class CountAu(SectAu):
    init = (None, (None, None, 0))

    def on_call(self, q, f, bi, t, env, flow):
        sec, (g, s, delta) = q
        p = (F.call_path(t) or '').split('::')[-1]
        if p in GET.values():
            return [((sec, (p, s, delta)), None)]
        if p.startswith('set_') and p[4:] in GET.values():
            # the value written: old count +/- 1
            e = F.expr(f, self._defs(f), t['args'][1])
            return [((sec, (g, p[4:], delta)), None)]
        return None


class InsertionAu(SectAu):
    init = (None, ())

    def on_stmt(self, q, f, bi, s, env):
        sec, chain = q
        if s['k'] == 'assign' and s['rv']['k'] == 'use' and s['rv']['x']['k'] in ('copy', 'move'):
            lf = F.last_field(s['rv']['x']['place'])
            if lf and lf[0] == PP and lf[1].startswith('offset_'):
                return (sec, chain + (lf[1],))
        return q

    def on_call(self, q, f, bi, t, env, flow):
        sec, chain = q
        p = F.call_path(t) or ''
        if p.endswith('ParsedPacket::packet') or p.endswith('<impl [T]>::len'):
            return None
        return None


class InsertAu(SectAu):
    """payload = (own offset recorded, frozenset shifted, #rrcount_inc, inc section ok)"""
    init = (None, (None, frozenset(), 0, True))

    def on_stmt(self, q, f, bi, s, env):
        sec, (own, sh, ninc, incok) = q
        if s['k'] != 'assign':
            return q
        lf = F.last_field(s['place'])
        if not lf or lf[0] != PP or not lf[1].startswith('offset_'):
            return q
        e = F.expr_rv(f, self._defs(f), s['rv'])
        if e[0] == 'call' and e[1].endswith('Option::<T>::map') and e[2] and F.is_load_of(e[2][0], PP, lf[1]):
            sh = sh | {lf[1]}
        elif e[0] == 'call' and e[1].endswith('Option::<T>::or') and e[2] and F.is_load_of(e[2][0], PP, lf[1]):
            own = lf[1]
        else:
            sh = sh | {'?' + lf[1]}
        return (sec, (own, sh, ninc, incok))

    def on_call(self, q, f, bi, t, env, flow):
        st_ = self.section_test(q, f, t)
        if st_ is not None:
            return st_
        sec, (own, sh, ninc, incok) = q
        p = F.call_path(t) or ''
        if p.endswith('ParsedPacket::rrcount_inc'):
            rs = F.roots(f, self._defs(f), t['args'][1])
            ok = bool(rs) and all(r == ('param', self.param) for r in rs)
            q2 = (sec, (own, sh, min(ninc + 1, 2), incok and ok))
            return [(q2, 0), (q, 1)]
        if p.endswith('ParsedPacket::recompute') or p.endswith('ParsedPacket::insertion_offset'):
            # helpers with their own Section-independent logic: keep the state, fork on the outcome
            return [(q, 0), (q, 1)]
        return None


class PointerFreeAu(Automaton):
    """state (mc, bad): known value of ParsedPacket.maybe_compressed on this path / sites where the buffer was spliced or
    name bytes overwritten while the packet might still contain compression pointers"""
    init = (None, frozenset())

    def __init__(self, facts, pe):
        self.facts = facts
        self.pe = pe
        self.defs = {}

    def _defs(self, f):
        if f['key'] not in self.defs:
            self.defs[f['key']] = F.single_defs(f)
        return self.defs[f['key']]

    def _ev(self, q, f, obj):
        mc, bad = q
        for kind, site in self.pe.at(f['key'], obj):
            if kind in ('len', 'bytes') and mc != 0:
                bad = bad | {site}
        return (mc, bad)

    def on_stmt(self, q, f, bi, s, env):
        mc, bad = self._ev(q, f, s)
        if s['k'] == 'assign' and F.last_field(s['place']) == (PP, 'maybe_compressed'):
            e = F.expr_rv(f, self._defs(f), s['rv'])
            mc = e[1] if e[0] == 'const' and e[1] in (0, 1) else None
        return (mc, bad)

    def on_call(self, q, f, bi, t, env, flow):
        q2 = self._ev(q, f, t)
        if q2 != q:
            keys = [ck for ck in self.facts.callee_keys(f, t) if not ck.startswith('ext:') and ck != '<indirect>']
            if not keys:
                return [(q2, None)]
        return None

    def on_edge(self, q, f, bi, t, value, target, env):
        mc, bad = q
        e = F.expr(f, self._defs(f), t['discr'])
        neg = False
        while e[0] == 'unop' and e[1] == 'Not':
            neg = not neg
            e = e[2]
        if F.is_load_of(e, PP, 'maybe_compressed'):
            v = value if value is not None else (1 if all(x[0] == 0 for x in t['targets']) else None)
            if v is not None and neg:
                v = 1 - v
            if v is not None:
                if mc is not None and mc != v:
                    return 'PRUNE'
                return (v, bad)
        return q


def pointer_free_rule(ctx, facts, cfg, rid='C09.e', entries=None, floor=5):
    from analysis.pkt import PacketEvents
    pe = PacketEvents(facts)
    flow = PathFlow(facts, PointerFreeAu(facts, pe))
    if entries is None:
        entries = ['parsed_packet::ParsedPacket::insert_rr'] + facts.inst_keys('rr_iterator::TypedIterable::set_raw_name') + facts.inst_keys('rr_iterator::TypedIterable::delete')
    n = 0
    for key in entries:
        f = facts.fn(key)
        if f is None:
            ctx.missing(rid, key)
            continue
        n += 1
        exits = flow.summary(key, PointerFreeAu.init)
        bad = set()
        for (q, kind) in exits:
            bad |= set(q[1])
        ctx.instance(rid, '%s: every splice / name overwrite happens on a packet known to be pointer-free' % key, ok=not bad, site=f['at'])
        for site in sorted(bad):
            ctx.violation(rid, key, 'splice-while-maybe-compressed', '%s can resize the packet or overwrite name bytes (at %s) on a path where maybe_compressed is not known to be false: '
                          'compression pointers of *other* records into the moved / overwritten bytes would then designate something else' % (key.split('::')[-1].split('@')[0], site),
                          site=site, config=cfg)
    if n < floor:
        ctx.violation(rid, '<floor>', 'splicing operations', 'found %d splicing operations, expected %d' % (n, floor), kind='below-floor')


def run(ctx):
    for cfg in ctx.configs():
        facts = ctx.facts(cfg)
        names = section_names(facts)
        pointer_free_rule(ctx, facts, cfg)
        if cfg != 'hooks':
            from rules import geometry
            geometry.resize_rule(ctx, facts, cfg, 'C09.a')
            geometry.shift_closure_rule(ctx, facts, cfg, 'C09.a-offsets')
            geometry.insert_rule(ctx, facts, cfg, 'C09.a', 'C09.a-arith', facts.const_val('constants::DNS_MAX_UNCOMPRESSED_SIZE') or 8192)
        from rules import C11
        C11.delete_protocol_rule(ctx, facts, cfg, 'C09.d-delete')
        C11.classification_rule(ctx, facts, cfg, 'C09.d-sections')
        from rules import C10
        C10.clean_failure_rule(ctx, facts, cfg, 'C09.g', ['parsed_packet::ParsedPacket::insert_rr', 'parsed_packet::ParsedPacket::insert_rr_from_string'], floor=2)
        # ---------------- C09.b --------------------------------------------------
        layout.check_writers(ctx, facts, cfg, 'C09.b')
        for key in facts.inst_keys('rr_iterator::RdataIterable::rr_ip'):
            layout.expect(ctx, 'C09.b', facts, cfg, key, [('r', 'after-name', 10, 4), ('r', 'after-name', 10, 16)], 'rr_ip reads where set_rr_ip writes')
        family_rule(ctx, facts, cfg)
        for fn, sign in (('parsed_packet::ParsedPacket::rrcount_inc', 'Add'), ('parsed_packet::ParsedPacket::rrcount_dec', 'Sub')):
            f = facts.fn(fn)
            if f is None:
                ctx.missing('C09.b', fn)
                continue
            flow = PathFlow(facts, CountAu(facts, 2))
            exits = flow.summary(fn, CountAu.init)
            seen = set()
            for (q, kind) in sorted(exits, key=repr):
                if kind != 'Ok':
                    continue
                sec, (g, s, d) = q
                if sec in GET:
                    seen.add(sec)
                    ok = g == GET[sec] and s == GET[sec]
                    ctx.instance('C09.b', '%s(%s): reads %s, writes %s' % (fn.split('::')[-1], sec, g, s), ok=ok, site=f['at'])
                    if not ok:
                        ctx.violation('C09.b', fn, 'count-pair-' + sec, '%s(Section::%s) reads the header count `%s` and writes `%s`; both must be `%s`'
                                      % (fn.split('::')[-1], sec, g, s, GET[sec]), site=f['at'], config=cfg)
            miss = set(GET) - seen
            if miss:
                ctx.violation('C09.b', fn, 'sections-not-covered', '%s has no successful path for section(s) %s' % (fn, sorted(miss)), site=f['at'], kind='undecided', config=cfg)
            # +-1: the stored value is old +/- 1
            defs = F.single_defs(f)
            steps = set()
            for bi, b in F.blocks(f):
                for st in b['stmts']:
                    if st['k'] == 'assign' and not st['place']['proj']:
                        e = F.expr_rv(f, defs, st['rv'])
                        if e[0] == 'binop' and e[1] in ('Add', 'Sub') and e[3] == ('const', 1):
                            steps.add(e[1])
                for tt in [b['term']]:
                    # count.checked_add(1) / checked_sub(1) (the refusal at the limit is the None arm)
                    if tt['k'] == 'call' and (F.call_path(tt) or '').rsplit('::', 1)[-1] in ('checked_add', 'checked_sub') and len(tt['args']) == 2 \
                            and F.expr(f, defs, tt['args'][1]) == ('const', 1):
                        steps.add('Add' if (F.call_path(tt) or '').endswith('checked_add') else 'Sub')
            ok = steps == {sign}
            ctx.instance('C09.b', '%s changes the count by exactly one (%s 1)' % (fn.split('::')[-1], sign), ok=ok, site=f['at'])
            if not ok:
                ctx.violation('C09.b', fn, 'step', '%s must change the count by exactly %s1; found %s' % (fn.split('::')[-1], '+' if sign == 'Add' else '-', sorted(steps)), site=f['at'], config=cfg)
        # ---------------- C09.c --------------------------------------------------
        fn = 'parsed_packet::ParsedPacket::insertion_offset'
        f = facts.fn(fn)
        if f is None:
            ctx.missing('C09.c', fn)
        else:
            flow = PathFlow(facts, InsertionAu(facts, 2))
            exits = flow.summary(fn, InsertionAu.init)
            got = {}
            for (q, kind) in exits:
                if kind == 'Ok' and q[0] in LATER:
                    got.setdefault(q[0], set()).add(q[1])
            for sec, want in LATER.items():
                chains = got.get(sec, set())
                ok = chains == {tuple(want)}
                ctx.instance('C09.c', 'insertion_offset(%s) consults %s then the packet end' % (sec, list(want)), ok=ok, site=f['at'])
                if not ok:
                    ctx.violation('C09.c', fn, 'insertion-' + sec, 'insertion_offset(Section::%s) must consult %s (in that order) before falling back to the packet end; it consults %s'
                                  % (sec, want, sorted(chains)), site=f['at'], config=cfg)
        fn = 'parsed_packet::ParsedPacket::insert_rr'
        f = facts.fn(fn)
        if f is None:
            ctx.missing('C09.c', fn)
        else:
            flow = PathFlow(facts, InsertAu(facts, 2))
            exits = flow.summary(fn, InsertAu.init)
            bysec = {}
            sem_table = None
            for (q, kind) in exits:
                if kind == 'Ok' and q[0] in LATER:
                    bysec.setdefault(q[0], set()).add(q[1])
            for sec in LATER:
                pays = bysec.get(sec, set())
                want_sh = frozenset(LATER[sec]) | (frozenset({'offset_edns'}) if LATER[sec] else frozenset())
                ok = bool(pays) and all(p[0] == OWN[sec] and p[1] == want_sh for p in pays)
                if not ok:
                    # written another way than or() / map(): decide the same table from what the function does to the fields
                    if sem_table is None:
                        from rules import offsets
                        sem_table = offsets.insert_table(facts)
                    tab, why_ = sem_table
                    if tab is not None and tab.get(sec, (False,))[0]:
                        ok = True
                        ctx.instance('C09.c', 'insert_rr(%s): offsets decided from the E4 summary (%d successful case(s)): own start present, later sections and the OPT area moved by the inserted length' % (sec, len(tab[sec][1])), ok=True, site=f['at'])
                ctx.instance('C09.c', 'insert_rr(%s): own start %s recorded, shifts %s' % (sec, OWN[sec], sorted(want_sh)), ok=ok, site=f['at'])
                if not ok:
                    ctx.violation('C09.c', fn, 'shift-table-' + sec, 'insert_rr(Section::%s) must record %s with or(Some(insertion_offset)) and shift exactly %s; found %s'
                                  % (sec, OWN[sec], sorted(want_sh), sorted((p[0], sorted(p[1])) for p in pays)), site=f['at'], config=cfg)
                # ---------------- C09.d ------------------------------------------
                okd = bool(pays) and all(p[2] == 1 and p[3] for p in pays)
                ctx.instance('C09.d', 'insert_rr(%s): exactly one rrcount_inc of the section argument on every successful path' % sec, ok=okd, site=f['at'])
                if not okd:
                    ctx.violation('C09.d', fn, 'inc-' + sec, 'a successful path of insert_rr(Section::%s) performs %s rrcount_inc call(s)%s'
                                  % (sec, sorted({p[2] for p in pays}), '' if all(p[3] for p in pays) else ' with a section other than the argument'), site=f['at'], config=cfg)
    ctx.assume('cursor invariants of accepted packets; byte identity of untouched records is a run-time equality and is not decided')


def family_rule(ctx, facts, cfg):
    """set_rr_ip: the A arm (type == Type::A) accepts only IpAddr::V4 and writes 4 bytes, the AAAA arm only V6 and 16 bytes."""
    rid = 'C09.b'
    for key in facts.inst_keys('rr_iterator::RdataIterable::set_rr_ip'):
        f = facts.fns[key]
        defs = F.single_defs(f)
        tvals = {v['name']: int(v['discr']) for v in facts.adts.get('constants::Type', {}).get('variants', [])}
        dom = F.dominators(f)
        arms = {}   # type name -> guard true-edge block
        for gi, gb in F.blocks(f):
            t = gb['term']
            if t['k'] != 'switch':
                continue
            e = F.expr(f, defs, t['discr'])
            if e[0] == 'binop' and e[1] == 'Eq':
                for side in (e[2], e[3]):
                    x = side
                    while x[0] in ('call', 'cast') and (x[2] if x[0] == 'call' else True):
                        x = x[2][0] if x[0] == 'call' else x[2]
                    if x[0] == 'agg' and x[1] == 'constants::Type':
                        arms[x[2]] = t['otherwise'] if all(v == 0 for v, _ in t['targets']) else [tb for v, tb in t['targets'] if v == 1][0]
        writes = [(bi, g) for bi, b in F.blocks(f) for g in [None]]
        tups = layout.tuples(facts, key)
        # locate the copy sites by block
        sites = {}
        for bi, b in F.blocks(f):
            t = b['term']
            if t['k'] == 'call' and (F.call_path(t) or '').endswith('copy_from_slice'):
                tr = layout.Tracer(f, facts)
                base, off, sym, ln = tr.trace(t['args'][0])
                sites[bi] = (off, ln)
        want = {'A': 4, 'AAAA': 16}
        for tn, width in want.items():
            g = arms.get(tn)
            okw = g is not None and any((g in dom.get(bi, ()) or g == bi) and ln == width for bi, (off, ln) in sites.items())
            crossed = g is not None and any((g in dom.get(bi, ()) or g == bi) and ln != width for bi, (off, ln) in sites.items())
            ctx.instance(rid, '%s: the Type::%s arm writes %d address bytes' % (key.split('@')[0], tn, width), ok=okw and not crossed, site=f['at'])
            if not okw or crossed:
                ctx.violation(rid, key, 'family-' + tn, 'set_rr_ip: under rr_type() == Type::%s exactly %d address bytes must be written (address family checked against the record type)' % (tn, width),
                              site=f['at'], config=cfg)
