"""C04 — header, question and EDNS summaries equal what the bytes say (structural + bit-level clauses).

  C04.a bits       tid, flags (opcode/rcode masked, extended flags in the upper half, 0 when absent), opcode, rcode, is_response
                   and dnssec (= DO for queries, AD for responses) are, bit for bit, the specified functions of the header bytes
  C04.b capture    parse_opt captures max_payload (2,2), ext_rcode (4,1), edns_version (5,1), ext_flags (6,2) and the option
                   length (8,2) relative to the end of the OPT owner name (all reads precede the 10-byte skip), each summary field
                   is fed by the getter of the same role; max_payload is 512 in DNSSector::new; parse() copies every summary
                   into the ParsedPacket field of the same role
  C04.c count      edns_count is zeroed before the option loop and incremented exactly once per successfully skipped option
  C04.d question   all three question getters read type / class at (0,2) / (2,2) behind the question name, and locate that
                   position by the *wire* length of the name (final_offset of the copy, or raw_name_len), never by the length of
                   its decompressed form
  C04.e name source  the name component of every (name, type, class) the getters build comes from the pointer-following decoder
                   (copy_uncompressed_name / raw_name_to_str) applied to (packet(), offset_question), or from the cache; raw copies of
                   packet bytes only where maybe_compressed is known false; question_raw derives from question_raw0

Not decided: the decoders' own label loops (byte identity of the three textual forms).  Cache coherence is C08.b.
"""
from analysis import facts as F
from analysis.bits import BV, BF, TOP, Interp, View, Undecided, ite
from analysis.cfg import PathFlow, Automaton
from rules import layout
from rules.C12 import check_bits, hdr, word, FLAG_BITS, OPCODE_BITS, RCODE_BITS, header_bits

PP = 'parsed_packet::ParsedPacket'
DS = 'dns_sector::DNSSector'
ROLE = {'ext_rcode': 'opt_rr_ext_rcode', 'edns_version': 'opt_rr_edns_version', 'max_payload': 'opt_rr_max_payload', 'ext_flags': 'opt_rr_edns_ext_flags'}
COPY = {'offset_edns': 'edns_start', 'ext_rcode': 'ext_rcode', 'edns_version': 'edns_version', 'ext_flags': 'ext_flags',
        'edns_count': 'edns_count', 'max_payload': 'max_payload'}


def bits_rule(ctx, facts, cfg):
    rid = 'C04.a'
    I = Interp(facts.fns)
    H = hdr()
    w = word(H).bits
    ext = [BF.var('E') & BF.var('e%d' % i) for i in range(16)]
    specs = [
        ('tid', H['P'][1].bits + H['P'][0].bits),
        ('flags', [w[i] if i in FLAG_BITS else BF.const(0) for i in range(16)] + ext),
        ('opcode', [w[i] for i in reversed(OPCODE_BITS)] + [BF.const(0)] * 4),
        ('rcode', [w[i] for i in reversed(RCODE_BITS)] + [BF.const(0)] * 4),
        ('is_response', [w[15]]),
        ('dnssec', [ite(~w[15], ext[15], w[5])]),
    ]
    for name, exp in specs:
        key = PP + '::' + name
        f = facts.fn(key)
        if f is None:
            ctx.missing(rid, key)
            continue
        # the summaries hold whether or not an OPT record was seen: evaluate with the optional EDNS fields absent and present
        from analysis.bits import EnumV
        scenarios = [('no OPT', {'ext_rcode': EnumV('std::option::Option', 0, []), 'edns_version': EnumV('std::option::Option', 0, [])}),
                     ('OPT seen', {'ext_rcode': EnumV('std::option::Option', 1, [BV.sym('x', 8)]), 'edns_version': EnumV('std::option::Option', 1, [BV.sym('v', 8)])})]
        for sc_name, fields in scenarios:
            try:
                I.self_fields = fields
                r, m = I.run(key, ['SELF'], H)
                got = r.bits if isinstance(r, BV) else [r]
                check_bits(ctx, rid, key, 'result of %s() [%s]' % (name, sc_name), got, exp, f['at'], cfg)
            except Exception as e:  # noqa
                ctx.violation(rid, key, 'undecided', 'bit-level evaluation of %s failed: %s: %s' % (key, type(e).__name__, e), site=f['at'], kind='undecided', config=cfg)
        I.self_fields = {}
    f = facts.fn(PP + '::max_payload')
    if f:
        defs = F.single_defs(f)
        ok = False
        for bi, b in F.blocks(f):
            for s in b['stmts']:
                if s['k'] == 'assign' and not s['place']['proj'] and s['place']['local'] == 0:
                    e = F.expr_rv(f, defs, s['rv'])
                    ok = F.is_load_of(e, PP, 'max_payload')
        ctx.instance(rid, 'max_payload() returns the captured field', ok=ok, site=f['at'])
        if not ok:
            ctx.violation(rid, PP + '::max_payload', 'source', 'max_payload() does not return ParsedPacket.max_payload', site=f['at'], config=cfg)


def opt_getter_bits_rule(ctx, facts, cfg):
    """C04.b (bit-exact part): each OPT getter returns exactly the big-endian field the loader read, zero-extended - no mask, shift or swap on the way."""
    rid = 'C04.b'
    from analysis.bits import EnumV
    T = layout.table()['opt']
    spec = {'opt_rr_max_payload': T['udp_payload'], 'opt_rr_ext_rcode': T['ext_rcode'], 'opt_rr_edns_version': T['version'],
            'opt_rr_edns_ext_flags': T['flags'], 'opt_rr_rdlen': T['rdlength']}
    mem = {'R': [BV.sym('r%d_' % i, 8) for i in range(16)]}

    def const_of(bv):
        if not isinstance(bv, BV) or not all(b.is_const() for b in bv.bits):
            raise Undecided('loader offset is not a constant')
        return sum((b.tt & 1) << n for n, b in enumerate(bv.bits))

    def be16(args, m):
        k = const_of(args[1])
        return EnumV('std::result::Result', 0, [BV(m['R'][k + 1].bits + m['R'][k].bits)])

    def u8(args, m):
        return EnumV('std::result::Result', 0, [m['R'][const_of(args[1])]])
    models = {'DNSSector::be16_load': be16, 'DNSSector::u8_load': u8}
    for g, (off, width) in sorted(spec.items()):
        key = DS + '::' + g
        f = facts.fn(key)
        if f is None:
            ctx.missing(rid, key)
            continue
        try:
            r, _ = Interp(facts.fns, models).run(key, ['SELF'], mem)
        except Undecided as e:
            ctx.violation(rid, key, 'bits-undecided', 'cannot evaluate %s bit for bit: %s' % (g, e), kind='undecided', site=f['at'], config=cfg)
            continue
        got = r.items[0] if isinstance(r, EnumV) and r.vi == 0 and r.items else None
        exp = []
        for i in range(width):
            exp = mem['R'][off + i].bits + exp
        ok = isinstance(got, BV) and len(got.bits) >= len(exp) and all(gb is not TOP and gb == eb for gb, eb in zip(got.bits, exp)) and \
            all(gb is not TOP and gb.is_const() and not (gb.tt & 1) for gb in got.bits[len(exp):])
        ctx.instance(rid, '%s returns bytes [%d,%d) behind the owner name, big-endian, zero-extended, every bit unchanged' % (g, off, off + width), ok=ok, site=f['at'])
        if not ok:
            ctx.violation(rid, key, 'bits', '%s must return the %d-byte field at offset %d of the OPT record (RFC 6891 6.1.2) bit for bit; it returns %s' % (g, width, off, repr(got)[:160]), site=f['at'], config=cfg)


def capture_rule(ctx, facts, cfg):
    rid = 'C04.b'
    layout.check_opt(ctx, facts, cfg, rid)
    opt_getter_bits_rule(ctx, facts, cfg)
    key = DS + '::parse_opt'
    f = facts.fn(key)
    if f is None:
        ctx.missing(rid, key)
        return
    defs = F.single_defs(f)
    dom = F.dominators(f)
    inc_blocks = [bi for bi, b in F.blocks(f) if b['term']['k'] == 'call' and (F.call_path(b['term']) or '').endswith('DNSSector::increment_offset')]
    getter_blocks = {}
    for bi, b in F.blocks(f):
        t = b['term']
        if t['k'] == 'call':
            p = (F.call_path(t) or '').split('::')[-1]
            if p.startswith('opt_rr_'):
                getter_blocks.setdefault(p, []).append(bi)
    # each summary field is fed by the getter of the same role
    for bi, b in F.blocks(f):
        for s in b['stmts']:
            if s['k'] != 'assign':
                continue
            lf = F.last_field(s['place'])
            if lf and lf[0] == DS and lf[1] in ROLE:
                rs = F.roots(f, defs, s['rv']['x']) if s['rv']['k'] == 'use' else [r for o in s['rv'].get('ops', []) for r in F.roots(f, defs, o)]
                srcs = sorted({r[1].split('::')[-1] for r in rs if r[0] == 'call'})
                ok = srcs == [ROLE[lf[1]]]
                ctx.instance(rid, 'parse_opt: %s <- %s' % (lf[1], srcs), ok=ok, site=s['at'])
                if not ok:
                    ctx.violation(rid, key, 'role-' + lf[1], 'DNSSector.%s is fed by %s, expected %s (crossed OPT fields)' % (lf[1], srcs, ROLE[lf[1]]), site=s['at'], config=cfg)
    for need in list(ROLE.values()) + ['opt_rr_rdlen']:
        gbs = getter_blocks.get(need) or []
        # the skip of the fixed OPT part is the increment by a constant; every such skip must come after some read of the field
        skips = [ib for ib in inc_blocks if len(f['blocks'][ib]['term']['args']) > 1 and F.expr(f, defs, f['blocks'][ib]['term']['args'][1])[0] == 'const'] or inc_blocks
        ok = bool(gbs) and bool(skips) and all(any(gb in dom.get(ib, ()) for gb in gbs) for ib in skips)
        if not ok and gbs and skips:
            # reads made in a helper whose Ok and Err outcomes share a join block: decide on feasible paths
            from analysis.cfg import must_pass
            ok = must_pass(facts, key, gbs, skips) == set()
        ctx.instance(rid, 'parse_opt: %s is read before the OPT header is skipped' % need, ok=bool(ok), site=f['at'])
        if not ok:
            ctx.violation(rid, key, 'order-' + need, '%s must be read (relative to the end of the owner name) before increment_offset(DNS_OPT_RR_HEADER_SIZE)' % need, site=f['at'], config=cfg)
    for ib in inc_blocks[:1]:
        e = F.expr(f, defs, f['blocks'][ib]['term']['args'][1])
        ok = e == ('const', layout.table()['opt']['size'])
        ctx.instance(rid, 'parse_opt skips the %d-byte OPT fixed part' % layout.table()['opt']['size'], ok=ok, site=f['blocks'][ib]['term']['at'])
        if not ok:
            ctx.violation(rid, key, 'opt-header-size', 'parse_opt skips %s bytes of OPT fixed part, RFC 6891 says 10' % (e,), site=f['blocks'][ib]['term']['at'], config=cfg)
    # DNSSector::new: max_payload 512, summaries None
    nf = facts.fn(DS + '::new')
    if nf is None:
        ctx.missing(rid, DS + '::new')
    else:
        nd = F.single_defs(nf)
        found = False
        for bi, b in F.blocks(nf):
            for s in b['stmts']:
                if s['k'] == 'assign' and s['rv']['k'] == 'aggregate' and s['rv'].get('adt') == DS:
                    found = True
                    fields = s['rv']['fields']
                    vals = {fields[i]: F.expr(nf, nd, o) for i, o in enumerate(s['rv']['ops'])}
                    ok = vals.get('max_payload') == ('const', 512)
                    ctx.instance(rid, 'DNSSector::new: max_payload = %s' % (vals.get('max_payload'),), ok=ok, site=s['at'])
                    if not ok:
                        ctx.violation(rid, DS + '::new', 'default-max_payload', 'without an OPT record the advertised UDP payload must be 512; new() sets %s' % (vals.get('max_payload'),), site=s['at'], config=cfg)
                    for fl in ('ext_rcode', 'edns_version', 'ext_flags', 'edns_start', 'edns_end'):
                        v = vals.get(fl)
                        okn = v is not None and v[0] == 'agg' and v[2] == 'None'
                        ctx.instance(rid, 'DNSSector::new: %s = None' % fl, ok=okn, site=s['at'])
                        if not okn:
                            ctx.violation(rid, DS + '::new', 'default-' + fl, 'DNSSector::new must start with %s = None' % fl, site=s['at'], config=cfg)
        if not found:
            ctx.violation(rid, DS + '::new', 'aggregate', 'DNSSector aggregate not found in new()', kind='undecided', config=cfg)
    # who writes DNSSector.max_payload
    writers = set()
    for k2, f2 in facts.fns.items():
        if '@' in k2:
            continue
        for bi, b in F.blocks(f2):
            for s in b['stmts']:
                if s['k'] == 'assign' and F.last_field(s['place']) == (DS, 'max_payload'):
                    writers.add(k2)
    ok = writers <= {DS + '::parse_opt'}
    ctx.instance(rid, 'writers of DNSSector.max_payload: %s (+ the constructor)' % sorted(writers), ok=ok)
    if not ok:
        ctx.violation(rid, sorted(writers - {DS + '::parse_opt'})[0], 'max_payload-writer', 'DNSSector.max_payload is written outside parse_opt/new: %s' % sorted(writers), config=cfg)
    # parse(): 1:1 copy into ParsedPacket
    pf = facts.fn(DS + '::parse')
    if pf is None:
        ctx.missing(rid, DS + '::parse')
        return
    pd = F.single_defs(pf)
    found = False
    for bi, b in F.blocks(pf):
        for s in b['stmts']:
            if s['k'] == 'assign' and s['rv']['k'] == 'aggregate' and s['rv'].get('adt') == PP:
                found = True
                fields = s['rv']['fields']
                for i, o in enumerate(s['rv']['ops']):
                    fl = fields[i]
                    if fl not in COPY:
                        continue
                    rs = F.roots(pf, pd, o)
                    srcs = sorted({F.last_field(r[1])[1] for r in rs if r[0] == 'load' and F.last_field(r[1]) and F.last_field(r[1])[0] == DS})
                    ok = srcs == [COPY[fl]]
                    ctx.instance(rid, 'parse: ParsedPacket.%s <- DNSSector.%s' % (fl, srcs), ok=ok, site=s['at'])
                    if not ok:
                        ctx.violation(rid, DS + '::parse', 'copy-' + fl, 'ParsedPacket.%s is built from DNSSector.%s, expected DNSSector.%s' % (fl, srcs, COPY[fl]), site=s['at'], config=cfg)
    if not found:
        ctx.violation(rid, DS + '::parse', 'aggregate', 'ParsedPacket aggregate not found in parse()', kind='undecided', config=cfg)


class CountAu(Automaton):
    """(zeroed, pending skips, bad flags)"""
    init = (False, 0, frozenset())

    def __init__(self):
        self.defs = {}

    def on_stmt(self, q, f, bi, s, env):
        z, pend, bad = q
        if s['k'] == 'assign' and F.last_field(s['place']) == (DS, 'edns_count'):
            if f['key'] not in self.defs:
                self.defs[f['key']] = F.single_defs(f)
            e = F.expr_rv(f, self.defs[f['key']], s['rv'])
            if e == ('const', 0):
                return (True, 0, bad)
            if e[0] == 'binop' and e[1] == 'Add' and F.is_load_of(e[2], DS, 'edns_count') and e[3] == ('const', 1):
                if pend != 1:
                    bad = bad | {'increment-without-a-skipped-option'}
                return (z, 0, bad)
            return (z, pend, bad | {'edns_count-written-otherwise'})
        return q

    def on_call(self, q, f, bi, t, env, flow):
        z, pend, bad = q
        if (F.call_path(t) or '').endswith('DNSSector::edns_skip_rr'):
            b2 = bad
            if pend != 0:
                b2 = b2 | {'option-skipped-without-being-counted'}
            if not z:
                b2 = b2 | {'edns_count-not-zeroed-before-the-loop'}
            return [((z, 1, b2), 0), (q, 1)]
        return None


def count_rule(ctx, facts, cfg):
    rid = 'C04.c'
    key = DS + '::parse_opt'
    if facts.fn(key) is None:
        ctx.missing(rid, key)
        return
    flow = PathFlow(facts, CountAu())
    exits = flow.summary(key, CountAu.init)
    probs = {}
    for (q, kind) in exits:
        if kind != 'Ok':
            continue
        z, pend, bad = q
        ps = set(bad)
        if pend:
            ps.add('option-skipped-without-being-counted')
        if not z:
            ps.add('edns_count-not-zeroed')
        for p in ps:
            probs[p] = (q, kind)
    ctx.instance(rid, 'parse_opt: edns_count zeroed, +1 per skipped option, on every successful path', ok=not probs, site=facts.fn(key)['at'])
    for p, (q, kind) in sorted(probs.items()):
        w = flow.witness(key, CountAu.init, q, kind)
        ctx.violation(rid, key, p, 'edns_count bookkeeping in parse_opt: ' + p.replace('-', ' '), site=facts.fn(key)['at'], path=flow.describe_path(key, w), config=cfg)


def question_rule(ctx, facts, cfg):
    rid = 'C04.d'
    Q = layout.table()['question']
    n = 0
    for name in ('question_raw0', 'question', 'qtype_qclass'):
        key = PP + '::' + name
        f = facts.fn(key)
        if f is None:
            ctx.missing(rid, key)
            continue
        n += 1
        tups = [t for t in layout.tuples(facts, key) if t[0] == 'r' and t[3] == 2 and t[1] == 'packet']
        offs = sorted({t[2] for t in tups})
        ok = offs == sorted([Q['qtype'][0], Q['qclass'][0]])
        ctx.instance(rid, '%s reads qtype/qclass at %s behind the name' % (name, offs), ok=ok, site=f['at'])
        if not ok:
            ctx.violation(rid, key, 'offsets', '%s must read 2 bytes at +%d (type) and +%d (class) behind the question name; it reads at %s' % (name, Q['qtype'][0], Q['qclass'][0], offs), site=f['at'], config=cfg)
        # where is "behind the name"?  the index start of the packet slice must derive from a wire position
        defs = F.single_defs(f)
        tr = layout.Tracer(f, facts)
        for bi, b in F.blocks(f):
            t = b['term']
            if t['k'] == 'call' and (F.call_path(t) or '').endswith('read_u16'):
                # walk back to the Index call on the packet with a non-constant start
                cur = t['args'][0]
                for _ in range(12):
                    if cur.get('k') not in ('copy', 'move'):
                        break
                    d = defs.get(cur['place']['local'])
                    if d is None:
                        break
                    if d[0] == 'call':
                        tt = d[1]
                        p = F.call_path(tt) or ''
                        if 'ndex' in p and len(tt['args']) > 1:
                            e = F.expr(f, defs, tt['args'][1])
                            if layout._const_start(e) is None:
                                rs = F.roots(f, defs, tt['args'][1])
                                fields = {F.last_field(r[1]) for r in rs if r[0] == 'load'}
                                calls = {r[1].split('::')[-1] for r in rs if r[0] == 'call'}
                                bad = ('compress::UncompressedNameResult', 'name_len') in fields or 'raw_name_len_after_decompression' in calls
                                good = ('compress::UncompressedNameResult', 'final_offset') in fields or 'raw_name_len' in calls or 'skip_name' in calls or 'copy_uncompressed_name' in calls
                                okp = good and not bad
                                ctx.instance(rid, '%s: position behind the name derives from %s' % (name, sorted(x[1] for x in fields if x) + sorted(calls)), ok=okp, site=tt['at'])
                                if not okp:
                                    ctx.violation(rid, key, 'position-source', '%s locates qtype/qclass with %s: the position behind the question name must come from the wire length of the name '
                                                  '(final_offset / raw_name_len), not from the length of its decompressed form' % (name, sorted(x[1] for x in fields if x) + sorted(calls)), site=tt['at'], config=cfg)
                            cur = tt['args'][0]
                            continue
                        break
                    rv = d[1]
                    if rv['k'] in ('use', 'cast'):
                        cur = rv['x']
                    elif rv['k'] in ('ref', 'rawptr'):
                        cur = {'k': 'copy', 'place': rv['place']}
                    else:
                        break
    if n < 3:
        ctx.violation(rid, '<floor>', 'question getters', 'found %d of 3 question getters' % n, kind='below-floor')


def name_source_rule(ctx, facts, cfg):
    """C04.e: where the bytes of the question name come from."""
    rid = 'C04.e'
    DEC_COPY = 'compress::Compress::copy_uncompressed_name'
    DEC_STR = 'compress::Compress::raw_name_to_str'
    CTORS = ('std::vec::Vec::<T>::with_capacity', 'std::vec::Vec::<T>::new')
    n = 0
    for fn in (PP + '::question_raw0', PP + '::question'):
        f = facts.fn(fn)
        if f is None:
            ctx.missing(rid, fn)
            continue
        defs = F.single_defs(f)
        dom = F.dominators(f)

        def is_pkt(rs):
            return bool(rs) and all(r[0] == 'call' and r[1] == PP + '::packet' for r in rs)

        def is_cached(rs):
            return bool(rs) and all(r[0] == 'load' and any(fl[1] == 'cached' for fl in F.fields_of(r[1])) for r in rs)

        def is_qoff(rs):
            return bool(rs) and all(r[0] == 'load' and F.last_field(r[1]) == (PP, 'offset_question') for r in rs)

        # decoders applied to the question: (packet(), offset_question) or (cached name, 0)
        filled = set()      # `at` of the Vec constructor calls whose vector a pointer-following copy fills
        good_str = set()    # `at` of raw_name_to_str calls on the question
        for bi, b in F.blocks(f):
            t = b['term']
            if t['k'] != 'call':
                continue
            p = F.call_path(t) or ''
            if p == DEC_COPY and len(t['args']) >= 3:
                if is_pkt(F.roots(f, defs, t['args'][1])) and is_qoff(F.roots(f, defs, t['args'][2])):
                    for r in F.roots(f, defs, t['args'][0]):
                        if r[0] == 'call' and r[1] in CTORS:
                            filled.add(r[2].get('at'))
            if p == DEC_STR and len(t['args']) >= 2:
                a0, a1 = F.roots(f, defs, t['args'][0]), F.roots(f, defs, t['args'][1])
                if (is_pkt(a0) and is_qoff(a1)) or (is_cached(a0) and all(r[0] == 'const' and str(r[1]) == '0' for r in a1)):
                    good_str.add(t.get('at'))
        # blocks where the packet is known to hold no compression pointers
        plain = set()
        for gi, gb in F.blocks(f):
            t = gb['term']
            if t['k'] == 'switch':
                e = F.expr(f, defs, t['discr'])
                neg = False
                while e[0] == 'unop' and e[1] == 'Not':
                    neg = not neg
                    e = e[2]
                if F.is_load_of(e, PP, 'maybe_compressed'):
                    for v, tb in t['targets']:
                        if (v == 0) != neg:
                            plain.add(tb)
                    if neg and all(v == 0 for v, _ in t['targets']):
                        pass
        for bi, b in F.blocks(f):
            for st in b['stmts']:
                if not (st['k'] == 'assign' and st['rv']['k'] == 'aggregate' and st['rv'].get('agg') == 'tuple' and len(st['rv']['ops']) == 3):
                    continue
                n += 1
                bad = []
                for r in F.roots(f, defs, st['rv']['ops'][0]):
                    if r[0] == 'load' and any(fl[1] == 'cached' for fl in F.fields_of(r[1])):
                        continue
                    if r[0] == 'call' and r[1] == DEC_STR and r[2].get('at') in good_str:
                        continue
                    if r[0] == 'call' and r[1] in CTORS and r[2].get('at') in filled:
                        continue
                    # a raw copy is fine where the packet is known to be pointer-free
                    rb = next((i_ for i_, b_ in F.blocks(f) if b_['term'] is r[2]), None) if r[0] == 'call' else None
                    if rb is not None and any(pb in dom.get(rb, ()) or pb == rb for pb in plain):
                        continue
                    bad.append(r[1] if r[0] == 'call' else '%s %s' % (r[0], str(r[1])[:40]))
                ctx.instance(rid, '%s: name component of the (name, type, class) tuple at %s comes from the pointer-following decoder applied to (packet, offset_question) or from the cache' % (fn.split('::')[-1], st.get('at')),
                             ok=not bad, site=st.get('at'))
                for what in sorted(set(bad)):
                    ctx.violation(rid, fn, 'name-source:' + str(what).split('::')[-1], '%s can return a question name produced by `%s` instead of the pointer-following decoder (copy_uncompressed_name / raw_name_to_str on '
                                  'packet(), offset_question): a question name written with a compression pointer comes back as raw wire bytes' % (fn.split('::')[-1], what), site=st.get('at'), config=cfg)
    # question_raw derives from question_raw0
    f = facts.fn(PP + '::question_raw')
    if f is None:
        ctx.missing(rid, PP + '::question_raw')
    else:
        calls = [F.call_path(b['term']) for _, b in F.blocks(f) if b['term']['k'] == 'call']
        ok = (PP + '::question_raw0') in calls and not any(c in (DEC_COPY, DEC_STR) or (c or '').endswith('to_vec') for c in calls)
        ctx.instance(rid, 'question_raw is question_raw0 minus the root label', ok=ok, site=f['at'])
        if not ok:
            ctx.violation(rid, PP + '::question_raw', 'not-derived', 'question_raw no longer derives its result from question_raw0', site=f['at'], config=cfg)
    if n < 4:
        ctx.violation(rid, '<floor>', 'name tuples', 'found %d (name, type, class) tuples in the question getters, expected at least 4' % n, kind='below-floor')


def run(ctx):
    for cfg in ctx.configs():
        facts = ctx.facts(cfg)
        bits_rule(ctx, facts, cfg)
        capture_rule(ctx, facts, cfg)
        count_rule(ctx, facts, cfg)
        question_rule(ctx, facts, cfg)
        name_source_rule(ctx, facts, cfg)
    ctx.trust('tables/rfc_layout.json (RFC 1035 4.1.1/4.1.2, RFC 6891 6.1.2/6.1.3) and the bit specs in rules/C04.py, rules/C12.py')
