"""Rules shared by the three re-emitters (decompressor C05, compressor C06, renamer C07)."""
import re
from analysis import facts as F
from analysis.cfg import PathFlow, Automaton
from analysis.e4 import E4
from analysis.interp import Int, TRUNC_OF
from rules import layout
from rules.C02 import type_sets, policy

INCL = 'parsed_packet::ParsedPacket::into_iter_additional_including_opt'
SKIP = 'parsed_packet::ParsedPacket::into_iter_additional'
NEXT_INCL = '::next_including_opt'


# ------------------------------------------------------------------------------------------------ dispatch sets
def dispatch_rule(ctx, facts, cfg, rid, key, what):
    pol = policy()
    want = set(pol['name_bearing'])
    s = type_sets(facts, key)
    if s is None:
        ctx.missing(rid, key)
        return
    ok = s == want
    ctx.instance(rid, '%s treats exactly %s as name-bearing' % (key.split('::')[-1], sorted(s)), ok=ok, site=facts.fn(key)['at'])
    if not ok:
        ctx.violation(rid, key, 'name-bearing-types', '%s: %s rewrites names in %s, the validator checks names in %s' % (what, key.split('::')[-1], sorted(s), sorted(want)),
                      site=facts.fn(key)['at'], config=cfg)


# ------------------------------------------------------------------------------------------------ rdlen accounting (E4)
def accounting_rule(ctx, facts, cfg, rid, key, havoc, opaque=(), floor=2):     # 3 sites on the pinned tree; arms sharing a rewrite have fewer
    """Every rdlength rewritten by `key` equals the number of bytes the output grew behind the 10-byte record header."""
    if facts.fn(key) is None:
        ctx.missing(rid, key)
        return
    e4 = E4(facts, havoc=havoc, opaque=list(opaque))
    try:
        e4.summarize(key)
    except Exception as e:  # noqa
        ctx.violation(rid, key, 'undecided', 'the abstract interpreter could not analyse %s: %s: %s' % (key, type(e).__name__, e), kind='undecided', config=cfg)
        return
    seen = {}
    for p in e4.probes():
        if p.get('kind') != 'write_u16' or not p['site'].startswith(key):
            continue
        at = p['site'].split('@')[-1]      # block and source position: two copies of one line (a helper spliced in twice) are two sites
        val = p['val']
        if val is not None and len(val.t) == 1 and val.c == 0 and next(iter(val.t)) in TRUNC_OF:
            val = TRUNC_OF[next(iter(val.t))]
        if val is None or p['total'] is None:
            seen.setdefault(at, []).append((None, None))
            continue
        expect = p['total'] - (p['off'] - 8) - 10
        seen.setdefault(at, []).append(p['C'].bounds(val - expect))
    for site_, bs in sorted(seen.items()):
        at = site_.split(':', 1)[-1]
        los = [b[0] for b in bs]
        his = [b[1] for b in bs]
        proved = all(b == (0, 0) for b in bs)
        refuted = all(b[0] is not None and b[1] is not None and (b[0] > 0 or b[1] < 0) for b in bs)
        ctx.instance(rid, '%s: rdlength written at %s = bytes emitted behind the record header (value - expected in %s)' % (key.split('::')[-1], at, sorted(set(bs), key=str)), ok=proved, site=at)
        if not proved:
            ctx.violation(rid, key, 'rdlen@' + _arm_name(facts, key, at), ('the data length written at %s differs from the number of bytes emitted for that record by %s' % (at, sorted(set(bs), key=str)))
                          if refuted else 'cannot establish that the data length written at %s equals the bytes emitted for the record (difference in %s)' % (at, sorted(set(bs), key=str)),
                          site=at, kind='rule-violated' if refuted else 'undecided', config=cfg)
    if len(seen) < floor:
        ctx.violation(rid, '<floor>', 'rdlen writes in ' + key.split('::')[-1], 'found %d data-length rewrites in %s, expected %d (NS/CNAME/PTR, MX, SOA)' % (len(seen), key, floor), kind='below-floor')
    ctx.sample({'rule': rid, 'fn': key, 'rdlen_write_sites': {k: [list(b) for b in v][:2] for k, v in seen.items()}, 'unmodelled_elsewhere': list(e4.unmodelled())[:3]})


def _arm_name(facts, key, at):
    # stable-ish instance name: ordinal of the write site within the function
    f = facts.fns[key]
    sites = sorted({b['term']['at'] for _, b in F.blocks(f) if b['term']['k'] == 'call' and (F.call_path(b['term']) or '').endswith('write_u16')}, key=lambda s: int(str(s).split(':')[-1]))
    return '#%d' % (sites.index(at) + 1) if at in sites else 'site'


class _PendingAu(Automaton):
    """state (pending, complaints): a name inside record data has been re-emitted and the data length not yet rewritten"""
    init = (False, frozenset())

    def __init__(self, facts, key, name_calls, rdata_blocks):
        self.facts, self.key, self.name_calls, self.rdata_blocks = facts, key, name_calls, rdata_blocks

    def on_call(self, q, f, bi, t, env, flow):
        if f['key'] != self.key:
            return None
        pending, bad = q
        p = F.call_path(t) or ''
        if p.endswith('write_u16'):
            return [((False, bad), None)]
        if any(p.endswith(nc) for nc in self.name_calls) and bi in self.rdata_blocks:
            q2 = (True, bad)
            dty = f['locals'][t['dest']['local']] if not t['dest']['proj'] else {}
            if dty.get('adt') == 'std::result::Result':
                return [(q2, 0), (q, 1)]
            return [(q2, None)]
        if pending and (p.endswith('::next_including_opt') or p.endswith('DNSIterable>::next') or p.endswith('::next')) and 'Iterator' not in p:
            return [((pending, bad | {t.get('at')}), None)]
        return None


def rewrite_on_every_path_rule(ctx, facts, cfg, rid, key, name_calls, floor=2):
    """After a name has been re-emitted inside record data (its length in the output differs from the input in general), every
    successful path to the end of that record's treatment rewrites the data length: no Ok return, and no advance to the next record, is
    reached with the rewrite still pending (path-sensitive; failed paths are ignored, the output is discarded there).  All three
    re-emitters rewrite unconditionally; a conditional "only if it changed" rewrite is reported too: that it is equivalent depends on
    validator facts this rule does not import."""
    f = facts.fn(key)
    if f is None:
        ctx.missing(rid, key)
        return
    defs = F.single_defs(f)
    dom = F.dominators(f)
    # blocks dominated by the true edge of a record-type test: the arms that treat record data
    arm_entries = set()
    for bi, b in F.blocks(f):
        t = b['term']
        if t['k'] != 'switch':
            continue
        rs = F.roots(f, defs, t['discr'])
        if any(r[0] == 'call' and str(r[1]).endswith('::rr_type') for r in rs) or any(r[0] == 'param' for r in rs) and 'constants::Type' in str(F.expr(f, defs, t['discr'])):
            e = F.expr(f, defs, t['discr'])
            if e[0] == 'binop' and e[1] in ('Eq', 'Ne'):
                tru = t['otherwise'] if all(v == 0 for v, _ in t['targets']) else next((tb for v, tb in t['targets'] if v == 1), None)
                fal = next((tb for v, tb in t['targets'] if v == 0), None)
                arm_entries.add(tru if e[1] == 'Eq' else fal)
    rdata_blocks = {bi for bi, _ in F.blocks(f) if any(a is not None and (a == bi or a in dom.get(bi, ())) for a in arm_entries)}
    sites = [(bi, b['term']) for bi, b in F.blocks(f) if b['term']['k'] == 'call' and any((F.call_path(b['term']) or '').endswith(nc) for nc in name_calls) and bi in rdata_blocks]
    au = _PendingAu(facts, key, name_calls, rdata_blocks)
    flow = PathFlow(facts, au)
    exits = flow.summary(key, _PendingAu.init)
    bad_exit = [(q, kind) for (q, kind) in exits if kind in ('Ok', 'ret', 'Some') and q[0]]
    bad_adv = set()
    for (q, kind) in exits:
        bad_adv |= set(q[1])
    ok = not bad_exit and not bad_adv
    ctx.instance(rid, '%s: %d name(s) re-emitted inside record data, each followed by a data-length rewrite on every successful path' % (key.split('::')[-1], len(sites)), ok=ok, site=f['at'])
    if bad_exit:
        q0, k0 = bad_exit[0]
        ctx.violation(rid, key, 'rdlen-rewrite-skipped', '%s can finish a record successfully with a name re-emitted inside its data and the data length not rewritten: the record keeps the input\'s length although '
                      'its data changed size' % key.split('::')[-1], site=f['at'], path=flow.describe_path(key, flow.witness(key, _PendingAu.init, q0, k0)), config=cfg)
    for at in sorted(bad_adv)[:1]:
        ctx.violation(rid, key, 'rdlen-rewrite-skipped-before-next-record', '%s advances to the next record at %s with a data-length rewrite still pending' % (key.split('::')[-1], at), site=at, config=cfg)
    if len(sites) < floor:
        ctx.violation(rid, '<floor>', 'names in record data of ' + key.split('::')[-1], 'found %d names re-emitted inside record data in %s, expected at least %d' % (len(sites), key, floor), kind='below-floor')


def _arm_name_call(facts, f, t):
    sites = sorted({b['term']['at'] for _, b in F.blocks(f) if b['term']['k'] == 'call' and b['term'] is not None and (F.call_path(b['term']) or '') == (F.call_path(t) or '')}, key=lambda s_: int(str(s_).split(':')[-1]))
    return '#%d' % (sites.index(t['at']) + 1) if t['at'] in sites else 'site'


# ------------------------------------------------------------------------------------------------ names treated on every path
NAME_COUNT = {'NS': 1, 'CNAME': 1, 'PTR': 1, 'MX': 1, 'SOA': 2}


def _type_const(e):
    """'NS' when e is `Type::NS.into()` / a cast of it / the constant itself"""
    for _ in range(4):
        if e[0] == 'call' and e[2]:
            e = e[2][0]
        elif e[0] == 'cast':
            e = e[2]
    if e[0] == 'agg' and e[1] == 'constants::Type' and not e[3]:
        return e[2]
    return None


class _NamesAu(Automaton):
    """state (record type known on this path or None, types known to be excluded, names treated so far)"""
    init = (None, frozenset(), 0)

    def __init__(self, key, name_calls):
        self.key, self.name_calls = key, name_calls
        self._defs = {}

    def on_edge(self, q, f, bi, t, value, target, env):
        if f['key'] != self.key:
            return q
        defs = self._defs.setdefault(f['key'], F.single_defs(f))
        e = F.expr(f, defs, t['discr'])
        if e[0] != 'binop' or e[1] not in ('Eq', 'Ne'):
            return q
        v = _type_const(e[2]) or _type_const(e[3])
        if v is None:
            return q
        truth = (value != 0) if value is not None else all(x == 0 for x, _ in t['targets'])
        equal = truth if e[1] == 'Eq' else not truth
        known, excl, n = q
        if equal:
            if (known is not None and known != v) or v in excl:
                return 'PRUNE'
            return (v, excl, n)
        if known == v:
            return 'PRUNE'
        return (known, excl | {v}, n) if known is None else q

    def on_call(self, q, f, bi, t, env, flow):
        if f['key'] != self.key:
            return None
        p = F.call_path(t) or ''
        if any(p.endswith(nc) for nc in self.name_calls):
            return [((q[0], q[1], min(q[2] + 1, 3)), None)]
        return None


def names_on_every_path_rule(ctx, facts, cfg, rid, key, name_calls, who):
    """A record whose type bears names (NS / CNAME / PTR / MX: one, SOA: two) leaves the re-emitter only after that many names
    were handed to the name treatment (expansion / compression / replacement), on every path - a guarded shortcut that copies the
    data of such a record verbatim ("already terminated", "nothing to do") is reported: whether the name needs treatment cannot be
    told from its last byte or its length."""
    f = facts.fn(key)
    if f is None:
        ctx.missing(rid, key)
        return
    # calls that reach a name treatment through a helper count as one treatment each
    direct = set(name_calls)
    helpers = set()
    for bi, b in F.blocks(f):
        t = b['term']
        if t['k'] == 'call':
            p = F.call_path(t) or ''
            if p in facts.fns and not any(p.endswith(nc) for nc in direct):
                seen, _, _, _ = facts.reach([p])
                if any(any(k.endswith(nc) for nc in direct) for k in seen):
                    helpers.add(p)
    au = _NamesAu(key, tuple(direct) + tuple(helpers))
    flow = PathFlow(facts, au)
    exits = flow.summary(key, _NamesAu.init)
    n_ok = 0
    seen_types = set()
    for (q, kind) in sorted(exits, key=repr):
        known, excl, n = q
        if kind == 'Err' or kind == 'None':
            continue
        if known in NAME_COUNT:
            seen_types.add(known)
            want = NAME_COUNT[known]
            if n < want:
                ctx.violation(rid, key, 'verbatim path for a name-bearing type: ' + known,
                              '%s can finish a record of type %s after treating %d of its %d name(s): on that path the record data is emitted without %s' % (key.split('::')[-1], known, n, want, who),
                              site=f['at'], path=flow.describe_path(key, flow.witness(key, _NamesAu.init, q, kind)), config=cfg)
            else:
                n_ok += 1
    ctx.instance(rid, '%s: every path that finishes a record of type %s has treated all of its names [%s]' % (key.split('::')[-1], '/'.join(sorted(seen_types)), cfg), ok=True, site=f['at'])
    if seen_types != set(NAME_COUNT):
        ctx.violation(rid, '<floor>', 'name-bearing types of ' + key.split('::')[-1], 'type tests found in %s for %s only, expected %s' % (key, sorted(seen_types), sorted(NAME_COUNT)), kind='below-floor', config=cfg)


# ------------------------------------------------------------------------------------------------ fixed parts
def _linear(e):
    """(sorted tuple of (leaf, coefficient), constant) for an expression built from +, checked +, casts and constants; None otherwise"""
    if e[0] == 'const' and isinstance(e[1], int):
        return ((), e[1])
    if e[0] == 'cast':
        return _linear(e[2])
    if e[0] == 'field' and len(e) > 2 and isinstance(e[2], tuple):
        return _linear(e[2])
    if e[0] == 'binop' and e[1].startswith(('Add', 'Sub')):
        a, b = _linear(e[2]), _linear(e[3])
        if a is None or b is None:
            return None
        sign = 1 if e[1].startswith('Add') else -1
        terms = dict(a[0])
        for k, c in b[0]:
            terms[k] = terms.get(k, 0) + sign * c
        return (tuple(sorted((k, c) for k, c in terms.items() if c)), a[1] + sign * b[1])
    return (((repr(e), 1),), 0)


def _const_alternatives(f, local):
    """the set of literals a multiply-assigned local can hold (`let k = if .. { 2 } else { 0 }`), or None"""
    vals = set()
    for _, b in F.blocks(f):
        for st in b['stmts']:
            if st['k'] == 'assign' and not st['place']['proj'] and st['place']['local'] == local:
                rv = st['rv']
                if rv['k'] == 'use' and rv['x']['k'] == 'const' and isinstance(rv['x'].get('val'), int):
                    vals.add(rv['x']['val'])
                else:
                    return None
        t = b['term']
        if t['k'] == 'call' and not t['dest']['proj'] and t['dest']['local'] == local:
            return None
    return vals or None


def _extent_alternatives(f, end, start):
    """possible constant values of end - start, the symbolic parts cancelling and multiply-assigned locals ranging over their literals"""
    le_, ls_ = _linear(end), _linear(start)
    if le_ is None or ls_ is None:
        return None
    terms = dict(le_[0])
    for k, c in ls_[0]:
        terms[k] = terms.get(k, 0) - c
    base = le_[1] - ls_[1]
    outs = {base}
    for k, c in terms.items():
        if not c:
            continue
        m = re.match(r"\('local', (\d+)\)$", k)
        alts = _const_alternatives(f, int(m.group(1))) if m else None
        if alts is None:
            return None
        outs = {o + c * a for o in outs for a in alts}
    return outs


def fixed_parts_rule(ctx, facts, cfg, rid, key):
    """Question arm copies exactly 4 bytes, MX arm copies header + 2, SOA copies 20 behind the second name; second SOA name starts where the first ended."""
    f = facts.fn(key)
    if f is None:
        ctx.missing(rid, key)
        return
    defs = F.single_defs(f)
    pol = policy()
    H = pol['rr_header_size']
    tr = layout.Tracer(f, facts)
    lens = []
    merged = False
    for bi, b in F.blocks(f):
        t = b['term']
        if t['k'] == 'call' and (F.call_path(t) or '').split('::')[-1] in ('extend_from_slice', 'extend'):
            e = None
            # the source slice: index expression
            cur = t['args'][1]
            for _ in range(8):
                if cur.get('k') not in ('copy', 'move'):
                    break
                d = defs.get(cur['place']['local'])
                if d is None:
                    break
                if d[0] == 'call' and 'ndex' in (F.call_path(d[1]) or '') and len(d[1]['args']) > 1:
                    e = F.expr(f, defs, d[1]['args'][1])
                    break
                if d[0] == 'rv' and d[1]['k'] in ('use', 'cast'):
                    cur = d[1]['x']
                elif d[0] == 'rv' and d[1]['k'] in ('ref', 'rawptr'):
                    cur = {'k': 'copy', 'place': d[1]['place']}
                else:
                    break
            if e is not None and e[0] == 'agg' and e[1] in ('std::ops::RangeTo', 'std::ops::Range'):
                end = e[3][-1]
                start = e[3][0] if e[1] == 'std::ops::Range' else ('const', 0)
                c_end = layout._const_start(end)
                c_start = layout._const_start(start)
                if c_end is not None and c_start is not None:
                    lens.append((c_end - c_start, t['at']))
                elif end[0] == 'binop' and end[1] == 'Add' and end[3][0] == 'const' and start == end[2]:
                    lens.append((end[3][1], t['at']))
                else:
                    # end - start as linear forms over the non-constant leaves: constant when the symbolic parts cancel
                    le_, ls_ = _linear(end), _linear(start)
                    if le_ is not None and ls_ is not None and le_[0] == ls_[0]:
                        lens.append((le_[1] - ls_[1], t['at']))
                    else:
                        alts_ = _extent_alternatives(f, end, start)
                        if alts_:
                            for a_ in sorted(alts_):
                                lens.append((a_, t['at']))      # one site standing for several arms (`10 + k`, k = 0 | 2)
                            merged = True
                        else:
                            lens.append((None, t['at']))
    consts = sorted(x for x, _ in lens if x is not None)
    want = sorted([pol['question_fixed'], H, H + pol['mx_name_at'], H, pol['soa_fixed']])
    ok = consts == want or (merged and set(consts) == set(want))     # merged arms: the same sizes, fewer sites
    ctx.instance(rid, '%s copies fixed parts of %s bytes (question 4, header 10, MX header+2 12, SOA header 10, SOA trailer 20)' % (key.split('::')[-1], consts), ok=ok, site=f['at'])
    if not ok:
        ctx.violation(rid, key, 'fixed-parts', '%s copies constant-size pieces of %s bytes; expected %s (question fixed part 4, record header 10, MX header + preference 12, SOA trailer 20)'
                      % (key.split('::')[-1], consts, want), site=f['at'], config=cfg)
    # the name walks start where they must: rdata+10 (NS..), rdata+12 (MX), rdata+10 and first.final_offset (SOA)
    starts = []
    for bi, b in F.blocks(f):
        t = b['term']
        if t['k'] == 'call' and (F.call_path(t) or '').split('::')[-1] in ('copy_uncompressed_name', 'copy_compressed_name'):
            a = t['args'][-1]
            e = F.expr(f, defs, a)
            rs = F.roots(f, defs, a)
            if any(r[0] == 'load' and F.last_field(r[1]) and F.last_field(r[1])[1] == 'final_offset' for r in rs):
                starts.append('prev.final_offset')
            elif any(r[0] == 'load' and F.last_field(r[1]) and F.last_field(r[1])[1] == 'name_len' for r in rs):
                starts.append('prev.name_len(!)')
            else:
                k = None
                x = e
                tot = 0
                okc = True
                while x[0] == 'binop' and x[1] == 'Add' and x[3][0] == 'const':
                    tot += x[3][1]
                    x = x[2]
                if x[0] == 'binop' and x[1] == 'Add':
                    # `rdata + 10 + k` with k = 0 | 2 chosen by the type: one walk site standing for several arms
                    lin_ = _linear(e)
                    alts_ = None
                    if lin_ is not None:
                        locs_ = [(k_, c_) for k_, c_ in lin_[0] if re.match(r"\('local', \d+\)$", k_) and _const_alternatives(f, int(re.findall(r'\d+', k_)[0])) is not None]
                        if len(locs_) == 1 and locs_[0][1] == 1:
                            alts_ = {lin_[1] + a_ for a_ in _const_alternatives(f, int(re.findall(r'\d+', locs_[0][0])[0]))}
                    if alts_:
                        for a_ in sorted(alts_):
                            starts.append('rdata+%d' % a_)
                        merged = True
                        continue
                starts.append('rdata+%d' % tot)
    want_s = sorted(['rdata+%d' % H, 'rdata+%d' % (H + pol['mx_name_at']), 'rdata+%d' % H, 'prev.final_offset'])
    ok = sorted(starts) == want_s or (merged and set(starts) == set(want_s))
    ctx.instance(rid, '%s starts its name walks at %s' % (key.split('::')[-1], sorted(starts)), ok=ok, site=f['at'])
    if not ok:
        ctx.violation(rid, key, 'name-starts', '%s starts its name walks at %s; expected %s (the second SOA name begins at the wire position where the first one ended)'
                      % (key.split('::')[-1], sorted(starts), want_s), site=f['at'], config=cfg)


# ------------------------------------------------------------------------------------------------ cursor typestate
def cursor_rule(ctx, facts, cfg, rid, keys, floor=None):
    """A re-emitter walks the additional section with OPT included, from start to end."""
    n = 0
    for key in keys:
        f = facts.fn(key)
        if f is None:
            ctx.missing(rid, key)
            continue
        seen, _, _, _ = facts.reach([key])
        for k in sorted(seen):
            g = facts.fns[k]
            if not (k.startswith('compress::Compress::') or k.startswith('renamer::Renamer::')):
                continue
            res = _cursor_flow(facts, g)
            for (kind, at0, advs, passed) in res:
                n += 1
                bad = [a for a in advs if kind == 'incl' and not a[0].endswith(NEXT_INCL)]
                ok = kind == 'incl' and not bad
                # cursors handed to a helper: the helper's parameter must be advanced with next_including_opt only
                for (hk, pidx, at) in passed:
                    hf = facts.fns.get(hk)
                    if hf is not None:
                        hadv = _param_advances(facts, hf, pidx)
                        hb = [a for a in hadv if not a[0].endswith(NEXT_INCL)]
                        if kind == 'incl' and hb:
                            ok = False
                            bad += hb
                ctx.instance(rid, '%s: additional-section cursor from %s, advanced by %s' % (k.split('::')[-1], 'into_iter_additional_including_opt' if kind == 'incl' else 'into_iter_additional',
                             sorted({a[0].split('::')[-1] for a in advs}) + ['-> ' + h[0].split('::')[-1] for h in passed]), ok=ok, site=at0)
                if kind == 'skip':
                    ctx.violation(rid, k, 'opt-skipping-cursor', '%s re-emits the additional section from into_iter_additional(), which skips the OPT record: the OPT record is dropped or re-ordered in the output' % k.split('::')[-1],
                                  site=at0, config=cfg)
                for (p, at) in bad:
                    ctx.violation(rid, k, 'advance-skips-opt', 'the additional-section cursor of %s starts with OPT included but is advanced with %s, which skips an OPT record that follows another record'
                                  % (k.split('::')[-1], p.split('::')[-1]), site=at, config=cfg)
    floor = len(keys) if floor is None else floor
    if n < floor:
        ctx.violation(rid, '<floor>', 'additional-section walks', 'found %d re-emitting walks of the additional section, expected %d' % (n, floor), kind='below-floor')


def _cursor_flow(facts, f):
    import collections
    edges = collections.defaultdict(set)
    calls = []
    for i, b in F.blocks(f):
        for s in b['stmts']:
            if s['k'] != 'assign':
                continue
            rv = s['rv']
            d = s['place']['local']
            srcs = []
            if rv['k'] in ('use', 'cast'):
                srcs = [F.op_local(rv['x'])]
            elif rv['k'] == 'aggregate':
                srcs = [F.op_local(o) for o in rv['ops']]
            elif rv['k'] == 'ref':
                srcs = [rv['place']['local']]
            for x in srcs:
                if x is not None:
                    edges[x].add(d)
        t = b['term']
        if t['k'] == 'call' and t['callee']['k'] == 'direct':
            calls.append((i, F.call_path(t) or '', [F.op_local(a) for a in t['args']], t['dest']['local'], t['at'], t))
    origins = {}
    for (i, p, args, dest, at, t) in calls:
        if p == INCL:
            origins[dest] = ('incl', at)
        elif p == SKIP:
            origins[dest] = ('skip', at)
    out = []
    for o, (kind, at0) in origins.items():
        T = {o}
        changed = True
        while changed:
            changed = False
            for x in list(T):
                for d in edges.get(x, ()):
                    if d not in T:
                        T.add(d)
                        changed = True
            for (i, p, args, dest, at, t) in calls:
                if ('::next' in p) and args and args[0] in T and dest not in T:
                    T.add(dest)
                    changed = True
        adv = [(p, at) for (i, p, args, dest, at, t) in calls if '::next' in p and args and args[0] in T]
        passed = []
        for (i, p, args, dest, at, t) in calls:
            if '::next' in p or p in (INCL, SKIP):
                continue
            for ai, a in enumerate(args):
                if a in T:
                    for ck in facts.callee_keys(f, t):
                        if ck in facts.fns:
                            passed.append((ck, ai + 1, at))
        out.append((kind, at0, adv, passed))
    return out


def _param_advances(facts, f, pidx):
    import collections
    edges = collections.defaultdict(set)
    calls = []
    for i, b in F.blocks(f):
        for s in b['stmts']:
            if s['k'] == 'assign':
                rv = s['rv']
                srcs = []
                if rv['k'] in ('use', 'cast'):
                    srcs = [F.op_local(rv['x'])]
                elif rv['k'] == 'aggregate':
                    srcs = [F.op_local(o) for o in rv['ops']]
                elif rv['k'] == 'ref':
                    srcs = [rv['place']['local']]
                for x in srcs:
                    if x is not None:
                        edges[x].add(s['place']['local'])
        t = b['term']
        if t['k'] == 'call' and t['callee']['k'] == 'direct':
            calls.append((F.call_path(t) or '', [F.op_local(a) for a in t['args']], t['dest']['local'], t['at']))
    T = {pidx}
    changed = True
    while changed:
        changed = False
        for x in list(T):
            for d in edges.get(x, ()):
                if d not in T:
                    T.add(d)
                    changed = True
        for (p, args, dest, at) in calls:
            if '::next' in p and args and args[0] in T and dest not in T:
                T.add(dest)
                changed = True
    return [(p, at) for (p, args, dest, at) in calls if '::next' in p and args and args[0] in T]


# ------------------------------------------------------------------------------------------------ sibling walkers
def walker_siblings_rule(ctx, facts, cfg, rid):
    """The trusted name walker that returns a wire position (copy_uncompressed_name) must treat `final_offset` exactly as the
    validator's walker does: remember the position behind the FIRST pointer only (x = x.or(Some(offset + 2))) and fall back to
    the running offset."""
    ref = 'compress::Compress::check_compressed_name'
    sib = 'compress::Compress::copy_uncompressed_name'
    shapes = {}
    for key in (ref, sib):
        f = facts.fn(key)
        if f is None:
            ctx.missing(rid, key)
            return
        defs = F.single_defs(f)
        upd = []
        fin = []
        for bi, b in F.blocks(f):
            t = b['term']
            if t['k'] == 'call':
                p = F.call_path(t) or ''
                if p.endswith('Option::<T>::or') or p.endswith('Option::<T>::or_else') or p.endswith('Option::<T>::unwrap_or') or p.endswith('Option::<T>::unwrap_or_else'):
                    a1 = F.expr(f, defs, t['args'][1]) if len(t['args']) > 1 else None
                    upd.append((p.split('::')[-1], _shape(a1)))
            for s in b['stmts']:
                if s['k'] == 'assign' and not s['place']['proj'] and s['rv']['k'] == 'aggregate' and s['rv'].get('adt') == 'std::option::Option' and s['rv'].get('variant') == 'Some':
                    e = F.expr(f, defs, s['rv']['ops'][0])
                    if e[0] == 'binop' and e[1] == 'Add' and e[3] == ('const', 2):
                        # is this Some(offset + 2) stored directly into the final_offset local (not through `or`)?
                        dst = s['place']['local']
                        used_by_or = any(b2['term']['k'] == 'call' and (F.call_path(b2['term']) or '').endswith('Option::<T>::or') and
                                         any(F.op_local(a) == dst for a in b2['term']['args']) for _, b2 in F.blocks(f))
                        kind_ = 'via-or' if used_by_or else 'direct-overwrite'
                        if not used_by_or:
                            # `if final_offset.is_none() { final_offset = Some(offset + 2) }` keeps the first one just as well
                            dom_ = F.dominators(f)
                            for gi, gb in F.blocks(f):
                                gt = gb['term']
                                if gt['k'] != 'switch':
                                    continue
                                ge_ = F.expr(f, defs, gt['discr'])
                                none_edges = []
                                if ge_[0] == 'call' and str(ge_[1]).endswith('Option::<T>::is_none'):
                                    none_edges = [gt['otherwise']] if all(v == 0 for v, _ in gt['targets']) else [tb for v, tb in gt['targets'] if v == 1]
                                elif ge_[0] == 'call' and str(ge_[1]).endswith('Option::<T>::is_some'):
                                    none_edges = [tb for v, tb in gt['targets'] if v == 0]
                                elif ge_[0] == 'discr':
                                    none_edges = [tb for v, tb in gt['targets'] if v == 0]
                                if any(ne == bi or ne in dom_.get(bi, ()) for ne in none_edges):
                                    kind_ = 'via-or'
                        fin.append(kind_)
        shapes[key] = (sorted(upd), sorted(fin))
    # both walkers keep the position behind the FIRST pointer (in whichever spelling) and fall back to the running offset
    keeps = {k: bool(v[1]) and 'direct-overwrite' not in v[1] for k, v in shapes.items()}
    ok = (shapes[ref] == shapes[sib] or (keeps[ref] and keeps[sib])) and 'direct-overwrite' not in shapes[sib][1]
    ctx.instance(rid, 'final_offset handling: validator %s / copy %s' % (shapes[ref], shapes[sib]), ok=ok, site=facts.fn(sib)['at'])
    if not ok:
        ctx.violation(rid, sib, 'final_offset-first-pointer', 'copy_uncompressed_name updates final_offset as %s, the validator\'s walker as %s: the position returned must be the one behind the FIRST pointer of the name '
                      '(keep-first `or`), otherwise the caller continues reading at the wrong wire position after a chain of pointers' % (shapes[sib], shapes[ref]), site=facts.fn(sib)['at'], config=cfg)


def _shape(e):
    if e is None:
        return None
    if e[0] == 'agg':
        return ('agg', e[2], tuple(_shape(x) for x in e[3]))
    if e[0] == 'binop':
        return ('binop', e[1], _shape(e[2]), _shape(e[3]))
    if e[0] == 'const':
        return ('const', e[1])
    if e[0] in ('local', 'load'):
        return ('var',)
    if e[0] == 'cast':
        return _shape(e[2])
    return (e[0],)


def open_ended_rule(ctx, facts, cfg, rid, TOP, prefixes, floor, who):
    """No copy from the input packet into the output, anywhere below the re-emitting entry point TOP, takes an open-ended range
    `packet[a..]`: inside a record walk that emits everything behind the current record a second time."""
    if facts.fn(TOP) is None:
        ctx.missing(rid, TOP)
        return
    seen, _, _, _ = facts.reach([TOP])
    n = 0
    for k in sorted(seen):
        if not (k.startswith(tuple(prefixes)) or k.startswith('parsed_packet::ParsedPacket::copy_')):
            continue
        f = facts.fns[k]
        defs = F.single_defs(f)
        for bi, b in F.blocks(f):
            t = b['term']
            if t['k'] == 'call' and (F.call_path(t) or '').split('::')[-1] in ('extend', 'extend_from_slice') and len(t['args']) > 1:
                cur = t['args'][1]
                idx = None
                base_packet = False
                for _ in range(10):
                    if cur.get('k') not in ('copy', 'move'):
                        break
                    pl = cur['place']
                    if any(fl[1] == 'packet' for fl in F.fields_of(pl)):
                        base_packet = True
                    d = defs.get(pl['local'])
                    if d is None:
                        break
                    if d[0] == 'call':
                        p = F.call_path(d[1]) or ''
                        if 'ndex' in p and len(d[1]['args']) > 1:
                            e_i = F.expr(f, defs, d[1]['args'][1])
                            bounded = e_i[0] == 'agg' and e_i[1] in ('std::ops::Range', 'std::ops::RangeTo', 'std::ops::RangeInclusive', 'std::ops::RangeToInclusive')
                            if idx is None or bounded:
                                idx = e_i if (idx is None or bounded) else idx
                            cur = d[1]['args'][0]
                            continue
                        if p.endswith('ParsedPacket::packet') or p.endswith('::packet'):
                            base_packet = True
                        break
                    rv = d[1]
                    if rv['k'] in ('use', 'cast'):
                        cur = rv['x']
                    elif rv['k'] in ('ref', 'rawptr'):
                        cur = {'k': 'copy', 'place': rv['place']}
                    else:
                        break
                if base_packet:
                    n += 1
                    open_ = idx is not None and idx[0] == 'agg' and idx[1] == 'std::ops::RangeFrom'
                    ctx.instance(rid, '%s copies a bounded range of the input packet at %s' % (k.split('::')[-1], t['at']), ok=not open_, site=t['at'])
                    if open_:
                        ctx.violation(rid, k, 'open-ended-copy', '%s appends `packet[a..]` (everything up to the end of the input) to the output: records behind the copied one are emitted twice' % k.split('::')[-1],
                                      site=t['at'], config=cfg)
    if n < floor:
        ctx.violation(rid, '<floor>', 'copies from the input packet', 'found %d copies from the input packet in %s, expected at least %d' % (n, who, floor), kind='below-floor')
