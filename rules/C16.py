"""C16 — C error descriptions are private to the calling thread.

Proof by non-interference (E1): the only storage a failing C-table call writes and
`error_description` reads is a thread-local slot, so no interleaving of other threads
can reach it.  Rules (all decided on the MIR of the current tree):

  C16.shared-static   no process-wide mutable / interior-mutable static is reachable from any C-table entry
  C16.slot-writers    every store to CErr.description_cs happens inside a closure run by LocalKey::with
                      on a key whose backing statics are all #[thread_local]
  C16.publish         the *const CErr handed to the caller derives from that same thread-local RefCell
  C16.reader          error_description touches nothing but its argument
  C16.most-recent     the body that stores the description cannot reach its return without storing (what is retrieved is the most
                      recent failure of the thread)
  C16.only-on-failure throw_err is only ever called with the payload of an `Err`, and no body that stores to the slot is reachable
                      from the C table once throw_err is cut out of the call graph (the slot changes only on failure)
"""
from analysis import facts as F
from analysis.effects import Effects

CERR = 'c_abi::CErr'
FIELD = 'description_cs'
WITH = ('std::thread::LocalKey::<T>::with', 'std::thread::LocalKey::<T>::try_with',
        'std::thread::LocalKey::<std::cell::RefCell<T>>::with_borrow_mut', 'std::thread::LocalKey::<std::cell::RefCell<T>>::with_borrow')
READER_OK = ('std::ffi::CString::as_bytes', 'std::ffi::CString::as_bytes_with_nul', 'std::ffi::CString::as_ptr',
             'std::ffi::CString::as_c_str', 'core::ffi::CStr::as_ptr', 'core::ffi::CStr::to_bytes',
             'core::ffi::CStr::to_bytes_with_nul', '<std::ffi::CString as std::ops::Deref>::deref',
             'core::slice::<impl [T]>::as_ptr', 'std::ffi::CStr::as_ptr', 'std::ffi::CStr::to_bytes', 'std::ffi::CStr::to_bytes_with_nul')


def table_entries(facts):
    ft = facts.fn('c_abi::fn_table')
    if ft is None:
        return None
    return sorted(k for p in facts.fnitems_of(ft) for k in [g['key'] for g in facts.bypath.get(p, [])])


def shared_statics(facts):
    return {s['path']: s for s in facts.statics if not s['thread_local'] and (s['mutable'] or not s['freeze'])}


def with_closures(facts):
    """{closure key: (parent key, LocalKey const names referenced by the parent)} for closures handed to LocalKey::with."""
    eff = Effects(facts)
    out = {}
    for key, f in facts.fns.items():
        if f['kind'] == 'Closure':
            continue
        cl_locals = {}
        for i, b in F.blocks(f):
            for s in b['stmts']:
                if s['k'] == 'assign' and s['rv']['k'] == 'aggregate' and s['rv'].get('agg') == 'closure' and not s['place']['proj']:
                    cl_locals[s['place']['local']] = s['rv']['def']
        if not cl_locals:
            continue
        keys = sorted({d for k, d, _ in eff.of(key) if k == 'localkey'})
        for i, b in F.blocks(f):
            t = b['term']
            if t['k'] == 'call' and F.call_path(t) in WITH and len(t['args']) >= 2:
                l = F.op_local(t['args'][1])
                if l in cl_locals:
                    out[cl_locals[l]] = (key, keys)
    return out


def tls_confined(facts, key, wc, callers, seen=None):
    """True iff every upward path from `key` passes through a LocalKey::with closure. Returns (ok, witness)."""
    seen = seen or set()
    if key in wc:
        return True, None
    if key in seen:
        return True, None
    seen.add(key)
    cs = callers.get(key, set())
    if not cs:
        return False, key
    for c in sorted(cs):
        ok, w = tls_confined(facts, c, wc, callers, seen)
        if not ok:
            return False, w
    return True, None


def reverse_graph(facts):
    callers = {}
    for k in facts.fns:
        local, _, _ = facts.out_edges(k)
        for c in local:
            callers.setdefault(c, set()).add(k)
    return callers


def trace_to_param(f, local, depth=0):
    """Follow single definitions of `local` back through borrows / derefs / RefCell+RefMut plumbing to a parameter index."""
    defs = F.single_defs(f)
    cur = local
    steps = []
    for _ in range(24):
        if 1 <= cur <= f['arg_count']:
            return cur, steps
        d = defs.get(cur)
        if d is None:
            return None, steps
        if d[0] == 'rv':
            rv = d[1]
            if rv['k'] in ('ref', 'rawptr'):
                cur = rv['place']['local']
                steps.append('&')
                continue
            if rv['k'] == 'use' and rv['x']['k'] in ('copy', 'move'):
                cur = rv['x']['place']['local']
                continue
            if rv['k'] == 'cast' and rv['x']['k'] in ('copy', 'move'):
                cur = rv['x']['place']['local']
                continue
            return None, steps
        t = d[1]
        p = F.call_path(t) or ''
        if any(x in p for x in ('::borrow_mut', '::borrow', 'Deref>::deref', 'DerefMut>::deref_mut', '::as_ptr', '::get')) and t['args']:
            steps.append(p.split('::')[-1])
            cur = F.op_local(t['args'][0])
            if cur is None:
                return None, steps
            continue
        return None, steps
    return None, steps


def run(ctx):
    pos = ctx.positive()
    ps = shared_statics(pos)
    ctx.rule('C16.shared-static', 'no process-wide (im)mutable-with-interior static reachable from a C-table entry')
    if not {'SHARED', 'COUNTER'} <= {p.split('::')[-1] for p in ps}:
        ctx.violation('C16.shared-static', '<selftest>', 'positive-example', 'the shared-static detector no longer sees the positive examples '
                      '(static Mutex / static mut) in selftest/positive', kind='undecided')
    pw = with_closures(pos)
    if not any(k.startswith('write_tl') for k in pw):
        ctx.violation('C16.slot-writers', '<selftest>', 'positive-example', 'LocalKey::with closure detection no longer matches selftest/positive::write_tl', kind='undecided')

    for cfg in ctx.configs():
        facts = ctx.facts(cfg)
        eff = Effects(facts)
        entries = table_entries(facts)
        if not entries:
            ctx.missing('C16.shared-static', 'c_abi::fn_table')
            return
        te = facts.fn('c_abi::throw_err')
        ed = facts.fn('c_abi::error_description')
        if te is None:
            ctx.missing('C16.slot-writers', 'c_abi::throw_err')
        if ed is None:
            ctx.missing('C16.reader', 'c_abi::error_description')
        if te is None or ed is None:
            return
        # --- shared statics ---------------------------------------------------
        shared = shared_statics(facts)
        agg, seen, parent = eff.transitive(entries + ['c_abi::throw_err'])
        for s in facts.statics:
            bad = s['path'] in shared
            used = [(k, site) for (kind, d), uses in agg.items() if kind in ('static',) and d == s['path'] for (k, site) in uses]
            ctx.instance('C16.shared-static', 'static %s thread_local=%s mutable=%s freeze=%s reachable=%s'
                         % (s['path'], s['thread_local'], s['mutable'], s['freeze'], bool(used) or s['thread_local']),
                         ok=not (bad and used), site=s['at'])
            if bad and used:
                k, site = used[0]
                ctx.violation('C16.shared-static', k, s['path'],
                              'process-wide static `%s` (type %s, %s) is reachable from the C function table; error state kept there is shared by all threads'
                              % (s['path'], s['ty'], 'static mut' if s['mutable'] else 'interior-mutable'),
                              site=site, path=facts.path_to(parent, k), config=cfg)
            if bad and 'CErr' in s['ty']:
                ctx.violation('C16.shared-static', '<static>', s['path'], 'a process-wide static holds a CErr: %s: %s' % (s['path'], s['ty']), site=s['at'], config=cfg)
        ctx.sample({'rule': 'C16.shared-static', 'entries': len(entries), 'reachable_bodies': len(seen), 'statics': [(s['path'], s['thread_local']) for s in facts.statics]})
        # --- writers of the slot ---------------------------------------------
        wc = with_closures(facts)
        callers = reverse_graph(facts)
        nwriters = 0
        slot_writers = {}
        for key, f in sorted(facts.fns.items()):
            if '@' in key:
                continue
            for i, b in F.blocks(f):
                for s in b['stmts']:
                    if s['k'] != 'assign':
                        continue
                    is_slot = (CERR, FIELD) in F.fields_of(s['place']) or (
                        s['place']['ty'].get('adt') == CERR and any(p['k'] == 'deref' for p in s['place']['proj']))
                    is_pub = s['place']['ty'].get('s') == '*const ' + CERR and any(p['k'] == 'deref' for p in s['place']['proj'])
                    if not (is_slot or is_pub):
                        continue
                    nwriters += 1
                    if is_slot:
                        slot_writers.setdefault(key, s['at'])
                    ok, wit = tls_confined(facts, key, wc, callers)
                    rid = 'C16.slot-writers' if is_slot else 'C16.publish'
                    inst = 'store to %s in %s' % ('CErr.description_cs' if is_slot else '*c_err', key)
                    if ok:
                        # the LocalKey(s) used by the with-caller must be backed by thread-local statics only
                        roots = [wc[k] for k in wc if k == key] or []
                        for (par, keys) in roots:
                            for lk in keys:
                                backing = [st for st in facts.statics if st['path'].startswith(lk + '::')]
                                if not backing or not all(st['thread_local'] for st in backing):
                                    ok = False
                                    wit = 'LocalKey %s is not backed by #[thread_local] statics' % lk
                            if not keys:
                                ok = False
                                wit = 'no LocalKey constant found in %s' % par
                    if ok and is_pub:
                        src = F.op_local(s['rv']['x']) if s['rv']['k'] == 'use' else None
                        prm, steps = (None, [])
                        if src is not None:
                            prm, steps = trace_to_param(f, src)
                        if prm != 2:
                            ok = False
                            wit = 'published pointer does not derive from the thread-local RefCell argument (traced to %s via %s)' % (prm, steps)
                    if not ok and is_pub and s['rv']['k'] == 'use':
                        # the pointer may be handed out of the `with` closure and stored by its caller: it must then be the value the
                        # closure returns, and that value must derive from the closure's thread-local argument
                        defs_ = F.single_defs(f)
                        rs_ = F.roots(f, defs_, s['rv']['x'])
                        withs_ = [r for r in rs_ if r[0] == 'call' and any(str(r[1]).endswith(w.split('::', 2)[-1]) or str(r[1]) == w for w in WITH)]
                        if rs_ and len(withs_) == len(rs_):
                            good = True
                            for r in withs_:
                                a1 = r[2]['args'][1] if len(r[2]['args']) > 1 else {}
                                ck_ = (a1.get('ty') or (a1.get('place') or {}).get('ty') or {}).get('def')
                                if ck_ is None:
                                    d_ = defs_.get(F.op_local(a1)) if F.op_local(a1) is not None else None
                                    if d_ and d_[0] == 'rv' and d_[1]['k'] == 'aggregate':
                                        ck_ = d_[1].get('def')
                                cf_ = facts.fns.get(ck_)
                                if cf_ is None:
                                    good = False
                                    break
                                prm_, steps_ = trace_to_param(cf_, 0)
                                if prm_ != 2:
                                    good = False
                                lks_ = wc.get(ck_, (None, []))[1] if ck_ in wc else []
                                for lk in lks_:
                                    backing = [st for st in facts.statics if st['path'].startswith(lk + '::')]
                                    if not backing or not all(st['thread_local'] for st in backing):
                                        good = False
                            if good:
                                ok = True
                    ctx.instance(rid, inst, ok=ok, site=s['at'])
                    if not ok:
                        ctx.violation(rid, key, 'description_cs' if is_slot else 'c_err-out-pointer',
                                      '%s is not confined to the thread-local error slot: %s' % (inst, wit), site=s['at'], config=cfg)
        ctx.floor('C16.slot-writers', 1, 'store to CErr.description_cs')
        ctx.floor('C16.publish', 1, 'store of *const CErr through the out-pointer')
        # --- reader -------------------------------------------------------------
        ragg, rseen, _ = eff.transitive(['c_abi::error_description'])
        rok = True
        for (kind, d), uses in sorted(ragg.items()):
            if kind in ('static', 'tls', 'localkey', 'indirect'):
                rok = False
                ctx.violation('C16.reader', uses[0][0], '%s:%s' % (kind, d), 'error_description reaches %s %s; it must read only the CErr it is given' % (kind, d), site=uses[0][1], config=cfg)
            if kind == 'ext' and d not in READER_OK:
                rok = False
                ctx.violation('C16.reader', uses[0][0], 'ext:' + d, 'error_description calls %s, which is not in the list of accessors of its argument' % d, site=uses[0][1], config=cfg)
        f = ed
        for i, b in F.blocks(f):
            for s in b['stmts']:
                if s['k'] == 'assign' and s['rv']['k'] == 'ref' and (CERR, FIELD) in F.fields_of(s['rv']['place']):
                    src_ = s['rv']['place']['local']
                    if src_ != 1:
                        # a reference to the argument handed on (an accessor method spliced in): follow it back
                        rs_ = F.roots_place(f, F.single_defs(f), {'local': src_, 'proj': [], 'ty': {}})
                        if rs_ and all(r_ == ('param', 1) for r_ in rs_):
                            src_ = 1
                    if src_ != 1:
                        rok = False
                        ctx.violation('C16.reader', 'c_abi::error_description', 'source', 'description read from something other than the argument', site=s['at'], config=cfg)
        ctx.instance('C16.reader', 'error_description: %d bodies, effects %s' % (len(rseen), sorted(k for k in ragg)), ok=rok, site=ed['at'])
        # --- throw_err only on failure -------------------------------------------
        for key, f in sorted(facts.fns.items()):
            if '@' in key:
                continue
            defs = None
            for i, b in F.blocks(f):
                t = b['term']
                if t['k'] == 'call' and F.call_path(t) == 'c_abi::throw_err':
                    defs = defs or F.single_defs(f)
                    a0 = t['args'][0]
                    pl = a0.get('place') if a0['k'] in ('copy', 'move') else None
                    for _ in range(4):
                        if pl is not None and not pl['proj'] and pl['local'] in defs and defs[pl['local']][0] == 'rv' and defs[pl['local']][1]['k'] == 'use' \
                                and defs[pl['local']][1]['x']['k'] in ('copy', 'move'):
                            pl = defs[pl['local']][1]['x']['place']
                    ok = pl is not None and any(p['k'] == 'downcast' and p.get('variant') == 'Err' for p in pl['proj'])
                    ctx.instance('C16.only-on-failure', 'throw_err call in %s' % key, ok=ok, site=t['at'])
                    if not ok:
                        ctx.violation('C16.only-on-failure', key, 'throw_err-arg', 'throw_err is called with a value that is not the payload of an Err: '
                                      'the thread\'s stored description would change without a failure', site=t['at'], config=cfg)
        # ... and nothing but throw_err can reach a body that stores to the slot: with throw_err cut out of the call graph, no
        # slot-writing body is reachable from the C table (a success path that resets or refreshes the description would be)
        seen2, _, _, parent2 = facts.reach(entries, avoid=('c_abi::throw_err',))
        for w, at in sorted(slot_writers.items()):
            ok = w not in seen2
            ctx.instance('C16.only-on-failure', 'body %s stores to the slot and is reachable from the C table only through throw_err' % w, ok=ok, site=at)
            if not ok:
                ctx.violation('C16.only-on-failure', w, 'slot-written-outside-throw_err', 'the thread\'s stored description can be written on a call path that does not go through throw_err '
                              '(%s): it does not stay intact until that thread\'s next failure' % ' -> '.join(x.split('::')[-1] if not x.endswith('}') else x.split('::', 1)[-1] for x in facts.path_to(parent2, w)[-4:]),
                              site=at, path=facts.path_to(parent2, w), config=cfg)
        ctx.floor('C16.only-on-failure', 10, 'throw_err call sites')
        # --- most recent failure: a slot-writing body never returns without having stored --------------
        for w, at in sorted(slot_writers.items()):
            f = facts.fns[w]
            sb = set()
            for i, b in F.blocks(f):
                for s in b['stmts']:
                    if s['k'] == 'assign' and ((CERR, FIELD) in F.fields_of(s['place'])) and F.last_field(s['place']) == (CERR, FIELD):
                        sb.add(i)
            reach = F.reachable_blocks(f, 0, avoid=sb)
            skipping = [i for i in reach if f['blocks'][i]['term']['k'] == 'return']
            ctx.instance('C16.most-recent', '%s: every path to its return stores the description of the failure being reported' % w, ok=not skipping, site=at)
            if skipping:
                ctx.violation('C16.most-recent', w, 'store-can-be-skipped', 'a path through %s returns without storing the new description: the pointer handed out then designates the text of an earlier '
                              'failure of this thread, not the most recent one' % w, site=at, config=cfg)
        ctx.floor('C16.most-recent', 1, 'slot-writing bodies')
    ctx.trust('Rust thread_local!/#[thread_local] semantics: a slot is reachable only from its own thread')
    ctx.assume('C hooks do not pass a CErr pointer obtained on one thread to another thread')
