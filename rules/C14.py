"""C14 — host names convert between text and wire form without loss (structural clauses, E4).

Scope: synth::gen::copy_raw_name_from_str (and its wrapper raw_name_from_str), the text -> wire conversion every builder and
the C entries raw_name_from_str / set_name go through.

  C14.a no panic     every potential panic of the conversion (slice ranges name[label_start..i], name[label_start..],
                     label_len += 1 on u8) is discharged by the abstract interpreter for every input string; the one obligation that
                     needs `label_start <= name.len()` is discharged by the structural lemma "label_start is only ever assigned 0 or
                     an index yielded by enumerate() over name", which is checked on the MIR
  C14.b label bytes  every label length byte the conversion emits lies in [1, L] with L exactly the policy value 62 (<= 63, so the
                     byte can never be mistaken for a compression pointer), and the terminator pushed is 0
  C14.c total size   on every Ok exit the output buffer holds at most 253 bytes; every Err exit is reached through one of the
                     three documented refusals
  C14.d read-back    in TypedIterable::name and ParsedPacket::question, for every decoded name: (per-byte map of raw_name_to_str, evaluated
                     for all 256 byte values by E3) followed by (the standard ASCII fold if applied on every path) = ASCII lower-casing
  C14.e pre-check    a rejection on the text length alone refuses only lengths >= 253 (the longest acceptable text, an absolute name of
                     wire length 253, has 252 bytes)

Not decided: that the emitted labels are exactly the dot-separated labels of the input (needs the loop invariant
label_len = i - label_start), the read-back through raw_name_to_str, and the exact set of accepted names.
"""
from analysis import facts as F
from analysis.e4 import E4
from analysis.interp import Int

FN = 'synth::gen::copy_raw_name_from_str'
LABEL_MAX = 62
TOTAL_MAX = 253


def lemma_label_start(facts, f):
    """Every local used as the START of a range that slices the input (`name[start..i]`, `name[start..]`) is only ever assigned the
    constant 0 or the index component of enumerate().next() - found by that role, whatever the variable is called."""
    defs = F.single_defs(f)
    starts = set()
    for bi, b in F.blocks(f):
        for s in b['stmts']:
            if s['k'] == 'assign' and s['rv']['k'] == 'aggregate' and str(s['rv'].get('adt', '')).startswith(('std::ops::Range', 'core::ops::Range')) and s['rv']['ops']:
                o = s['rv']['ops'][0]
                if o.get('k') in ('copy', 'move') and not o['place']['proj']:
                    l = o['place']['local']
                    # look through one temporary
                    d = defs.get(l)
                    if d and d[0] == 'rv' and d[1]['k'] == 'use' and d[1]['x']['k'] in ('copy', 'move') and not d[1]['x']['place']['proj']:
                        l = d[1]['x']['place']['local']
                    starts.add(l)
    # keep the multiply-assigned ones (user variables carried across iterations); single-assignment temporaries resolve through them
    cands = []
    for l in sorted(starts):
        n = sum(1 for _, b in F.blocks(f) for s in b['stmts'] if s['k'] == 'assign' and not s['place']['proj'] and s['place']['local'] == l)
        if n >= 2:
            cands.append(l)
    if not cands:
        return None, 'no loop-carried range start found'
    srcs = []
    for ls in cands:
        for bi, b in F.blocks(f):
            for s in b['stmts']:
                if s['k'] == 'assign' and not s['place']['proj'] and s['place']['local'] == ls:
                    e = F.expr_rv(f, defs, s['rv'])
                    if e == ('const', 0):
                        srcs.append('0')
                        continue
                    rs = F.roots(f, defs, s['rv']['x']) if s['rv']['k'] == 'use' else []
                    if rs and all(r[0] == 'call' and 'Enumerate' in r[1] and r[1].endswith('::next') for r in rs):
                        srcs.append('enumerate-index')
                    else:
                        srcs.append('other:' + str(e)[:60])
    ok = bool(srcs) and all(x in ('0', 'enumerate-index') for x in srcs)
    return ok, srcs


def decoder_byte_map(facts):
    """E3 on the per-byte part of Compress::raw_name_to_str: for a symbolic label byte c, what is appended to the result.
    Returns (table, why): table[c] = output byte (int), 'ESC' for the dot escape, or None when the byte's treatment could not be decided."""
    from analysis.bits import BV, BF, Interp, EnumV, CellRef, Undecided, TOP, bf_table
    key = 'compress::Compress::raw_name_to_str'
    f = facts.fn(key)
    if f is None:
        return None, 'raw_name_to_str not found'
    head = some = None
    for bi, b in F.blocks(f):
        t = b['term']
        if t['k'] == 'call' and (F.call_path(t) or '').endswith("Iter<'a, T> as std::iter::Iterator>::next"):
            head, dest, nxt = bi, t['dest']['local'], t['target']
    if head is None:
        return None, 'no byte loop (slice::Iter::next) found in raw_name_to_str'
    sw = f['blocks'][nxt]['term']
    if sw['k'] != 'switch':
        return None, 'unexpected shape behind Iter::next'
    some = next((tb for v, tb in sw['targets'] if v == 1), None)
    if some is None:
        return None, 'no Some arm behind Iter::next'
    events = []
    names = ['c%d' % i for i in range(8)]

    def push(args, m):
        events.append(('push', args[1] if len(args) > 1 else None))
        return ('UNIT',)

    def extend(args, m):
        events.append(('ext', None))
        return ('UNIT',)

    class _I(Interp):
        pass
    it = _I(facts.fns, {'Vec::<T, A>::push': push, "as std::iter::Extend<&'a T>>::extend": extend, 'Vec::<T, A>::extend_from_slice': extend})
    it.stop = {head}
    mem = {'B': [BV.sym('c', 8)]}
    env = {dest: EnumV('std::option::Option', 1, [CellRef('B', 0)])}
    results = []
    # events must be attributed to path conditions: run once per event-free prefix by recording (pc, event) pairs
    rec = []
    orig_exec = it._exec

    def _exec(f_, bb, env_, mem_, pc, results_, depth):
        if pc.is0():
            return
        b_ = f_['blocks'][bb]
        t_ = b_['term']
        if bb not in it.stop and t_['k'] == 'call':
            p_ = (t_['callee'].get('resolved') or t_['callee']['path'])
            if p_.endswith('Vec::<T, A>::push'):
                a_ = [it.operand(a, env_, mem_) for a in t_['args']]
                # statements of this block have not run yet: run them first through the normal path, then record
                n0 = len(events)
                orig_exec(f_, bb, env_, mem_, pc, results_, depth)
                for ev in events[n0:n0 + 1]:
                    rec.append((pc, ev))
                return
            if 'Extend' in p_ or p_.endswith('extend_from_slice'):
                n0 = len(events)
                orig_exec(f_, bb, env_, mem_, pc, results_, depth)
                for ev in events[n0:n0 + 1]:
                    rec.append((pc, ev))
                return
        return orig_exec(f_, bb, env_, mem_, pc, results_, depth)
    it._exec = _exec
    try:
        it._exec(f, some, env, mem, BF.const(1), results, 0)
    except Undecided as e:
        return None, 'byte loop not evaluable: %s' % e
    table = {}
    for c in range(256):
        hits = []
        for pc, (kind, val) in rec:
            acc = bf_table(pc, names)
            if acc is None or c not in acc:
                if acc is None:
                    hits.append(None)
                continue
            if kind == 'ext':
                hits.append('ESC')
            elif isinstance(val, BV) and all(b is not TOP for b in val.bits):
                v = 0
                for i, b in enumerate(val.bits[:8]):
                    tb = bf_table(b, names)
                    if tb is None:
                        v = None
                        break
                    if c in tb:
                        v |= 1 << i
                hits.append(v)
            else:
                hits.append(None)
        table[c] = hits[0] if len(hits) == 1 else None
    return table, None


def precheck_rule(ctx, facts, cfg, f):
    """C14.e: a rejection decided on the text length alone (`name.len() > K` before any byte is looked at) must not exclude an acceptable
    name: the longest acceptable text is 252 bytes (an absolute name of wire length 253), so the smallest length refused must be >= 253."""
    rid = 'C14.e'
    defs = F.single_defs(f)
    n = 0
    for bi, b in F.blocks(f):
        t = b['term']
        if t['k'] != 'switch':
            continue
        e = F.expr(f, defs, t['discr'])
        if not (e[0] == 'binop' and e[1] in ('Gt', 'Ge', 'Lt', 'Le')):
            continue
        def fold(x):
            while x[0] == 'cast':
                x = x[2]
            if x[0] == 'binop' and len(x) > 3:
                a_, b_ = fold(x[2]), fold(x[3])
                if a_[0] == 'const' and b_[0] == 'const' and isinstance(a_[1], int) and isinstance(b_[1], int):
                    v_ = {'Add': a_[1] + b_[1], 'Sub': a_[1] - b_[1], 'Mul': a_[1] * b_[1], 'AddWithOverflow': a_[1] + b_[1], 'SubWithOverflow': a_[1] - b_[1], 'MulWithOverflow': a_[1] * b_[1]}.get(x[1])
                    if v_ is not None:
                        return ('const', v_)
            if x[0] == 'field' and len(x) > 2:
                return fold(x[2]) if isinstance(x[2], tuple) else x
            return x
        l_, r_ = fold(e[2]), fold(e[3])

        def is_len(x):
            return x[0] == 'call' and x[1].endswith('::len') and x[2] and x[2][0][0] in ('ref', 'load') and x[2][0][1].get('local') == 2
        def len_plus(x):
            """(constant, has other terms) when x = name.len() + ..., else None"""
            if is_len(x):
                return 0, False
            if x[0] == 'binop' and x[1] in ('Add', 'AddWithOverflow'):
                for a_, b_ in ((x[2], x[3]), (x[3], x[2])):
                    a_ = fold(a_)
                    lp = len_plus(a_)
                    if lp is not None:
                        b_ = fold(b_)
                        return (lp[0] + b_[1], lp[1]) if b_[0] == 'const' and isinstance(b_[1], int) else (lp[0], True)
            if x[0] == 'field' and len(x) > 2 and isinstance(x[2], tuple):
                return len_plus(x[2])
            return None
        lp_l = len_plus(l_)
        if lp_l is not None and lp_l[1] and r_[0] == 'const' and e[1] in ('Gt', 'Ge'):
            n += 1
            ctx.instance(rid, 'text-length pre-check at %s adds a term that does not apply to every name' % t.get('at'), ok=False, site=t.get('at'))
            ctx.violation(rid, FN, 'precheck-extra-term', 'the conversion refuses a name before looking at it when name.len() plus another quantity (the default zone\'s length?) exceeds %s: the zone is only '
                          'appended to names that do not end in a dot, so acceptable absolute names are refused' % r_[1], site=t.get('at'), config=cfg)
            continue
        if lp_l is not None and not lp_l[1] and r_[0] == 'const' and e[1] in ('Gt', 'Ge'):
            refused_from = r_[1] - lp_l[0] + (1 if e[1] == 'Gt' else 0)
        elif is_len(r_) and l_[0] == 'const' and e[1] in ('Lt', 'Le'):
            refused_from = l_[1] + (1 if e[1] == 'Lt' else 0)
        else:
            continue
        n += 1
        ok = refused_from >= TOTAL_MAX
        ctx.instance(rid, 'text-length pre-check at %s refuses lengths >= %d (the longest acceptable text has %d bytes)' % (t.get('at'), refused_from, TOTAL_MAX - 1), ok=ok, site=t.get('at'))
        if not ok:
            ctx.violation(rid, FN, 'precheck-too-strict', 'the conversion refuses every text of %d bytes or more before looking at it; an absolute name of %d text bytes has wire length %d <= %d and must be accepted'
                          % (refused_from, TOTAL_MAX - 1, TOTAL_MAX, TOTAL_MAX), site=t.get('at'), config=cfg)
    return n


def lowercase_rule(ctx, facts, cfg):
    """C14.d: what a record's name / the question reads back as.  For every name decoded in the reading accessors, the composition
    (per-byte map of the decoder, evaluated for all 256 byte values by E3) followed by (the standard ASCII fold, if it is applied on
    every path to the return) must be the ASCII lower-casing of the byte ('.' inside a label is escaped, not folded)."""
    rid = 'C14.d'
    LOW = ('make_ascii_lowercase', 'to_ascii_lowercase')
    lower = lambda x: x + 32 if 65 <= x <= 90 else x   # noqa
    table, why = decoder_byte_map(facts)
    n = 0
    for key in facts.inst_keys('rr_iterator::TypedIterable::name') + ['parsed_packet::ParsedPacket::question']:
        f = facts.fns.get(key)
        if f is None:
            ctx.missing(rid, key)
            continue
        defs = F.single_defs(f)
        decs = [(bi, b['term']) for bi, b in F.blocks(f) if b['term']['k'] == 'call' and (F.call_path(b['term']) or '').endswith('Compress::raw_name_to_str')]
        for bi, t in decs:
            n += 1
            lows = set()
            for li, lb in F.blocks(f):
                lt = lb['term']
                if lt['k'] == 'call' and (F.call_path(lt) or '').split('::')[-1] in LOW and lt['args']:
                    if any(r[0] == 'call' and r[2] is t for r in F.roots(f, defs, lt['args'][0])):
                        lows.add(li)
            start = t['target']
            escaped = []
            if start is not None:
                reach = F.reachable_blocks(f, start, avoid=lows)
                escaped = [x for x in reach if f['blocks'][x]['term']['k'] == 'return']
            folded = bool(lows) and not escaped
            who = key.split('::')[-1] if '@' not in key else 'name@' + key.split('@')[-1]
            if table is None:
                ctx.instance(rid, '%s: decoded name from %s passes the standard ASCII fold on every path (decoder byte map not evaluable: %s)' % (who, t.get('at'), why), ok=folded, site=t.get('at'))
                if not folded:
                    ctx.violation(rid, key, 'not-lowercased@%d' % (decs.index((bi, t)) + 1), '%s can return the text decoded by raw_name_to_str without the standard ASCII lower-casing, and the decoder\'s own byte map '
                                  'could not be evaluated (%s)' % (key.split('::')[-1].split('@')[0], why), site=t.get('at'), kind='undecided', config=cfg)
                continue
            wrong = []
            for c in range(256):
                d = table.get(c)
                if d == 'ESC':
                    continue
                if d is None:
                    wrong.append((c, None))
                    continue
                out = lower(d) if folded else d
                if out != lower(c):
                    wrong.append((c, out))
            ok = not wrong
            ctx.instance(rid, '%s: byte map of the decoder%s = ASCII lower-casing for all 256 byte values (name decoded at %s)' % (who, ' followed by the standard fold' if folded else ' (no standard fold on every path)', t.get('at')),
                         ok=ok, site=t.get('at'))
            if wrong:
                ex = ', '.join('0x%02x -> %s' % (c, ('0x%02x' % o) if o is not None else '?') for c, o in wrong[:4])
                ctx.violation(rid, key, 'not-lowercased@%d' % (decs.index((bi, t)) + 1), '%s does not read a name back as its lowercased form: %d byte value(s) come back wrong (%s; expected e.g. 0x%02x -> 0x%02x)%s'
                              % (key.split('::')[-1].split('@')[0], len(wrong), ex, wrong[0][0], lower(wrong[0][0]), '' if folded else '; the standard fold (make_ascii_lowercase) is not applied on every path'),
                              site=t.get('at'), config=cfg)
    if n < 4:
        ctx.violation(rid, '<floor>', 'decoder calls in readers', 'found %d raw_name_to_str calls in name()/question(), expected 4' % n, kind='below-floor')


def run(ctx):
    for cfg in ctx.configs():
        if cfg == 'hooks':
            continue
        facts = ctx.facts(cfg)
        f = facts.fn(FN)
        if f is None:
            ctx.missing('C14.a', FN)
            return
        lowercase_rule(ctx, facts, cfg)
        precheck_rule(ctx, facts, cfg, f)
        # portfolio: plain widening first (fast, and enough in builds without overflow checks); if anything is left open, once more
        # with the relaxing join (needed where the overflow checks add bounds the plain widening loses), under a time budget
        for soft in (False, True):
            sub = ctx.fork()
            _one(sub, facts, f, cfg, soft)
            if not sub.violations or soft:
                ctx.merge(sub)
                break
    ctx.trust('slice-iterator / enumerate / Vec contracts in analysis/interp.py; plain widening, then the relaxing join as a fallback')


def _one(ctx, facts, f, cfg, soft):
    if True:
        e4 = E4(facts, soft_widen=soft, probes=[('Vec::<T, A>::push', FN)], budget_s=600 if soft else None)
        try:
            S = e4.summarize(FN)
        except Exception as e:  # noqa
            ctx.violation('C14.a', FN, 'undecided', 'cannot analyse the conversion: %s: %s' % (type(e).__name__, e), kind='undecided', config=cfg)
            return
        for what, n in sorted(e4.unmodelled().items()):
            ctx.violation('C14.a', '<engine>', 'unmodelled:' + str(what)[:80], 'unmodelled construct in the conversion: %s' % what, kind='undecided', config=cfg)
        obs = e4.obligations()
        for o in obs:
            ctx.obligations += 1
        r = ctx.rules.setdefault('C14.a', {'desc': 'panic freedom of the text->wire conversion', 'instances': 0, 'ok': 0, 'samples': []})
        r['instances'] += len(obs)
        for o in e4.open_obligations():
            site = o['site'].split(' <= ')[0]
            ctx.violation('C14.a', FN, '%s@%s' % (o['kind'], site.split('@')[-1].split(':')[0]), 'potential panic not excluded in the name conversion: %s %s' % (o['kind'], o.get('detail', '')[:100]),
                          site=site.split('@')[-1].split(':', 1)[-1], config=cfg)
        # lifted preconditions: only the label_start one, discharged by the lemma
        lem_ok, lem_src = lemma_label_start(facts, f)
        ctx.instance('C14.a-lemma', 'label_start is only assigned %s' % lem_src, ok=bool(lem_ok), site=f['at'])
        n_ok = 0
        for regions, site, kind, detail in S.pre:
            uses_ls = kind in ('range_from', 'range') and lem_ok
            if uses_ls:
                n_ok += 1
            else:
                ctx.violation('C14.a', FN, 'precondition:%s@%s' % (kind, site.split(' <= ')[0].split('@')[-1].split(':')[0]),
                              'the conversion is only panic-free under a precondition on its input (%s %s at %s)%s' % (kind, detail[:80], site.split(' <= ')[0],
                              '' if lem_ok else '; the label_start lemma does not hold: ' + str(lem_src)), site=site.split(' <= ')[0].split('@')[-1].split(':', 1)[-1], config=cfg)
        done = sum(1 for o in obs if o.get('status') == 'proved') + n_ok
        r['ok'] += done
        ctx.discharged += done
        if len(obs) < 2:     # 5 on the pinned tree; merged arms need fewer checked additions, an analysis that saw nothing has none
            ctx.violation('C14.a', '<floor>', 'obligations', 'only %d obligations generated for the conversion, expected 5' % len(obs), kind='below-floor')
        # ---------------- C14.b ----------------------------------------------------
        rid = 'C14.b'
        seen = {}
        for p in e4.probes():
            a = p['args'][1] if len(p['args']) > 1 else None
            if not isinstance(a, Int):
                continue
            lo, hi = p['C'].bounds(a.e)
            sk = (p.get('bb'), p['at'])     # two copies of one source line (a helper spliced in twice) are two sites
            old = seen.get(sk)
            seen[sk] = (min(lo, old[0]) if old and lo is not None and old[0] is not None else lo, max(hi, old[1]) if old and hi is not None and old[1] is not None else hi) if old else (lo, hi)
        labels = 0
        for (bb_, at), (lo, hi) in sorted(seen.items(), key=str):
            if (lo, hi) == (0, 0):
                ctx.instance(rid, 'push at %s writes the root terminator 0' % at, ok=True, site=at)
                continue
            labels += 1
            ok = lo is not None and hi is not None and lo >= 1 and hi == LABEL_MAX
            ctx.instance(rid, 'label length byte pushed at %s lies in [%s, %s]' % (at, lo, hi), ok=ok, site=at)
            if not ok:
                why = 'can be 0 (an empty label in the middle of a name)' if lo is not None and lo < 1 else \
                      'can be as large as %s: a length byte above 63 is not a label length (0xc0.. is a compression pointer)' % hi if hi is None or hi > 63 else \
                      'has upper bound %s, the documented limit for text labels is %d' % (hi, LABEL_MAX)
                ctx.violation(rid, FN, 'label-byte#%d' % labels, 'the label length byte pushed at %s %s' % (at, why), site=at, config=cfg)
        if labels < 2:
            ctx.violation(rid, '<floor>', 'label pushes', 'found %d label length pushes, expected 2 (inside the loop and for the last label)' % labels, kind='below-floor')
        # ---------------- C14.c ----------------------------------------------------
        rid = 'C14.c'
        base = 'A0:%s' % FN
        oks = 0
        for (C, v, heap) in S.cases:
            d = getattr(v, 'discr', None)
            if d is None:
                continue
            dl, dh = C.bounds(d)
            if (dl, dh) == (0, 0):
                ln = heap.get(base + '#len')
                if isinstance(ln, Int):
                    lo, hi = C.bounds(ln.e)
                    oks += 1
                    ok = hi is not None and hi <= TOTAL_MAX
                    ctx.instance(rid, 'Ok exit: output buffer length in [%s, %s]' % (lo, hi), ok=ok, site=f['at'])
                    if not ok:
                        ctx.violation(rid, FN, 'total-size', 'the conversion can return Ok with %s bytes in the output buffer; the documented wire limit is %d' % (hi if hi is not None else 'unboundedly many', TOTAL_MAX), site=f['at'], config=cfg)
        if oks == 0:
            ctx.violation(rid, FN, 'no-ok-case', 'no Ok summary case with a tracked output length', kind='undecided', config=cfg)
        ctx.sample({'config': cfg, 'relaxing_join': soft, 'obligations': len(obs), 'status': dict(e4.counts()), 'push_ranges': {'bb%s:%s' % k: list(v) for k, v in seen.items()}})
