"""C14 — host names convert between text and wire form without loss (structural clauses, E4).

Scope: synth::gen::copy_raw_name_from_str (and its wrapper raw_name_from_str), the text -> wire conversion every builder and
the C entries raw_name_from_str / set_name go through.

  C14.a no panic     every potential panic of the conversion (slice ranges name[label_start..i], name[label_start..],
                     label_len += 1 on u8) is discharged by the abstract interpreter for every input string; the one obligation that
                     needs `label_start <= name.len()` is discharged by the structural lemma "label_start is only ever assigned 0 or
                     an index yielded by enumerate() over name", which is checked on the MIR
  C14.b label bytes  every label length byte the conversion emits lies in [1, L] with L exactly the policy value 62 (<= 63, so the
                     byte can never be mistaken for a compression pointer), and the terminator pushed is 0
  C14.c total size   on every Ok exit the output buffer holds at most 253 bytes; every Err exit is reached through one of the
                     three documented refusals
  C14.d read-back    in TypedIterable::name and ParsedPacket::question every name decoded by raw_name_to_str is folded with the standard
                     ASCII lower-casing on every path to the return

Not decided: that the emitted labels are exactly the dot-separated labels of the input (needs the loop invariant
label_len = i - label_start), the read-back through raw_name_to_str, and the exact set of accepted names.
"""
from analysis import facts as F
from analysis.e4 import E4
from analysis.interp import Int

FN = 'synth::gen::copy_raw_name_from_str'
LABEL_MAX = 62
TOTAL_MAX = 253


def lemma_label_start(facts, f):
    """All definitions of the local named `label_start`: the constant 0, or a copy of the index component of enumerate().next()."""
    dbg = {n: l for l, n in f['debug']}
    ls = dbg.get('label_start')
    if ls is None:
        return None, 'no local named label_start'
    defs = F.single_defs(f)
    srcs = []
    for bi, b in F.blocks(f):
        for s in b['stmts']:
            if s['k'] == 'assign' and not s['place']['proj'] and s['place']['local'] == ls:
                e = F.expr_rv(f, defs, s['rv'])
                if e == ('const', 0):
                    srcs.append('0')
                    continue
                rs = F.roots(f, defs, s['rv']['x']) if s['rv']['k'] == 'use' else []
                if rs and all(r[0] == 'call' and 'Enumerate' in r[1] and r[1].endswith('::next') for r in rs):
                    srcs.append('enumerate-index')
                else:
                    srcs.append('other:' + str(e)[:60])
    ok = bool(srcs) and all(x in ('0', 'enumerate-index') for x in srcs)
    return ok, srcs


def lowercase_rule(ctx, facts, cfg):
    """C14.d: what a record's name / the question reads back as.  Every name produced by the wire -> text decoder in the reading
    accessors is folded with the standard ASCII lower-casing before it can be returned."""
    rid = 'C14.d'
    LOW = ('make_ascii_lowercase', 'to_ascii_lowercase')
    n = 0
    for key in facts.inst_keys('rr_iterator::TypedIterable::name') + ['parsed_packet::ParsedPacket::question']:
        f = facts.fns.get(key)
        if f is None:
            ctx.missing(rid, key)
            continue
        defs = F.single_defs(f)
        decs = [(bi, b['term']) for bi, b in F.blocks(f) if b['term']['k'] == 'call' and (F.call_path(b['term']) or '').endswith('Compress::raw_name_to_str')]
        for bi, t in decs:
            n += 1
            lows = set()
            for li, lb in F.blocks(f):
                lt = lb['term']
                if lt['k'] == 'call' and (F.call_path(lt) or '').split('::')[-1] in LOW and lt['args']:
                    if any(r[0] == 'call' and r[2] is t for r in F.roots(f, defs, lt['args'][0])):
                        lows.add(li)
            start = t['target']
            escaped = []
            if start is not None:
                reach = F.reachable_blocks(f, start, avoid=lows)
                escaped = [x for x in reach if f['blocks'][x]['term']['k'] == 'return']
            ok = bool(lows) and not escaped
            ctx.instance(rid, '%s: the decoded name from %s is lower-cased (std ASCII fold) on every path to the return' % (key.split('::')[-1] if '@' not in key else 'name@' + key.split('@')[-1], t.get('at')), ok=ok, site=t.get('at'))
            if not ok:
                ctx.violation(rid, key, 'not-lowercased@%d' % (decs.index((bi, t)) + 1), '%s can return the text decoded by raw_name_to_str without the standard ASCII lower-casing (make_ascii_lowercase) applied to it: '
                              'a name does not read back as the lowercased input (a hand-written fold inside the decoder is not evaluated by this rule)' % key.split('::')[-1].split('@')[0],
                              site=t.get('at'), kind='rule-violated' if not lows else 'rule-violated', config=cfg)
    if n < 4:
        ctx.violation(rid, '<floor>', 'decoder calls in readers', 'found %d raw_name_to_str calls in name()/question(), expected 4' % n, kind='below-floor')


def run(ctx):
    for cfg in ctx.configs():
        if cfg == 'hooks':
            continue
        facts = ctx.facts(cfg)
        f = facts.fn(FN)
        if f is None:
            ctx.missing('C14.a', FN)
            return
        lowercase_rule(ctx, facts, cfg)
        # portfolio: plain widening first (fast, and enough in builds without overflow checks); if anything is left open, once more
        # with the relaxing join (needed where the overflow checks add bounds the plain widening loses), under a time budget
        for soft in (False, True):
            sub = ctx.fork()
            _one(sub, facts, f, cfg, soft)
            if not sub.violations or soft:
                ctx.merge(sub)
                break
    ctx.trust('slice-iterator / enumerate / Vec contracts in analysis/interp.py; plain widening, then the relaxing join as a fallback')


def _one(ctx, facts, f, cfg, soft):
    if True:
        e4 = E4(facts, soft_widen=soft, probes=[('Vec::<T, A>::push', FN)], budget_s=600 if soft else None)
        try:
            S = e4.summarize(FN)
        except Exception as e:  # noqa
            ctx.violation('C14.a', FN, 'undecided', 'cannot analyse the conversion: %s: %s' % (type(e).__name__, e), kind='undecided', config=cfg)
            return
        for what, n in sorted(e4.unmodelled().items()):
            ctx.violation('C14.a', '<engine>', 'unmodelled:' + str(what)[:80], 'unmodelled construct in the conversion: %s' % what, kind='undecided', config=cfg)
        obs = e4.obligations()
        for o in obs:
            ctx.obligations += 1
        r = ctx.rules.setdefault('C14.a', {'desc': 'panic freedom of the text->wire conversion', 'instances': 0, 'ok': 0, 'samples': []})
        r['instances'] += len(obs)
        for o in e4.open_obligations():
            site = o['site'].split(' <= ')[0]
            ctx.violation('C14.a', FN, '%s@%s' % (o['kind'], site.split('@')[-1].split(':')[0]), 'potential panic not excluded in the name conversion: %s %s' % (o['kind'], o.get('detail', '')[:100]),
                          site=site.split('@')[-1].split(':', 1)[-1], config=cfg)
        # lifted preconditions: only the label_start one, discharged by the lemma
        lem_ok, lem_src = lemma_label_start(facts, f)
        ctx.instance('C14.a-lemma', 'label_start is only assigned %s' % lem_src, ok=bool(lem_ok), site=f['at'])
        n_ok = 0
        for regions, site, kind, detail in S.pre:
            uses_ls = kind in ('range_from', 'range') and lem_ok
            if uses_ls:
                n_ok += 1
            else:
                ctx.violation('C14.a', FN, 'precondition:%s@%s' % (kind, site.split(' <= ')[0].split('@')[-1].split(':')[0]),
                              'the conversion is only panic-free under a precondition on its input (%s %s at %s)%s' % (kind, detail[:80], site.split(' <= ')[0],
                              '' if lem_ok else '; the label_start lemma does not hold: ' + str(lem_src)), site=site.split(' <= ')[0].split('@')[-1].split(':', 1)[-1], config=cfg)
        done = sum(1 for o in obs if o.get('status') == 'proved') + n_ok
        r['ok'] += done
        ctx.discharged += done
        if len(obs) < 4:
            ctx.violation('C14.a', '<floor>', 'obligations', 'only %d obligations generated for the conversion, expected 5' % len(obs), kind='below-floor')
        # ---------------- C14.b ----------------------------------------------------
        rid = 'C14.b'
        seen = {}
        for p in e4.probes():
            a = p['args'][1] if len(p['args']) > 1 else None
            if not isinstance(a, Int):
                continue
            lo, hi = p['C'].bounds(a.e)
            old = seen.get(p['at'])
            seen[p['at']] = (min(lo, old[0]) if old and lo is not None and old[0] is not None else lo, max(hi, old[1]) if old and hi is not None and old[1] is not None else hi) if old else (lo, hi)
        labels = 0
        for at, (lo, hi) in sorted(seen.items()):
            if (lo, hi) == (0, 0):
                ctx.instance(rid, 'push at %s writes the root terminator 0' % at, ok=True, site=at)
                continue
            labels += 1
            ok = lo is not None and hi is not None and lo >= 1 and hi == LABEL_MAX
            ctx.instance(rid, 'label length byte pushed at %s lies in [%s, %s]' % (at, lo, hi), ok=ok, site=at)
            if not ok:
                why = 'can be 0 (an empty label in the middle of a name)' if lo is not None and lo < 1 else \
                      'can be as large as %s: a length byte above 63 is not a label length (0xc0.. is a compression pointer)' % hi if hi is None or hi > 63 else \
                      'has upper bound %s, the documented limit for text labels is %d' % (hi, LABEL_MAX)
                ctx.violation(rid, FN, 'label-byte#%d' % labels, 'the label length byte pushed at %s %s' % (at, why), site=at, config=cfg)
        if labels < 2:
            ctx.violation(rid, '<floor>', 'label pushes', 'found %d label length pushes, expected 2 (inside the loop and for the last label)' % labels, kind='below-floor')
        # ---------------- C14.c ----------------------------------------------------
        rid = 'C14.c'
        base = 'A0:%s' % FN
        oks = 0
        for (C, v, heap) in S.cases:
            d = getattr(v, 'discr', None)
            if d is None:
                continue
            dl, dh = C.bounds(d)
            if (dl, dh) == (0, 0):
                ln = heap.get(base + '#len')
                if isinstance(ln, Int):
                    lo, hi = C.bounds(ln.e)
                    oks += 1
                    ok = hi is not None and hi <= TOTAL_MAX
                    ctx.instance(rid, 'Ok exit: output buffer length in [%s, %s]' % (lo, hi), ok=ok, site=f['at'])
                    if not ok:
                        ctx.violation(rid, FN, 'total-size', 'the conversion can return Ok with %s bytes in the output buffer; the documented wire limit is %d' % (hi if hi is not None else 'unboundedly many', TOTAL_MAX), site=f['at'], config=cfg)
        if oks == 0:
            ctx.violation(rid, FN, 'no-ok-case', 'no Ok summary case with a tracked output length', kind='undecided', config=cfg)
        ctx.sample({'config': cfg, 'relaxing_join': soft, 'obligations': len(obs), 'status': dict(e4.counts()), 'push_ranges': {k: list(v) for k, v in seen.items()}})
