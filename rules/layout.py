"""E3 layout tuples: where (base, constant offset, width) each reader / writer / validator / builder touches a
record, extracted from the MIR by following index expressions back to the base slice, and compared with the
frozen RFC table tables/rfc_layout.json and with each other (sibling agreement)."""
import json
import os

from analysis import facts as F
from analysis.pkt import Provenance, _const_start

READS = {'<byteorder::BigEndian as byteorder::ByteOrder>::read_u16': 2, '<byteorder::BigEndian as byteorder::ByteOrder>::read_u32': 4,
         '<byteorder::BigEndian as byteorder::ByteOrder>::read_u64': 8}
WRITES = {'<byteorder::BigEndian as byteorder::ByteOrder>::write_u16': 2, '<byteorder::BigEndian as byteorder::ByteOrder>::write_u32': 4,
          '<byteorder::BigEndian as byteorder::ByteOrder>::write_u64': 8}
BASES = {'rr_iterator::DNSIterable::rdata_slice': 'after-name', 'rr_iterator::DNSIterable::rdata_slice_mut': 'after-name',
         'parsed_packet::ParsedPacket::packet': 'packet', 'parsed_packet::ParsedPacket::packet_mut': 'packet',
         'rr_iterator::DNSIterable::name_slice': 'name', 'rr_iterator::DNSIterable::name_slice_mut': 'name'}
INDEX = ('Index<I>>::index', 'IndexMut<I>>::index_mut', 'Index<I> for [T]>::index', 'IndexMut<I> for [T]>::index_mut',
         'as std::ops::Deref>::deref', 'as std::ops::DerefMut>::deref_mut')


def table():
    with open(os.path.join(F.VERIF, 'tables', 'rfc_layout.json')) as fh:
        return json.load(fh)


def _range_len(e):
    """constant length of a Range{a,b} index expression, else None"""
    if e[0] == 'agg' and e[1] == 'std::ops::Range' and len(e[3]) == 2:
        a, b = _const_start(e[3][0]), _const_start(e[3][1])
        if a is not None and b is not None:
            return b - a
    return None


class Tracer:
    """Follows a slice operand back to its base, summing constant start offsets; symbolic parts are kept as text."""

    def __init__(self, f, facts):
        self.f = f
        self.facts = facts
        self.defs = F.single_defs(f)

    def trace(self, op, depth=16):
        """-> (base, const offset or None, [symbolic parts], constant length or None)"""
        off, sym, length = 0, [], None
        cur = op
        for _ in range(depth):
            if cur.get('k') not in ('copy', 'move'):
                return ('?', off, sym, length)
            pl = cur['place']
            loc = pl['local']
            fs = F.fields_of(pl)
            if fs and fs[-1][0] not in (None, '(tuple)'):
                return ('field:%s.%s' % (fs[-1][0].split('::')[-1], fs[-1][1]), off, sym, length)
            if 1 <= loc <= self.f['arg_count']:
                return ('param:%d' % loc, off, sym, length)
            d = self.defs.get(loc)
            if d is None:
                ty = self.f['locals'][loc]
                if ty.get('k') == 'array':
                    return ('local-array:%s' % ty.get('s'), off, sym, length)
                return ('local:%d' % loc, off, sym, length)
            if d[0] == 'call':
                t = d[1]
                p = F.call_path(t) or ''
                tp = F.call_trait_path(t) or ''
                for k, v in BASES.items():
                    if p.split('@')[0] == k or tp == k:
                        return (v, off, sym, length)
                if (any(x in p for x in INDEX) or ('Index' in p and (p.endswith('::index') or p.endswith('::index_mut')))) and t['args']:
                    if len(t['args']) > 1:
                        e = F.expr(self.f, self.defs, t['args'][1])
                        c = _const_start(e)
                        if c is None:
                            sym.append(_sym(e))
                        else:
                            off += c
                        rl = _range_len(e)
                        if rl is not None and length is None:
                            length = rl
                    cur = t['args'][0]
                    continue
                return ('call:' + p.split('::')[-1], off, sym, length)
            rv = d[1]
            if rv['k'] in ('use', 'cast'):
                cur = rv['x']
                continue
            if rv['k'] in ('ref', 'rawptr'):
                p2 = rv['place']
                ty = self.f['locals'][p2['local']]
                if not [x for x in p2['proj'] if x['k'] != 'deref'] and ty.get('k') == 'array':
                    return ('local-array:%s' % ty.get('s'), off, sym, length)
                cur = {'k': 'copy', 'place': p2}
                continue
            return ('?', off, sym, length)
        return ('?', off, sym, length)


def _sym(e):
    if e[0] == 'agg' and e[3]:
        return _sym(e[3][0])
    if e[0] == 'load':
        lf = F.last_field(e[1])
        return lf[1] if lf else 'load'
    if e[0] == 'binop':
        return '(%s %s %s)' % (_sym(e[2]), e[1], _sym(e[3]))
    if e[0] == 'const':
        return str(e[1])
    if e[0] == 'call':
        return e[1].split('::')[-1] + '()'
    if e[0] == 'local':
        return '_%d' % e[1]
    return e[0]


def tuples(facts, key):
    """[(rw, base, offset, width, symbolic, site)] for the byte-order accesses, constant-range copies and u8 loads of one body."""
    f = facts.fns[key]
    tr = Tracer(f, facts)
    out = []
    for bi, b in F.blocks(f):
        t = b['term']
        if t['k'] == 'call' and t['callee']['k'] == 'direct':
            p = F.call_path(t) or ''
            if p in READS or p in WRITES:
                base, off, sym, ln = tr.trace(t['args'][0])
                out.append(('r' if p in READS else 'w', base, off, READS.get(p) or WRITES.get(p), tuple(sym), t['at']))
            elif p == 'core::slice::<impl [T]>::copy_from_slice':
                base, off, sym, ln = tr.trace(t['args'][0])
                sb, so, ss, sl = tr.trace(t['args'][1])
                out.append(('w', base, off, ln, tuple(sym), t['at']))
                out.append(('r', sb, so, sl, tuple(ss), t['at']))
            elif p.endswith('DNSSector::be16_load') or p.endswith('DNSSector::u8_load') or p.endswith('DNSSector::be32_load') or p.endswith('DNSSector::edns_be16_load'):
                e = F.expr(f, tr.defs, t['args'][1])
                c = _const_start(e)
                out.append(('r', 'cursor', c, {'be16_load': 2, 'u8_load': 1, 'be32_load': 4, 'edns_be16_load': 2}[p.split('::')[-1]], () if c is not None else (_sym(e),), t['at']))
    return out


def _fmt(t):
    return '%s %s+%s%s w=%s' % (t[0], t[1], t[2], ('+' + '+'.join(t[4])) if t[4] else '', t[3])


def expect(ctx, rid, facts, cfg, key, want, what):
    """`want`: list of (rw, base, offset, width); every one must be among the tuples of `key`, and no other access of the
    same (rw, base) may exist at a different offset/width (no crossed fields)."""
    f = facts.fn(key)
    if f is None:
        ctx.missing(rid, key)
        return
    got = tuples(facts, key)
    gset = {(g[0], g[1], g[2], g[3]) for g in got if not g[4]}
    for w in want:
        ok = tuple(w) in gset
        ctx.instance(rid, '%s: %s  (%s)' % (key.split('@')[0], _fmt((w[0], w[1], w[2], w[3], ())), what), ok=ok, site=f['at'])
        if not ok:
            near = [g for g in got if g[0] == w[0] and g[1] == w[1]]
            ctx.violation(rid, key, '%s-%s+%s' % (w[0], w[1], w[2]),
                          '%s must %s %d byte(s) at %s+%d (%s); the code %s' % (key.split('@')[0].split('::')[-1], 'read' if w[0] == 'r' else 'write', w[3], w[1], w[2], what,
                                                                                ('accesses ' + ', '.join(_fmt(g) for g in near)) if near else 'has no such access'),
                          site=(near[0][5] if near else f['at']), config=cfg)


def bit_reader(ctx, rid, facts, cfg, key, off, width, what, write=False):
    """Bit-exact check: the result of `key` is the big-endian value of bytes [off, off+width) behind the owner name
    (or, for a setter, exactly those bytes receive the argument) — robust against any rewrite the evaluator can follow."""
    from analysis.bits import BV, Interp, View, Undecided, TOP
    f = facts.fn(key)
    if f is None:
        ctx.missing(rid, key)
        return
    mem = {'R': [BV.sym('r%d_' % i, 8) for i in range(32)]}
    models = {'DNSIterable::rdata_slice': lambda args, m: View('R', 0), 'DNSIterable::rdata_slice_mut': lambda args, m: View('R', 0)}
    try:
        if write:
            arg = BV.sym('a', 8 * width)
            r, m2 = Interp(facts.fns, models).run(key, ['SELF', arg], mem)
            bad = []
            for i in range(32):
                exp = BV(arg.bits[8 * (width - 1 - (i - off)):8 * (width - (i - off))]) if off <= i < off + width else mem['R'][i]
                if not all(g is not TOP and g == e for g, e in zip(m2['R'][i].bits, exp.bits)):
                    bad.append(i)
            ok = not bad
            detail = 'bytes %s differ' % bad
        else:
            r, m2 = Interp(facts.fns, models).run(key, ['SELF'], mem)
            exp = []
            for i in range(width):
                exp = mem['R'][off + i].bits + exp     # lsb first: the last byte is the low byte
            got = r.bits if isinstance(r, BV) else [r]
            exp = exp + [__import__('analysis.bits', fromlist=['BF']).BF.const(0)] * (len(got) - len(exp))
            ok = len(got) >= 8 * width and all(g is not TOP and g == e for g, e in zip(got, exp))
            detail = 'result is %r' % (r,)
    except Undecided as e:
        # fall back to the access-tuple check
        return expect(ctx, rid, facts, cfg, key, [('w' if write else 'r', 'after-name', off, width)], what + ' (tuple check: bit evaluation unsupported: %s)' % e)
    ctx.instance(rid, '%s: %s bytes [%d,%d) behind the owner name, big-endian  (%s)' % (key.split('@')[0], 'writes' if write else 'returns', off, off + width, what), ok=ok, site=f['at'])
    if not ok:
        ctx.violation(rid, key, '%s-after-name+%d' % ('w' if write else 'r', off), '%s must %s the %d-byte big-endian field at offset %d behind the owner name (%s); %s'
                      % (key.split('@')[0].split('::')[-1], 'write' if write else 'return', width, off, what, detail[:300]), site=f['at'], config=cfg)


def check_readers(ctx, facts, cfg, rid):
    T = table()['rr']
    tyo, clo, tto, rdo, hdr = T['type'][0], T['class'][0], T['ttl'][0], T['rdlength'][0], T['rdata'][0]
    for key in facts.inst_keys('rr_iterator::TypedIterable::rr_type'):
        bit_reader(ctx, rid, facts, cfg, key, tyo, 2, 'RFC 1035 3.2.1 TYPE')
    for key in facts.inst_keys('rr_iterator::TypedIterable::rr_class'):
        bit_reader(ctx, rid, facts, cfg, key, clo, 2, 'RFC 1035 3.2.1 CLASS')
    for key in facts.inst_keys('rr_iterator::RdataIterable::rr_ttl'):
        bit_reader(ctx, rid, facts, cfg, key, tto, 4, 'RFC 1035 3.2.1 TTL')
    for key in facts.inst_keys('rr_iterator::RdataIterable::rr_rdlen'):
        bit_reader(ctx, rid, facts, cfg, key, rdo, 2, 'RFC 1035 3.2.1 RDLENGTH')
    for key in facts.inst_keys('rr_iterator::RdataIterable::rr_ip'):
        expect(ctx, rid, facts, cfg, key, [('r', 'after-name', hdr, 4), ('r', 'after-name', hdr, 16)], 'A / AAAA address right behind the 10-byte header')
    # the cursor helpers use a symbolic base (offset + const): check the constant part
    for key, const, what in (("rr_iterator::RRIterator::<'t>::rr_rdlen", rdo, 'RDLENGTH at name_end + 8'),
                             ("rr_iterator::RRIterator::<'t>::edns_rr_rdlen", table()['option']['length'][0], 'option length at +2')):
        f = facts.fn(key)
        if f is None:
            ctx.missing(rid, key)
            continue
        got = tuples(facts, key)
        ok = any(g[0] == 'r' and g[3] == 2 and g[4] and any(('Add %d)' % const) in s or s.endswith('+ %d' % const) for s in g[4]) for g in got)
        ctx.instance(rid, '%s: %s' % (key, what), ok=ok, site=f['at'])
        if not ok:
            ctx.violation(rid, key, 'const-offset', '%s: expected a 2-byte read at <offset> + %d, found %s' % (key, const, [_fmt(g) for g in got]), site=f['at'], config=cfg)
    # validator siblings: the offsets handed to be16_load / u8_load by the per-field helpers
    V = {'dns_sector::DNSSector::rr_type': (tyo, 2), 'dns_sector::DNSSector::rr_class': (clo, 2), 'dns_sector::DNSSector::rr_rdlen': (rdo, 2)}
    for key, (o, w) in V.items():
        expect(ctx, rid, facts, cfg, key, [('r', 'cursor', o, w)], 'validator reads the same field as the iterator')


def check_writers(ctx, facts, cfg, rid):
    T = table()['rr']
    for key in facts.inst_keys('rr_iterator::RdataIterable::set_rr_ttl'):
        bit_reader(ctx, rid, facts, cfg, key, T['ttl'][0], 4, 'set_rr_ttl writes the field rr_ttl reads', write=True)
    for key in facts.inst_keys('rr_iterator::RdataIterable::set_rr_ip'):
        expect(ctx, rid, facts, cfg, key, [('w', 'after-name', T['rdata'][0], 4), ('w', 'after-name', T['rdata'][0], 16)], 'set_rr_ip writes where rr_ip reads')


def check_opt(ctx, facts, cfg, rid):
    T = table()['opt']
    M = {'dns_sector::DNSSector::opt_rr_max_payload': T['udp_payload'], 'dns_sector::DNSSector::opt_rr_ext_rcode': T['ext_rcode'],
         'dns_sector::DNSSector::opt_rr_edns_version': T['version'], 'dns_sector::DNSSector::opt_rr_edns_ext_flags': T['flags'],
         'dns_sector::DNSSector::opt_rr_rdlen': T['rdlength']}
    for key, (o, w) in M.items():
        expect(ctx, rid, facts, cfg, key, [('r', 'cursor', o, w)], 'RFC 6891 6.1.2 OPT fixed part, relative to the end of the owner name')
    O = table()['option']
    expect(ctx, rid, facts, cfg, 'dns_sector::DNSSector::edns_rr_rdlen', [('r', 'cursor', O['length'][0], 2)], 'RFC 6891 6.1.2 option length')


def check_builder(ctx, facts, cfg, rid):
    T = table()['rr']
    key = 'synth::gen::RR::new'
    f = facts.fn(key)
    if f is None:
        ctx.missing(rid, key)
        return
    got = tuples(facts, key)
    want = [('w', T['ttl'][0], 4, 'TTL'), ('w', T['class'][0], 2, 'CLASS'), ('w', T['type'][0], 2, 'TYPE'), ('w', T['rdlength'][0], 2, 'RDLENGTH')]
    for rw, o, w, nm in want:
        ok = any(g[0] == rw and g[1].startswith('local-array') and g[2] == o and g[3] == w and not g[4] for g in got)
        ctx.instance(rid, 'RR::new writes %s at header+%d (%d bytes)' % (nm, o, w), ok=ok, site=f['at'])
        if not ok:
            ctx.violation(rid, key, 'w-header+%d' % o, 'RR::new must write %s (%d bytes) at offset %d of the 10-byte record header; found %s'
                          % (nm, w, o, [_fmt(g) for g in got if g[0] == 'w']), site=f['at'], config=cfg)
    extra = [g for g in got if g[0] == 'w' and g[1].startswith('local-array') and (g[2], g[3]) not in {(o, w) for _, o, w, _ in want}]
    for g in extra:
        ctx.violation(rid, key, 'extra-write+%s' % g[2], 'RR::new writes an unexpected header field: %s' % _fmt(g), site=g[5], config=cfg)
    qkey = 'synth::gen::RR::new_question'
    Q = table()['question']
    if facts.fn(qkey):
        gq = tuples(facts, qkey)
        for nm, (o, w) in (('QTYPE', Q['qtype']), ('QCLASS', Q['qclass'])):
            ok = any(g[0] == 'w' and g[1].startswith('local-array') and g[2] == o and g[3] == w and not g[4] for g in gq)
            ctx.instance(rid, 'RR::new_question writes %s at +%d' % (nm, o), ok=ok, site=facts.fn(qkey)['at'])
            if not ok:
                ctx.violation(rid, qkey, 'w-question+%d' % o, 'RR::new_question must write %s at offset %d; found %s' % (nm, o, [_fmt(g) for g in gq]), site=facts.fn(qkey)['at'], config=cfg)
