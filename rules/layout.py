"""E3 layout tuples (field offset/width/endianness of readers, writers, validator, builder) — filled in by the E3 phase."""


def check_readers(ctx, facts, cfg, rid):
    return
