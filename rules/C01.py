"""C01 — parsing untrusted bytes is total: a result or an error, never a crash or hang.   (proof of obligations, E1 + E4)

Scope: every local body reachable from DNSSector::{new, parse, set_offset, increment_offset, rr_rdlen, edns_rr_rdlen,
check_uncompressed_name} and Compress::check_compressed_name.

  C01.a shape        no unsafe operation (raw deref, transmute, from_raw_parts), no recursion (the call graph of the scope is a
                     DAG => bounded stack), no indirect call, in the scope.  With no `unsafe`, reading outside the buffer is
                     impossible in safe Rust and reduces to panic-freedom.
  C01.b obligations  every potential panic in the scope (Assert terminators: index < len, add/sub/mul overflow incl. the
                     subtractions; modelled preconditions of slice indexing, read_u16, unwrap, assert_eq!) is discharged by the
                     relational abstract interpreter, or lifted to the entry and implied by the struct invariant
                     offset <= len /\ (edns_end = None \/ offset <= edns_end <= len).  `parse` and the two name checkers must
                     need no precondition at all.  An unmodelled construct anywhere in the scope fails closed.
  C01.c termination  every loop in the scope has a strictly increasing integer measure that is bounded (by a constant or the buffer length)
  C01.d same bytes   nothing in the scope writes to, resizes or replaces DNSSector.packet; parse moves it into ParsedPacket.packet
"""
from analysis import facts as F
from analysis.effects import Effects
from analysis.e4 import E4

DS = 'dns_sector::DNSSector'
PP = 'parsed_packet::ParsedPacket'
ROOTS_TOTAL = [DS + '::parse', DS + '::new', DS + '::check_uncompressed_name', 'compress::Compress::check_compressed_name', DS + '::set_offset']
ROOTS_INV = [DS + '::increment_offset', DS + '::rr_rdlen', DS + '::edns_rr_rdlen']


def scope(facts):
    entries = [r for r in ROOTS_TOTAL + ROOTS_INV if facts.fn(r)]
    seen, ext, ind, parent = facts.reach(entries)
    return entries, seen, ext, ind, parent


def shape_rule(ctx, facts, cfg):
    rid = 'C01.a'
    entries, seen, ext, ind, parent = scope(facts)
    for r in ROOTS_TOTAL + ROOTS_INV:
        if facts.fn(r) is None:
            ctx.missing(rid, r)
    eff = Effects(facts)
    for k in sorted(seen):
        bad = [(kind, d, site) for (kind, d, site) in eff.of(k) if kind in ('rawderef', 'transmute', 'indirect', 'int2ptr', 'ptr2int')
               or (kind == 'ext' and any(x in d for x in ('from_raw_parts', 'get_unchecked', 'unreachable_unchecked', 'MaybeUninit', 'set_len', 'transmute')))]
        unsafe_fn = facts.fns[k].get('unsafe')
        ctx.instance(rid, 'body %s: no unsafe operation, no indirect call' % k, ok=not bad and not unsafe_fn, site=facts.fns[k]['at'])
        for kind, d, site in bad:
            ctx.violation(rid, k, kind, 'unsafe / unchecked operation in the validator scope: %s %s' % (kind, d), site=site, path=facts.path_to(parent, k), config=cfg)
        if unsafe_fn:
            ctx.violation(rid, k, 'unsafe-fn', 'an `unsafe fn` is reachable from the validator', site=facts.fns[k]['at'], config=cfg)
    cyc = facts.has_cycle(seen)
    ctx.instance(rid, 'call graph of the scope (%d bodies) is acyclic' % len(seen), ok=not cyc)
    for c in cyc[:2]:
        ctx.violation(rid, c[-1], 'recursion', 'recursion in the validator scope (stack depth would depend on the input): ' + ' -> '.join(c), site=facts.fns[c[-1]]['at'], config=cfg)
    if len(seen) < 30:
        ctx.violation(rid, '<floor>', 'scope size', 'validator scope has only %d bodies, expected about 45' % len(seen), kind='below-floor')
    # positive examples
    pos = ctx.positive()
    peff = Effects(pos)
    if not any(kind == 'rawderef' for kind, d, s in peff.of('raw_read')) or not pos.has_cycle(['recurse']):
        ctx.violation(rid, '<selftest>', 'positive-example', 'unsafe/recursion detectors no longer see selftest/positive', kind='undecided')
    return seen


def same_bytes_rule(ctx, facts, cfg, seen):
    rid = 'C01.d'
    n = 0
    for k in sorted(seen):
        f = facts.fns[k]
        for bi, b in F.blocks(f):
            for s in b['stmts']:
                if s['k'] != 'assign':
                    continue
                fs = F.fields_of(s['place'])
                if (DS, 'packet') in fs:
                    ctx.violation(rid, k, 'store', 'the validator stores into DNSSector.packet', site=s['at'], config=cfg)
                rv = s['rv']
                if rv['k'] in ('ref', 'rawptr') and (rv.get('mut') or 'Mut' in str(rv.get('kind'))) and (DS, 'packet') in F.fields_of(rv['place']):
                    ctx.violation(rid, k, 'mut-borrow', 'the validator takes a mutable borrow of DNSSector.packet', site=s['at'], config=cfg)
                if (DS, 'packet') in fs or (rv['k'] in ('ref', 'rawptr') and (DS, 'packet') in F.fields_of(rv['place'])):
                    n += 1
    ctx.instance(rid, 'no store to / mutable borrow of DNSSector.packet in %d bodies (%d accesses seen)' % (len(seen), n), ok=True)
    pf = facts.fn(DS + '::parse')
    if pf:
        pd = F.single_defs(pf)
        okm = False
        for bi, b in F.blocks(pf):
            for s in b['stmts']:
                if s['k'] == 'assign' and s['rv']['k'] == 'aggregate' and s['rv'].get('adt') == PP:
                    i = s['rv']['fields'].index('packet')
                    rs = F.roots(pf, pd, s['rv']['ops'][i])
                    okm = any(r[0] == 'load' and F.last_field(r[1]) == (DS, 'packet') for r in rs)
        ctx.instance(rid, 'parse moves DNSSector.packet into ParsedPacket.packet', ok=okm, site=pf['at'])
        if not okm:
            ctx.violation(rid, DS + '::parse', 'packet-moved', 'the ParsedPacket built by parse() does not hold the DNSSector\'s own byte vector', site=pf['at'], config=cfg)


def obligations_rule(ctx, facts, cfg, keep_instates=False):
    rid = 'C01.b'
    e4 = E4(facts, keep_instates=keep_instates)
    roots = [r for r in ROOTS_TOTAL + ROOTS_INV if facts.fn(r)]
    sums = {}
    for r in roots:
        sums[r] = e4.summarize(r)
    obs = e4.obligations()
    cnt = e4.counts()
    for o in obs:
        ctx.obligations += 1
        if o.get('status') in ('proved', 'lifted'):
            ctx.discharged += 1
    r = ctx.rules.setdefault(rid, {'desc': 'every potential panic in the validator scope is discharged', 'instances': 0, 'ok': 0, 'samples': []})
    r['instances'] += len(obs)
    r['ok'] += sum(1 for o in obs if o.get('status') in ('proved', 'lifted'))
    for o in obs[:4] + [o for o in obs if o.get('status') == 'lifted'][:3]:
        if len(r['samples']) < 8:
            r['samples'].append({'site': o['site'].split(' <= ')[0], 'kind': o['kind'], 'detail': o.get('detail', '')[:80], 'status': o.get('status')})
    for o in e4.open_obligations():
        site = o['site'].split(' <= ')[0]
        fn = site.split('@')[0]
        at = site.split(':', 1)[-1] if ':' in site else None
        ctx.violation(rid, fn, '%s@%s' % (o['kind'], site.split('@')[-1].split(':')[0]),
                      'potential panic not excluded: %s %s in %s (reached via %s); unproved: %s'
                      % (o['kind'], o.get('detail', '')[:120], fn, ' <= '.join(x.split('@')[0].split('::')[-1] for x in o['site'].split(' <= ')[1:4]) or 'entry', o.get('cons', [])[:2]),
                      site=site.split('@')[-1].split(':', 1)[-1] if '@' in site else None, config=cfg)
    for what, n in sorted(e4.unmodelled().items()):
        ctx.violation(rid, '<engine>', 'unmodelled:' + str(what)[:80], 'the abstract interpreter met a construct it has no model for (%d time(s)): %s — obligations it may influence are not proved' % (n, what),
                      kind='undecided', config=cfg)
    # what the roots still require of their callers
    for root in roots:
        S = sums[root]
        pres = S.pre
        if root in ROOTS_TOTAL:
            ctx.instance(rid + '-entry', '%s needs no precondition (%d summary case(s))' % (root, len(S.cases)), ok=not pres, site=facts.fn(root)['at'])
            for regions, site, kind, detail in pres[:3]:
                ctx.violation(rid + '-entry', root, 'precondition:%s@%s' % (kind, site.split(' <= ')[0].split('@')[0].split('::')[-1]),
                              '%s is only panic-free under a precondition on its arguments (%s %s at %s): it must be total for every buffer and offset'
                              % (root, kind, detail[:80], site.split(' <= ')[0]), site=site.split(' <= ')[0].split('@')[-1].split(':', 1)[-1], config=cfg)
        else:
            cases = e4.invariant_cases(S, root)
            bad = []
            for regions, site, kind, detail in pres:
                for reg in regions:
                    if not e4.region_within(reg, cases):
                        bad.append((site, kind, detail))
            ctx.instance(rid + '-entry', '%s: %d lifted precondition(s), all implied by the struct invariant' % (root, len(pres)), ok=not bad, site=facts.fn(root)['at'])
            for site, kind, detail in bad[:3]:
                ctx.violation(rid + '-entry', root, 'beyond-invariant:%s@%s' % (kind, site.split(' <= ')[0].split('@')[0].split('::')[-1]),
                              '%s can panic (%s %s at %s) for an object that satisfies the struct invariant offset <= len /\\ (edns_end = None \\/ offset <= edns_end <= len)'
                              % (root, kind, detail[:80], site.split(' <= ')[0]), site=site.split(' <= ')[0].split('@')[-1].split(':', 1)[-1], config=cfg)
    if len(obs) < 120:
        ctx.violation(rid, '<floor>', 'obligations', 'only %d obligations were generated in the validator scope, expected about 175' % len(obs), kind='below-floor')
    ctx.sample({'rule': rid, 'config': cfg, 'obligations': len(obs), 'status': dict(cnt), 'seconds': e4.times})
    return e4


def termination_rule(ctx, facts, cfg, e4, rid='C01.c'):
    n = 0
    out = []
    for key in e4.loop_functions():
        for r in e4.rank(key):
            n += 1
            hb, measure, text = r[0], r[1], r[2]
            info = r[3] if len(r) > 3 else None
            f = facts.fns[key]
            at = f['blocks'][hb]['term'].get('at') or f['at']
            ok = measure is not None and info is not None and info['kind'] in ('const', 'len', 'slice-iter')
            ctx.instance(rid, 'loop in %s at %s: measure %s; %s' % (key, at, measure, text), ok=ok, site=at)
            out.append((key, hb, at, measure, info))
            if not ok:
                ctx.violation(rid, key, 'loop@' + str(at).split(':')[0].split('/')[-1] + '#' + str(sum(1 for x in out if x[0] == key)),
                              'no strictly increasing bounded measure found for the loop at %s in %s (%s): termination on every input is not established' % (at, key, text), site=at, config=cfg)
    if n < 6:
        ctx.violation(rid, '<floor>', 'loops', 'only %d loops analysed in the validator scope, expected 6 (two name walkers, the option loop, three section loops)' % n, kind='below-floor')
    return out


def run(ctx):
    for cfg in ctx.configs():
        if cfg == 'hooks':
            continue   # the validator does not depend on the feature; debug + release cover it
        facts = ctx.facts(cfg)
        seen = shape_rule(ctx, facts, cfg)
        same_bytes_rule(ctx, facts, cfg, seen)
        e4 = obligations_rule(ctx, facts, cfg, keep_instates=True)
        termination_rule(ctx, facts, cfg, e4)
    ctx.trust('contracts of ~45 std/byteorder functions in analysis/interp.py (MODELS): slice indexing, read_u16, Option/Result plumbing, Range<u16>::next, ...')
    ctx.trust('soundness of the linear-constraint domain (Fourier-Motzkin entailment over the rationals with gcd tightening) in analysis/lin.py')
    ctx.assume('direct mutation of the pub fields of DNSSector by the caller is outside the claim; the primitives assume offset <= len and edns_end in range (shown preserved by every &mut method in scope)')
