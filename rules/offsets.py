"""Section offsets after an insertion, read off the E4 summary of ParsedPacket::insert_rr (semantic, shape-independent).

The structural rules (C09.c shift table, C08.h / C09.a-offsets closure analysis) read `offset_X = offset_X.map(|x| x + rr_len)`
statements.  When the bookkeeping is written another way (a helper, a closure over Option, `if let`, a `&mut` to the section's own
field), this module decides the same table from what the function does to the fields: for every successful case of the summary,
with L = growth of the packet buffer and S = the section argument,

    fields of sections before S           unchanged
    the field of S itself                 unchanged if it was Some, Some(..) if it was None
    fields of sections behind S           + L if they were Some, None stays None
    offset_edns                           + L for S in {Question, Answer, NameServers}, unchanged for Additional
"""
from analysis.e4 import E4
from analysis.interp import Int, Enum

PP = 'parsed_packet::ParsedPacket'
KEY = PP + '::insert_rr'
ORDER = ['offset_question', 'offset_answers', 'offset_nameservers', 'offset_additional']
SECTIONS = ['Question', 'Answer', 'NameServers', 'Additional']
OPAQUE = ['Compress::uncompress', 'ParsedPacket::recompute']


def _classify(C, init, fin, L):
    """'same' | 'shifted' | 'set' | 'cleared' | 'changed' | None (undecided) for one Option<usize> field in one case"""
    if fin is None:
        return 'same'
    if not isinstance(init, Enum) or not isinstance(fin, Enum):
        return None
    pi = C.bounds(init.discr)
    pf = C.bounds(fin.discr)
    if pi[0] is None or pi[0] != pi[1] or pf[0] is None or pf[0] != pf[1]:
        return None
    was, now = pi[0], pf[0]
    if not was and not now:
        return 'same'
    if not was and now:
        return 'set'
    if was and not now:
        return 'cleared'
    a, b = init.fields.get((1, 0)), fin.fields.get((1, 0))
    if not isinstance(a, Int) or not isinstance(b, Int):
        return None
    if C.bounds(b.e - a.e) == (0, 0):
        return 'same'
    if L is not None and C.bounds(b.e - a.e - L) == (0, 0):
        return 'shifted'
    return 'changed'


def insert_table(facts):
    """{section name: (ok, [what was found per successful case])}, or (None, reason) when the summary cannot be read.
    One hypothesis run per section (the section argument fixed), so that the cases need not tell the sections apart themselves."""
    if facts.fn(KEY) is None:
        return None, 'insert_rr not found'
    sect = {v['name']: int(v['discr']) for v in facts.adts.get('constants::Section', {}).get('variants', [])}
    out = {}
    base = 'A0:%s' % KEY
    len_key = base + '.packet.0#len'
    for si, sec in enumerate(SECTIONS):
        if sec not in sect:
            return None, 'Section::%s not found' % sec
        e4 = E4(facts, havoc=6, opaque=OPAQUE, budget_s=300)
        e4.an.fix_enum_args = {(KEY, 1): sect[sec]}
        try:
            S = e4.summarize(KEY)
        except Exception as e:  # noqa
            return None, 'cannot analyse insert_rr: %s' % e
        if e4.unmodelled():
            return None, 'unmodelled: %s' % sorted(e4.unmodelled())[:2]
        init_len = S.init.get(len_key, (None,))[0]
        okall, founds = True, []
        for C, v, heap in S.cases:
            if not isinstance(v, Enum) or C.bounds(v.discr) != (0, 0):
                continue            # Err cases: C10 decides that nothing was touched
            fin_len = heap.get(len_key)
            L = (fin_len.e - init_len.e) if isinstance(fin_len, Int) and isinstance(init_len, Int) else None
            found = {}
            ok = L is not None and C.bounds(L)[0] is not None and C.bounds(L)[0] >= 0
            for j, fld in enumerate(ORDER + ['offset_edns']):
                k = '%s.%s' % (base, fld)
                init = S.init.get(k, (None,))[0]
                fin = heap.get(k)
                if fld != 'offset_edns' and j == si:
                    # the section's own start: kept if there was one, recorded otherwise - in both cases present afterwards
                    present = fin is None and isinstance(init, Enum) and C.bounds(init.discr) == (1, 1) or isinstance(fin, Enum) and C.bounds(fin.discr) == (1, 1)
                    found[fld] = 'present' if present else 'not known to be present'
                    ok = ok and present
                    continue
                cls = _classify(C, init, fin, L)
                found[fld] = cls
                if cls is None:
                    ok = False
                    continue
                pres = C.bounds(init.discr) if isinstance(init, Enum) else (None, None)
                was_some = pres == (1, 1)
                was_none = pres == (0, 0)
                must_move = (fld == 'offset_edns' and si < 3) or (fld != 'offset_edns' and j > si)
                if must_move and not (was_some or was_none):
                    # the case does not say whether the field was set: left alone it would be stale whenever it was
                    ok = False
                    found[fld] = '%s although the field may have been set (expected shifted)' % cls
                    continue
                want = ('shifted' if was_some else 'same') if must_move else 'same'
                if cls != want:
                    ok = False
                    found[fld] = '%s (expected %s)' % (cls, want)
            okall = okall and ok
            founds.append(found)
        if not founds:
            okall, founds = False, ['no successful case for this section']
        out[sec] = (okall, founds)
    return out, None
