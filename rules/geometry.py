"""E4 rules on the splice geometry of resize_rr / insert_rr (C09.a) and on the arithmetic of the insertion size limit (C10.b)."""
from analysis import facts as F
from analysis.e4 import E4
from analysis.interp import Int, Enum
from analysis.lin import le, ge, lin

OPAQUE = ['ParsedPacket::recompute', 'Compress::uncompress', 'TypedIterable::current_section', 'ParsedPacket::rrcount_inc']


def _payloads(S, suffixes):
    out = {}
    for loc, (v, cons, extra, ty) in S.init.items():
        for sfx in suffixes:
            if loc.endswith(sfx) and isinstance(v, Enum) and isinstance(v.fields.get((1, 0)), Int):
                out[sfx] = v.fields[(1, 0)].e
    return out


def _len_sym(S):
    for loc, (v, cons, extra, ty) in S.init.items():
        if 'packet' in loc and loc.endswith('#len') and isinstance(v, Int):
            return v.e
    return None


def _feasible(region, cons):
    t = region.copy()
    for c in cons:
        t.add(c)
    return not t.infeasible()


def resize_rule(ctx, facts, cfg, rid):
    keys = facts.inst_keys('rr_iterator::TypedIterable::resize_rr')
    if len(keys) < 2:
        ctx.violation(rid, '<floor>', 'resize_rr instances', 'found %d instantiations of resize_rr, expected 2' % len(keys), kind='below-floor')
    for key in keys:
        e4 = E4(facts, havoc=6, opaque=OPAQUE, probes=[('<impl [T]>::copy_within', key), ('Vec::<T, A>::truncate', key), ('Vec::<T, A>::resize', key)])
        try:
            S = e4.summarize(key)
        except Exception as e:  # noqa
            ctx.violation(rid, key, 'undecided', 'cannot analyse %s: %s' % (key, e), kind='undecided', config=cfg)
            continue
        ln = _len_sym(S)
        off = _payloads(S, ['.offset']).get('.offset')
        shift = S.args[1].e if len(S.args) > 1 and isinstance(S.args[1], Int) else None
        if ln is None or off is None or shift is None:
            ctx.violation(rid, key, 'entry-cells', 'cursor offset / packet length / shift not found among the entry cells of %s' % key, kind='undecided', config=cfg)
            continue
        # stated cursor assumptions: offset <= len; when shrinking, the bytes removed lie inside the packet behind the cursor
        cases = [[le(off, ln), ge(shift, 1)], [le(off, ln), le(shift, -1), le(off - shift, ln)]]
        n = 0
        seen = set()
        for regions, site, kind, detail in S.pre:
            if not kind.startswith(('copy_within', 'truncate', 'resize')):
                continue
            k = (kind, site.split(' <= ')[0])
            if k in seen:
                continue
            seen.add(k)
            n += 1
            at = site.split(' <= ')[0].split('@')[-1].split(':', 1)[-1]
            bad = any(_feasible(r, c) for r in regions for c in cases)
            ctx.instance(rid, '%s: %s (%s) holds under offset <= len and |shift| within the packet' % (key.split('@')[-1], kind, detail[:50]), ok=not bad, site=at)
            if bad:
                ctx.violation(rid, key, kind.split(':')[0] + ':' + kind.split(':')[-1].strip().replace(' ', ''), 'resize_rr: the precondition "%s" of the byte move at %s can fail for a valid cursor (offset <= len, shift within the packet): '
                              'the splice panics or moves the wrong range (%s)' % (kind, at, detail[:80]), site=at, config=cfg)
        for o in e4.open_obligations():
            if o['kind'].startswith(('copy_within', 'truncate', 'resize')):
                ctx.violation(rid, key, 'open:' + o['kind'].split(':')[0], 'resize_rr: %s cannot be related to the cursor at all: %s' % (o['kind'], o.get('detail', '')[:80]), site=o['site'].split('@')[-1].split(':', 1)[-1], config=cfg)
        # exact geometry: what is moved where, and the new length (value probes at the three buffer operations)
        exact = {}
        for p in e4.probes():
            if p.get('kind') != 'call':
                continue
            C = p['C']
            lo, hi = C.bounds(shift)
            grow = lo is not None and lo >= 1
            shrink = hi is not None and hi <= -1
            if not (grow or shrink):
                continue
            name = p['callee'].split('::')[-1]
            facts_ = []
            if name == 'resize' and isinstance(p['args'][1], Int):
                facts_.append(('new length = len + shift', C.bounds(p['args'][1].e - ln - shift)))
            if name == 'truncate' and isinstance(p['args'][1], Int):
                facts_.append(('new length = len - |shift|', C.bounds(p['args'][1].e - ln - shift)))
            if name == 'copy_within':
                rng, dest = p['args'][1], p['args'][2]
                start = rng.fields.get((0, 0)) if isinstance(rng, Enum) else None
                if isinstance(start, Int) and isinstance(dest, Int):
                    if grow:
                        facts_.append(('moved block starts at the cursor', C.bounds(start.e - off)))
                        facts_.append(('moved to offset + shift', C.bounds(dest.e - off - shift)))
                        end = rng.fields.get((0, 1)) if isinstance(rng, Enum) else None
                        if isinstance(end, Int):
                            facts_.append(('moved block ends at the old end of the packet', C.bounds(end.e - ln)))
                    else:
                        facts_.append(('moved block starts |shift| behind the cursor', C.bounds(start.e - off + shift)))
                        facts_.append(('moved to the cursor', C.bounds(dest.e - off)))
            for nm, b in facts_:
                kk = ('grow' if grow else 'shrink') + ': ' + name + ': ' + nm
                exact.setdefault(kk, set()).add(b)
        for kk, bs in sorted(exact.items()):
            ok = bs == {(0, 0)}
            ctx.instance(rid, '%s: %s (difference %s)' % (key.split('@')[-1], kk, sorted(bs, key=str)), ok=ok, site=facts.fns[key]['at'])
            if not ok:
                ctx.violation(rid, key, 'exact:' + kk.replace(' ', '-'), 'resize_rr: "%s" does not hold: the value differs from the specified one by %s' % (kk, sorted(bs, key=str)), site=facts.fns[key]['at'], config=cfg)
        if len(exact) < 7:
            ctx.violation(rid, key, 'exact-facts', 'only %d of the 7 geometry facts of resize_rr could be evaluated (%s)' % (len(exact), sorted(exact)), kind='undecided', config=cfg)
        # both copy_within calls must have been seen (their preconditions are either proved outright or lifted and checked above)
        f = facts.fns[key]
        ncw = sum(1 for _, b in F.blocks(f) if b['term']['k'] == 'call' and (F.call_path(b['term']) or '').endswith('copy_within'))
        ctx.instance(rid, '%s: %d copy_within call(s), %d lifted geometry precondition(s) checked' % (key.split('@')[-1], ncw, n), ok=ncw >= 2, site=f['at'])
        if ncw < 2:
            ctx.violation(rid, key, 'copy_within-sites', 'resize_rr has %d copy_within calls, expected one per direction' % ncw, kind='below-floor', config=cfg)


def insert_rule(ctx, facts, cfg, rid_geo, rid_lim, limit):
    key = 'parsed_packet::ParsedPacket::insert_rr'
    if facts.fn(key) is None:
        ctx.missing(rid_geo, key)
        return
    e4 = E4(facts, havoc=6, opaque=OPAQUE, probes=[('Vec::<T, A>::resize', key), ('Vec::<T, A>::extend_from_slice', key)], assume_offsets_in_packet=True)
    try:
        S = e4.summarize(key)
    except Exception as e:  # noqa
        ctx.violation(rid_geo, key, 'undecided', 'cannot analyse insert_rr: %s' % e, kind='undecided', config=cfg)
        return
    for what, n in sorted(e4.unmodelled().items()):
        ctx.violation(rid_geo, key, 'unmodelled:' + str(what).split(': ', 1)[-1][:60], 'unmodelled construct in insert_rr: %s' % what, kind='undecided', config=cfg)
    ln = _len_sym(S)
    offs = _payloads(S, ['.offset_question', '.offset_answers', '.offset_nameservers', '.offset_additional', '.offset_edns'])
    inv = []
    if ln is not None:
        for sfx, e in offs.items():
            inv.append(le(e, ln))
    seen = set()
    for regions, site, kind, detail in S.pre:
        s0 = site.split(' <= ')[0]
        own = s0.startswith(key + '@') or s0.startswith(key + '::{closure')
        if not own:
            continue
        k = (kind, s0)
        if k in seen:
            continue
        seen.add(k)
        at = s0.split('@')[-1].split(':', 1)[-1]
        if kind.startswith(('copy_within', 'range', 'resize', 'truncate')):
            bad = any(_feasible(r, inv) for r in regions)
            ctx.instance(rid_geo, 'insert_rr: %s (%s) holds when every section offset is <= len' % (kind, detail[:50]), ok=not bad, site=at)
            if bad:
                ctx.violation(rid_geo, key, kind.split(':')[0] + ':' + kind.split(':')[-1].strip().replace(' ', ''), 'insert_rr: the precondition "%s" of the splice at %s can fail although every section offset lies inside the packet (%s)'
                              % (kind, at, detail[:80]), site=at, config=cfg)
        elif kind == 'Overflow':
            bad = any(_feasible(r, inv) for r in regions)
            ctx.instance(rid_lim, 'insert_rr: arithmetic at %s cannot overflow (%s)' % (at, detail[:50]), ok=not bad, site=at)
            if bad:
                ctx.violation(rid_lim, key, 'overflow@' + detail.split('(')[1].split(',')[0] if '(' in detail else 'overflow', 'insert_rr: %s at %s can overflow for a packet the parser accepts (e.g. one longer than the %d-byte limit): '
                              'the size test panics in builds with overflow checks and wraps (letting the insertion through) in builds without' % (detail[:60], at, limit), site=at, config=cfg)
    for o in e4.open_obligations():
        s0 = o['site'].split(' <= ')[0]
        if s0.startswith(key + '@') and o['kind'] in ('Overflow',) or o['kind'].startswith(('copy_within', 'range')):
            ctx.violation(rid_lim if o['kind'] == 'Overflow' else rid_geo, key, 'open:' + o['kind'].split(':')[0], 'insert_rr: %s %s is not excluded' % (o['kind'], o.get('detail', '')[:80]),
                          site=s0.split('@')[-1].split(':', 1)[-1], config=cfg)
    # the buffer never grows beyond the limit
    his = []
    for p in e4.probes():
        if p.get('kind') != 'call' or not p['callee'].endswith('::resize'):
            continue
        a = p['args'][1] if len(p['args']) > 1 else None
        if isinstance(a, Int):
            his.append(p['C'].bounds(a.e)[1])
    if his:
        ok = all(h is not None and h <= limit for h in his)
        ctx.instance(rid_lim, 'insert_rr: the new buffer length handed to resize() is <= %s (limit %d)' % (max(h for h in his if h is not None) if any(h is not None for h in his) else None, limit), ok=ok)
        if not ok:
            ctx.violation(rid_lim, key, 'resize-above-limit', 'insert_rr can resize the packet to %s bytes; the limit is %d' % ('an unbounded number of' if any(h is None for h in his) else max(his), limit), config=cfg)
    else:
        ctx.violation(rid_lim, key, 'no-resize-probe', 'the resize of the packet buffer in insert_rr was not reached by the analysis', kind='undecided', config=cfg)
