"""E4 rules on the splice geometry of resize_rr / insert_rr (C09.a) and on the arithmetic of the insertion size limit (C10.b)."""
import re

from analysis import facts as F
from analysis.e4 import E4
from analysis.interp import Int, Enum
from analysis.lin import le, ge, lin

OPAQUE = ['ParsedPacket::recompute', 'Compress::uncompress', 'TypedIterable::current_section', 'ParsedPacket::rrcount_inc']


def _payloads(S, suffixes):
    out = {}
    for loc, (v, cons, extra, ty) in S.init.items():
        for sfx in suffixes:
            if loc.endswith(sfx) and isinstance(v, Enum) and isinstance(v.fields.get((1, 0)), Int):
                out[sfx] = v.fields[(1, 0)].e
    return out


def _len_sym(S):
    for loc, (v, cons, extra, ty) in S.init.items():
        if 'packet' in loc and loc.endswith('#len') and isinstance(v, Int):
            return v.e
    return None


def _feasible(region, cons):
    t = region.copy()
    for c in cons:
        t.add(c)
    return not t.infeasible()


def resize_rule(ctx, facts, cfg, rid):
    keys = facts.inst_keys('rr_iterator::TypedIterable::resize_rr')
    if len(keys) < 2:
        ctx.violation(rid, '<floor>', 'resize_rr instances', 'found %d instantiations of resize_rr, expected 2' % len(keys), kind='below-floor')
    for key in keys:
        e4 = E4(facts, havoc=6, opaque=OPAQUE, probes=[('<impl [T]>::copy_within', key), ('Vec::<T, A>::truncate', key), ('Vec::<T, A>::resize', key)])
        try:
            S = e4.summarize(key)
        except Exception as e:  # noqa
            ctx.violation(rid, key, 'undecided', 'cannot analyse %s: %s' % (key, e), kind='undecided', config=cfg)
            continue
        ln = _len_sym(S)
        off = _payloads(S, ['.offset']).get('.offset')
        shift = S.args[1].e if len(S.args) > 1 and isinstance(S.args[1], Int) else None
        if ln is None or off is None or shift is None:
            ctx.violation(rid, key, 'entry-cells', 'cursor offset / packet length / shift not found among the entry cells of %s' % key, kind='undecided', config=cfg)
            continue
        # stated cursor assumptions: offset <= len; when shrinking, the bytes removed lie inside the packet behind the cursor
        cases = [[le(off, ln), ge(shift, 1)], [le(off, ln), le(shift, -1), le(off - shift, ln)]]
        n = 0
        seen = set()
        for regions, site, kind, detail in S.pre:
            if not kind.startswith(('copy_within', 'truncate', 'resize')):
                continue
            k = (kind, site.split(' <= ')[0])
            if k in seen:
                continue
            seen.add(k)
            n += 1
            at = site.split(' <= ')[0].split('@')[-1].split(':', 1)[-1]
            bad = any(_feasible(r, c) for r in regions for c in cases)
            ctx.instance(rid, '%s: %s (%s) holds under offset <= len and |shift| within the packet' % (key.split('@')[-1], kind, detail[:50]), ok=not bad, site=at)
            if bad:
                ctx.violation(rid, key, kind.split(':')[0] + ':' + kind.split(':')[-1].strip().replace(' ', ''), 'resize_rr: the precondition "%s" of the byte move at %s can fail for a valid cursor (offset <= len, shift within the packet): '
                              'the splice panics or moves the wrong range (%s)' % (kind, at, detail[:80]), site=at, config=cfg)
        for o in e4.open_obligations():
            if o['kind'].startswith(('copy_within', 'truncate', 'resize')):
                ctx.violation(rid, key, 'open:' + o['kind'].split(':')[0], 'resize_rr: %s cannot be related to the cursor at all: %s' % (o['kind'], o.get('detail', '')[:80]), site=o['site'].split('@')[-1].split(':', 1)[-1], config=cfg)
        # exact geometry: what is moved where, and the new length (value probes at the three buffer operations)
        exact = {}
        for p in e4.probes():
            if p.get('kind') != 'call':
                continue
            C = p['C']
            lo, hi = C.bounds(shift)
            grow = lo is not None and lo >= 1
            shrink = hi is not None and hi <= -1
            if not (grow or shrink) and hi is not None and hi <= 0:
                # a plain `else` behind `if shift > 0` (zero was sent back at the top, which a convex state cannot remember): the
                # facts are evaluated for the amounts that actually remove bytes
                C2 = C.copy()
                C2.add(le(shift, -1))
                if not C2.infeasible():
                    C, shrink = C2, True
            if not (grow or shrink):
                continue
            name = p['callee'].split('::')[-1]
            facts_ = []
            if name == 'resize' and isinstance(p['args'][1], Int):
                facts_.append(('new length = len + shift', C.bounds(p['args'][1].e - ln - shift)))
            if name == 'truncate' and isinstance(p['args'][1], Int):
                facts_.append(('new length = len - |shift|', C.bounds(p['args'][1].e - ln - shift)))
            if name == 'copy_within':
                rng, dest = p['args'][1], p['args'][2]
                start = rng.fields.get((0, 0)) if isinstance(rng, Enum) else None
                if isinstance(start, Int) and isinstance(dest, Int):
                    if grow:
                        facts_.append(('moved block starts at the cursor', C.bounds(start.e - off)))
                        facts_.append(('moved to offset + shift', C.bounds(dest.e - off - shift)))
                        end = rng.fields.get((0, 1)) if isinstance(rng, Enum) else None
                        if isinstance(end, Int):
                            facts_.append(('moved block ends at the old end of the packet', C.bounds(end.e - ln)))
                    else:
                        facts_.append(('moved block starts |shift| behind the cursor', C.bounds(start.e - off + shift)))
                        facts_.append(('moved to the cursor', C.bounds(dest.e - off)))
            for nm, b in facts_:
                kk = ('grow' if grow else 'shrink') + ': ' + name + ': ' + nm
                exact.setdefault(kk, set()).add(b)
        for kk, bs in sorted(exact.items()):
            ok = bs == {(0, 0)}
            ctx.instance(rid, '%s: %s (difference %s)' % (key.split('@')[-1], kk, sorted(bs, key=str)), ok=ok, site=facts.fns[key]['at'])
            if not ok:
                ctx.violation(rid, key, 'exact:' + kk.replace(' ', '-'), 'resize_rr: "%s" does not hold: the value differs from the specified one by %s' % (kk, sorted(bs, key=str)), site=facts.fns[key]['at'], config=cfg)
        if len(exact) < 7:
            ctx.violation(rid, key, 'exact-facts', 'only %d of the 7 geometry facts of resize_rr could be evaluated (%s)' % (len(exact), sorted(exact)), kind='undecided', config=cfg)
        # both copy_within calls must have been seen (their preconditions are either proved outright or lifted and checked above)
        f = facts.fns[key]
        ncw = sum(1 for _, b in F.blocks(f) if b['term']['k'] == 'call' and (F.call_path(b['term']) or '').endswith('copy_within'))
        ctx.instance(rid, '%s: %d copy_within call(s), %d lifted geometry precondition(s) checked' % (key.split('@')[-1], ncw, n), ok=ncw >= 2, site=f['at'])
        if ncw < 2:
            ctx.violation(rid, key, 'copy_within-sites', 'resize_rr has %d copy_within calls, expected one per direction' % ncw, kind='below-floor', config=cfg)


def insert_rule(ctx, facts, cfg, rid_geo, rid_lim, limit):
    key = 'parsed_packet::ParsedPacket::insert_rr'
    if facts.fn(key) is None:
        ctx.missing(rid_geo, key)
        return
    e4 = E4(facts, havoc=6, opaque=OPAQUE, probes=[('Vec::<T, A>::resize', key), ('Vec::<T, A>::extend_from_slice', key)], assume_offsets_in_packet=True)
    try:
        S = e4.summarize(key)
    except Exception as e:  # noqa
        ctx.violation(rid_geo, key, 'undecided', 'cannot analyse insert_rr: %s' % e, kind='undecided', config=cfg)
        return
    for what, n in sorted(e4.unmodelled().items()):
        ctx.violation(rid_geo, key, 'unmodelled:' + str(what).split(': ', 1)[-1][:60], 'unmodelled construct in insert_rr: %s' % what, kind='undecided', config=cfg)
    ln = _len_sym(S)
    offs = _payloads(S, ['.offset_question', '.offset_answers', '.offset_nameservers', '.offset_additional', '.offset_edns'])
    inv = []
    if ln is not None:
        for sfx, e in offs.items():
            inv.append(le(e, ln))
    seen = set()
    for regions, site, kind, detail in S.pre:
        s0 = site.split(' <= ')[0]
        own = s0.startswith(key + '@') or s0.startswith(key + '::{closure')
        if not own:
            continue
        k = (kind, s0)
        if k in seen:
            continue
        seen.add(k)
        at = s0.split('@')[-1].split(':', 1)[-1]
        if kind.startswith(('copy_within', 'range', 'resize', 'truncate')):
            bad = any(_feasible(r, inv) for r in regions)
            ctx.instance(rid_geo, 'insert_rr: %s (%s) holds when every section offset is <= len' % (kind, detail[:50]), ok=not bad, site=at)
            if bad:
                ctx.violation(rid_geo, key, kind.split(':')[0] + ':' + kind.split(':')[-1].strip().replace(' ', ''), 'insert_rr: the precondition "%s" of the splice at %s can fail although every section offset lies inside the packet (%s)'
                              % (kind, at, detail[:80]), site=at, config=cfg)
        elif kind == 'Overflow':
            bad = any(_feasible(r, inv) for r in regions)
            ctx.instance(rid_lim, 'insert_rr: arithmetic at %s cannot overflow (%s)' % (at, detail[:50]), ok=not bad, site=at)
            if bad:
                ctx.violation(rid_lim, key, 'overflow@' + detail.split('(')[1].split(',')[0] if '(' in detail else 'overflow', 'insert_rr: %s at %s can overflow for a packet the parser accepts (e.g. one longer than the %d-byte limit): '
                              'the size test panics in builds with overflow checks and wraps (letting the insertion through) in builds without' % (detail[:60], at, limit), site=at, config=cfg)
    for o in e4.open_obligations():
        s0 = o['site'].split(' <= ')[0]
        if s0.startswith(key + '@') and o['kind'] in ('Overflow',) or o['kind'].startswith(('copy_within', 'range')):
            ctx.violation(rid_lim if o['kind'] == 'Overflow' else rid_geo, key, 'open:' + o['kind'].split(':')[0], 'insert_rr: %s %s is not excluded' % (o['kind'], o.get('detail', '')[:80]),
                          site=s0.split('@')[-1].split(':', 1)[-1], config=cfg)
    # the buffer never grows beyond the limit
    his = []
    for p in e4.probes():
        if p.get('kind') != 'call' or not p['callee'].endswith('::resize'):
            continue
        a = p['args'][1] if len(p['args']) > 1 else None
        if isinstance(a, Int):
            his.append(p['C'].bounds(a.e)[1])
    if his:
        ok = all(h is not None and h <= limit for h in his)
        ctx.instance(rid_lim, 'insert_rr: the new buffer length handed to resize() is <= %s (limit %d)' % (max(h for h in his if h is not None) if any(h is not None for h in his) else None, limit), ok=ok)
        if not ok:
            ctx.violation(rid_lim, key, 'resize-above-limit', 'insert_rr can resize the packet to %s bytes; the limit is %d' % ('an unbounded number of' if any(h is None for h in his) else max(his), limit), config=cfg)
    else:
        ctx.violation(rid_lim, key, 'no-resize-probe', 'the resize of the packet buffer in insert_rr was not reached by the analysis', kind='undecided', config=cfg)


# ------------------------------------------------------------------------------------------------------------------
# Shift closures: `offset_X = offset_X.map(|x| ..)` in the two splice routines.  Each closure is analysed by E4 on its own,
# return paths kept apart, under the stated assumption that offsets and splice amounts are below 2^32 in magnitude (a packet is
# at most 64 KiB), so that the isize/usize casts are the identity.
BOUND = 1 << 32
CURSOR_CALLS = ('DNSIterable::offset', 'DNSIterable::offset_next')


def _closure_of_map(f, defs, s):
    """(closure def key, [capture operand, ...]) for the statement `X = Option::map(old, closure)` (through copies)"""
    rv = s['rv']
    if rv['k'] != 'use':
        return None
    l = F.op_local(rv['x'])
    for _ in range(6):
        d = defs.get(l) if l is not None else None
        if d is None:
            return None
        if d[0] == 'call':
            t = d[1]
            if not (F.call_path(t) or '').endswith('Option::<T>::map') or len(t['args']) < 2:
                return None
            cl = F.op_local(t['args'][1])
            for _ in range(6):       # the closure may be a named local handed over by copy (`let shifted = |x| ..; a.map(shifted)`)
                cd = defs.get(cl) if cl is not None else None
                if cd and cd[0] == 'rv' and cd[1]['k'] == 'aggregate' and cd[1].get('agg') == 'closure':
                    return cd[1].get('def'), cd[1]['ops']
                if cd and cd[0] == 'rv' and cd[1]['k'] == 'use':
                    cl = F.op_local(cd[1]['x'])
                    continue
                break
            return None
        if d[0] == 'rv' and d[1]['k'] == 'use':
            l = F.op_local(d[1]['x'])
            continue
        return None
    return None


def _capture_types(f):
    cap_ty = {}
    def scan(o):
        if isinstance(o, dict):
            if o.get('local') == 1 and o.get('proj') and 'ty' in o:
                pj = o['proj']
                if len(pj) == 1 and pj[0].get('k') == 'field':
                    cap_ty[pj[0]['i']] = o['ty']            # closure taken by value (FnOnce)
                elif len(pj) == 2 and pj[0].get('k') == 'deref' and pj[1].get('k') == 'field':
                    cap_ty[pj[1]['i']] = o['ty']            # closure called through a reference (Fn / FnMut)
            for v in o.values():
                scan(v)
        elif isinstance(o, list):
            for v in o:
                scan(v)
    scan(f['blocks'])
    return cap_ty


def _analyse_closure(facts, key, ncap_kinds):
    """Run E4 on a shift closure with bounded captures/argument; returns (x, captures, [(C, ret)]) or raises.
    ncap_kinds: the number of captures, or the list of their kinds (a captured closure is ('closure', [kinds of its captures]))."""
    from analysis.interp import State, Ref
    ncap_kinds_list = ncap_kinds if isinstance(ncap_kinds, list) else None
    if ncap_kinds_list is not None:
        ncap_kinds = len(ncap_kinds_list)
    nested = {}
    f = facts.fns[key]
    # capture types from the places `_1.i` read in the body
    cap_ty = {}
    def scan(o):
        if isinstance(o, dict):
            if o.get('local') == 1 and o.get('proj') and 'ty' in o:
                pj = o['proj']
                if len(pj) == 1 and pj[0].get('k') == 'field':
                    cap_ty[pj[0]['i']] = o['ty']            # closure taken by value (FnOnce)
                elif len(pj) == 2 and pj[0].get('k') == 'deref' and pj[1].get('k') == 'field':
                    cap_ty[pj[1]['i']] = o['ty']            # closure called through a reference (Fn / FnMut)
            for v in o.values():
                scan(v)
        elif isinstance(o, list):
            for v in o:
                scan(v)
    scan(f['blocks'])
    e4 = E4(facts, havoc=6)
    an = e4.an
    an.split_returns = True
    st = State()
    caps = {}
    fields = {}
    for i in range(ncap_kinds):
        ty = cap_ty.get(i)
        if ty is None:
            continue
        ity = ty['to'] if ty.get('k') == 'ref' else ty
        if ity.get('k') == 'closure' and ity.get('def') in facts.fns and isinstance(ncap_kinds_list, list) and i < len(ncap_kinds_list) \
                and isinstance(ncap_kinds_list[i], tuple) and ncap_kinds_list[i][0] == 'closure':
            # a captured closure (`let shifted = |x| ..` used inside this one): its own captures become symbols of this analysis
            sub_fields = {}
            sub_caps = {}
            sub_ty = _capture_types(facts.fns[ity['def']])
            for j, sk in enumerate(ncap_kinds_list[i][1]):
                sty = sub_ty.get(j)
                if sty is None:
                    continue
                sity = sty['to'] if sty.get('k') == 'ref' else sty
                if sity.get('k') != 'int':
                    raise ValueError('capture %d.%d of %s is not an integer' % (i, j, key))
                sv = st.fresh_int(sity, 'cap%d_%d' % (i, j))
                st.C.add(le(sv.e, BOUND))
                st.C.add(ge(sv.e, -BOUND if sity.get('signed') else 0))
                sub_caps[j] = (sv.e, sity)
                if sty.get('k') == 'ref':
                    cell = 'CAP%d_%d:%s' % (i, j, key)
                    st.mem[cell] = sv
                    st.mem[cell + '#ty'] = sity
                    sub_fields[(0, j)] = Ref(cell)
                else:
                    sub_fields[(0, j)] = sv
            env2 = Enum('(closure)' + ity['def'], 0, sub_fields)
            nested[i] = sub_caps
            if ty.get('k') == 'ref':
                cell = 'CAPENV%d:%s' % (i, key)
                st.mem[cell] = env2
                fields[(0, i)] = Ref(cell)
            else:
                fields[(0, i)] = env2
            continue
        if ity.get('k') != 'int':
            raise ValueError('capture %d of %s is not an integer' % (i, key))
        v = st.fresh_int(ity, 'cap%d' % i)
        st.C.add(le(v.e, BOUND))
        st.C.add(ge(v.e, -BOUND if ity.get('signed') else 0))
        caps[i] = v.e
        if ty.get('k') == 'ref':
            cell = 'CAP%d:%s' % (i, key)
            st.mem[cell] = v
            st.mem[cell + '#ty'] = ity
            fields[(0, i)] = Ref(cell)
        else:
            fields[(0, i)] = v
    x = st.fresh_int(f['locals'][2], 'x')
    st.C.add(le(x.e, BOUND))
    for i, c in caps.items():
        ty = cap_ty[i]
        if (ty['to'] if ty.get('k') == 'ref' else ty).get('signed'):
            st.C.add(ge(x.e + c, 0))   # stated: a (negative) splice amount never moves an offset below zero
    for i, sub in nested.items():
        for j, (e_, sity) in sub.items():
            if sity.get('signed'):
                st.C.add(ge(x.e + e_, 0))
            caps[(i, j)] = e_
    env = Enum('(closure)' + key, 0, fields)
    if f['locals'][1].get('k') == 'ref':
        st.mem['ENV:' + key] = env
        env = Ref('ENV:' + key)
    rets = an.analyze(key, [env, x], st)
    return x.e, caps, [(s.C, v) for s, v in rets], e4


def _classify_captures(facts, key, ckeys, insert):
    """Run E4 on the splice routine and express each captured variable of its shift closures in the routine's entry symbols:
    'amount' (= new buffer length - old buffer length, as handed to Vec::resize), 'cursor' (= the cursor's offset / offset_next,
    or the start of the block moved by copy_within), else 'other'.  Returns {closure key: [kind, ...]}."""
    from analysis.interp import Ref
    e4 = E4(facts, havoc=6, opaque=OPAQUE, probes=[('Option::<T>::map', key), ('Vec::<T, A>::resize', key), ('<impl [T]>::copy_within', key)], assume_offsets_in_packet=insert)
    S = e4.summarize(key)
    ln = _len_sym(S)
    amount = None
    cursors = []
    for p in e4.probes():
        if p.get('kind') != 'call':
            continue
        if p['callee'].endswith('::resize') and ln is not None and len(p['args']) > 1 and isinstance(p['args'][1], Int):
            amount = p['args'][1].e - ln
        if p['callee'].endswith('copy_within') and insert:
            rng = p['args'][1]
            st_ = rng.fields.get((0, 0)) if isinstance(rng, Enum) else None
            if isinstance(st_, Int):
                cursors.append(st_.e)
    if not insert:
        off = _payloads(S, ['.offset']).get('.offset')
        if off is not None:
            cursors.append(off)
        for loc, (v, cons, extra, ty) in S.init.items():
            if loc.endswith('.offset_next') and isinstance(v, Int):
                cursors.append(v.e)
    out = {}
    for p in e4.probes():
        if p.get('kind') != 'call' or not p['callee'].endswith('::map') or len(p['args']) < 2:
            continue
        cl = p['args'][1]
        if not isinstance(cl, Enum) or not cl.adt.startswith('(closure)'):
            continue
        ck = cl.adt[len('(closure)'):]
        kinds = []
        for i in range(len(cl.fields)):
            fv = cl.fields.get((0, i))
            v = p['mem'].get(fv.loc) if isinstance(fv, Ref) else fv
            def _kind_of(v_):
                if isinstance(v_, Int):
                    if amount is not None and p['C'].bounds(v_.e - amount) == (0, 0):
                        return 'amount'
                    if any(p['C'].bounds(v_.e - c) == (0, 0) for c in cursors):
                        return 'cursor'
                return 'other'
            if isinstance(v, Enum) and v.adt.startswith('(closure)'):
                sub = []
                for j in range(len(v.fields)):
                    fv2 = v.fields.get((0, j))
                    v2 = p['mem'].get(fv2.loc) if isinstance(fv2, Ref) else fv2
                    sub.append(_kind_of(v2))
                kinds.append(('closure', sub))
                continue
            kinds.append(_kind_of(v))
        prev = out.get(ck)
        out[ck] = kinds if prev is None else [a if a == b else (a if isinstance(a, tuple) and isinstance(b, tuple) and a[0] == b[0] else 'other') for a, b in zip(prev, kinds)]
    return out, amount is not None


def shift_closure_rule(ctx, facts, cfg, rid):
    """Every `offset_X = offset_X.map(closure)` in resize_rr / insert_rr: on each return path the closure yields either x + amount
    (amount = the captured splice amount) or x unchanged; a path that leaves x unchanged must be confined to x <= cursor and a path
    that shifts, when the closure looks at the cursor at all, to x >= cursor; the offset_edns closure of resize_rr (the OPT record can
    sit on either side of the record being resized) must look at the cursor."""
    targets = [(k, True) for k in facts.inst_keys('rr_iterator::TypedIterable::resize_rr')[:1]] + [('parsed_packet::ParsedPacket::insert_rr', False)]
    n = 0
    for key, positional in targets:
        f = facts.fn(key) if not positional else facts.fns.get(key)
        if f is None:
            ctx.missing(rid, key)
            continue
        defs = F.single_defs(f)
        fn_short = key.split('::')[-1].split('@')[0]
        try:
            capkinds, have_amount = _classify_captures(facts, key, None, not positional)
        except Exception as e:  # noqa
            ctx.violation(rid, key, 'undecided', 'cannot analyse %s: %s' % (fn_short, e), kind='undecided', config=cfg)
            continue
        if not have_amount:
            ctx.violation(rid, key, 'no-resize-probe', 'the growth of the packet buffer in %s was not reached by the analysis: the splice amount is unknown' % fn_short, kind='undecided', config=cfg)
            continue
        for bi, b in F.blocks(f):
            for s in b['stmts']:
                if s['k'] != 'assign':
                    continue
                lf = F.last_field(s['place'])
                if not lf or lf[0] != 'parsed_packet::ParsedPacket' or not str(lf[1]).startswith('offset_'):
                    continue
                cm = _closure_of_map(f, defs, s)
                if cm is None:
                    continue
                ckey, ops = cm
                field = lf[1]
                n += 1
                if ckey not in facts.fns:
                    ctx.violation(rid, key, 'closure-body:' + field, 'the body of the closure that shifts %s in %s is not among the MIR bodies' % (field, fn_short), kind='anchor-missing', config=cfg)
                    continue
                kinds = capkinds.get(ckey)
                if kinds is None:
                    ctx.violation(rid, key, 'undecided:' + field, 'the closure shifting %s in %s was not reached by the analysis of %s' % (field, fn_short, fn_short), kind='undecided', config=cfg)
                    continue
                try:
                    x, caps, cases, e4 = _analyse_closure(facts, ckey, list(kinds))
                except Exception as e:  # noqa
                    ctx.violation(rid, key, 'undecided:' + field, 'cannot analyse the closure shifting %s in %s: %s' % (field, fn_short, e), kind='undecided', config=cfg)
                    continue
                amounts = [caps[i] for i, k in enumerate(kinds) if k == 'amount' and i in caps]
                cursors = [caps[i] for i, k in enumerate(kinds) if k == 'cursor' and i in caps]
                for i, k in enumerate(kinds):
                    if isinstance(k, tuple) and k[0] == 'closure':
                        amounts += [caps[(i, j)] for j, kk in enumerate(k[1]) if kk == 'amount' and (i, j) in caps]
                        cursors += [caps[(i, j)] for j, kk in enumerate(k[1]) if kk == 'cursor' and (i, j) in caps]
                problems = []
                saw_identity = saw_shift = False
                for C, v in cases:
                    if C.infeasible():
                        continue
                    if not isinstance(v, Int):
                        problems.append(('value', 'returns something the analysis cannot express as an integer'))
                        continue
                    d = v.e - x
                    if C.bounds(d) == (0, 0):
                        saw_identity = True
                        if not any(C.entails(le(x, c)) for c in cursors):
                            problems.append(('identity-unconfined', 'leaves the offset unchanged on a path that is not confined to offsets at or before the cursor: a section or OPT record behind the splice keeps its stale position'))
                        continue
                    if any(C.bounds(d - a) == (0, 0) for a in amounts):
                        saw_shift = True
                        if cursors and not any(C.entails(ge(x, c + 1)) for c in cursors):
                            problems.append(('shift-unconfined', 'shifts the offset on a path not confined to offsets strictly behind the cursor (an offset equal to the cursor designates bytes '
                                                                 'in front of the record, e.g. the empty option area of an OPT record right before it, which do not move)'))
                        continue
                    problems.append(('amount', 'returns x %+s .. %+s, which is neither x nor x + the number of bytes spliced in or out' % C.bounds(d)))
                if positional and field == 'offset_edns':
                    if not cursors:
                        problems.append(('edns-unconditional', 'does not look at the cursor: an OPT record located before the record being resized is moved although its bytes stay where they are'))
                    elif not (saw_identity and saw_shift):
                        problems.append(('edns-one-sided', 'has no path that %s' % ('leaves an OPT record before the cursor alone' if not saw_identity else 'moves an OPT record behind the cursor')))
                elif not saw_shift:
                    problems.append(('no-shift', 'never adds the splice amount'))
                ok = not problems
                ctx.instance(rid, '%s: closure shifting %s: %d return path(s), captures %s, each path x or x + amount with the right confinement' % (fn_short, field, len(cases), kinds), ok=ok, site=s.get('at'))
                for tag, why in problems:
                    ctx.violation(rid, key, '%s:%s' % (field, tag), '%s: the closure that updates %s %s' % (fn_short, field, why), site=s.get('at'), config=cfg)
    for key, positional in targets:
        if positional and key in facts.fns:
            f = facts.fns[key]
            defs = F.single_defs(f)
            got = set()
            for bi, b in F.blocks(f):
                for s in b['stmts']:
                    lf = F.last_field(s['place']) if s['k'] == 'assign' else None
                    if lf and lf[0] == 'parsed_packet::ParsedPacket' and _closure_of_map(f, defs, s):
                        got.add(lf[1])
            for need in ('offset_answers', 'offset_nameservers', 'offset_additional', 'offset_edns'):
                if need not in got:
                    ctx.violation(rid, key, need + ':never-shifted', 'resize_rr has no statement that shifts %s: after a splice in front of it the recorded position is stale' % need, config=cfg)
    if n < 13:
        # the bookkeeping of insert_rr written without `map(closure)` statements: the same facts from its E4 summary
        from rules import offsets
        tab, why_ = offsets.insert_table(facts)
        if tab is not None and all(v[0] for v in tab.values()):
            ctx.instance(rid, 'insert_rr: section offsets decided from the E4 summary for all four sections (later sections and the OPT area move by the inserted length, earlier ones stay)', ok=True)
            n = max(n, 13) if n >= 4 else n
    if n < 13:
        ctx.violation(rid, '<floor>', 'shift closures', 'found %d offset-shifting closures in resize_rr/insert_rr, expected 13 (4 + 9)' % n, kind='below-floor')
