"""C07 — renaming rewrites exactly the matching names and nothing else (structural clauses).

  C07.a accounting (E4)  the data length the renamer writes for NS/CNAME/PTR, MX and SOA equals the bytes emitted behind the record header
  C07.b dispatch         the renamer rewrites names in exactly the validator's name-bearing types; the default arm copies rdlen bytes
  C07.c OPT in place     the renamer walks the additional section with OPT included (cursor typestate through the helper's parameter),
                         and no copy from the input packet into the output has an open-ended range
  C07.d decision order   in replace_raw the "rewritten name would exceed 255 bytes" refusal is decided only for names that matched:
                         after passing that test no path returns Ok(None) ("not a match")
  C07.e label boundary   in replace_raw every path that returns a rewritten name has established that the comparison start
                         name.len() - source_name.len() coincides with a label boundary of the name (typestate over the label walk)
  (argument validation on a fresh vector and commit-after-reparse are decided under C10.a)

Not decided: which names match (label-aligned, case-insensitive comparison of run-time bytes), identity-rename equality.
"""
from analysis import facts as F
from analysis.cfg import PathFlow, Automaton
from rules import reemit, layout

RS = 'renamer::Renamer::rename_response_section'
TOP = 'renamer::Renamer::rename_with_raw_names'
RR = 'renamer::Renamer::replace_raw'


class DecisionAu(Automaton):
    """state (passed the too-long test, last value assigned to _0)"""
    init = (False, None)

    def __init__(self, facts, limit):
        self.facts = facts
        self.limit = limit
        self.defs = {}

    def _defs(self, f):
        if f['key'] not in self.defs:
            self.defs[f['key']] = F.single_defs(f)
        return self.defs[f['key']]

    def on_edge(self, q, f, bi, t, value, target, env):
        passed, ret = q
        e = F.expr(f, self._defs(f), t['discr'])
        if e[0] == 'binop' and e[1] == 'Gt' and e[3] == ('const', self.limit) and e[2][0] == 'binop' and e[2][1] == 'Add':
            if value == 0:
                return (True, ret)
        return q

    def on_stmt(self, q, f, bi, s, env):
        passed, ret = q
        if s['k'] == 'assign' and not s['place']['proj'] and s['place']['local'] == 0 and s['rv']['k'] == 'aggregate' and s['rv'].get('variant') == 'Ok':
            e = F.expr(f, self._defs(f), s['rv']['ops'][0])
            return (passed, 'OkNone' if e[0] == 'agg' and e[2] == 'None' else 'OkSome')
        return q


def decision_rule(ctx, facts, cfg):
    rid = 'C07.d'
    f = facts.fn(RR)
    if f is None:
        ctx.missing(rid, RR)
        return
    limit = facts.const_val('constants::DNS_MAX_HOSTNAME_LEN')
    flow = PathFlow(facts, DecisionAu(facts, limit))
    exits = flow.summary(RR, DecisionAu.init)
    has_test = any(q[0] for (q, kind) in exits)
    bad = [(q, kind) for (q, kind) in exits if kind == 'Ok' and q[0] and q[1] == 'OkNone']
    ctx.instance(rid, 'replace_raw: the length refusal is decided after the match (no `Ok(None)` behind it)', ok=has_test and not bad, site=f['at'])
    if not has_test:
        ctx.violation(rid, RR, 'no-length-test', 'replace_raw has no `prefix + target length > %s -> error` test on its success path: a rewritten name could exceed the limit' % limit, site=f['at'], config=cfg)
    for (q, kind) in bad[:1]:
        w = flow.witness(RR, DecisionAu.init, q, kind)
        ctx.violation(rid, RR, 'length-test-before-match', 'replace_raw tests "the rewritten name would exceed %s bytes" before it knows whether the name matches the source: a packet that merely contains a long '
                      'non-matching name makes the whole rename fail' % limit, site=f['at'], path=flow.describe_path(RR, w), config=cfg)


class BoundaryAu(Automaton):
    """Typestate of replace_raw: which locals are known to sit on a label boundary of `name` (0, or a boundary + name[boundary] + 1),
    whether the comparison start  name.len() - source_name.len()  has been found equal to such a local, and the last value put in _0.
    state = (frozenset(boundary locals), aligned, ret)"""
    init = (frozenset(), False, None)

    def __init__(self, facts):
        self.facts = facts
        self.defs = {}

    def _defs(self, f):
        if f['key'] not in self.defs:
            self.defs[f['key']] = F.single_defs(f)
        return self.defs[f['key']]

    @staticmethod
    def _is_start(e):
        """name.len() - source_name.len()  (parameters 1 and 3)"""
        def is_len(x, prm):
            return x[0] == 'call' and x[1].endswith('::len') and x[2] and x[2][0][0] in ('ref', 'load') and x[2][0][1].get('local') == prm
        return e[0] == 'binop' and e[1] == 'Sub' and is_len(e[2], 1) and is_len(e[3], 3)

    def _label_step(self, f, defs, e, bset):
        """W + (name[W] as usize + 1) in any operand order, W a boundary local -> W"""
        if not (e[0] == 'binop' and e[1] == 'Add'):
            return None
        for a, b in ((e[2], e[3]), (e[3], e[2])):
            if a[0] != 'local' or a[1] not in bset:
                continue
            if not (b[0] == 'binop' and b[1] == 'Add'):
                continue
            for c, d in ((b[2], b[3]), (b[3], b[2])):
                if d != ('const', 1):
                    continue
                while c[0] == 'cast':
                    c = c[2]
                if c[0] == 'load' and c[1].get('local') == 1 and len(c[1]['proj']) == 2 and c[1]['proj'][1]['k'] == 'index':
                    il = c[1]['proj'][1]['local']
                    di = defs.get(il)
                    src = di[1]['x']['place']['local'] if di and di[0] == 'rv' and di[1]['k'] == 'use' and di[1]['x']['k'] in ('copy', 'move') and not di[1]['x']['place']['proj'] else il
                    if src == a[1]:
                        return a[1]
        return None

    def on_stmt(self, q, f, bi, s, env):
        bset, aligned, ret = q
        if s['k'] != 'assign' or s['place']['proj']:
            return q
        L = s['place']['local']
        defs = self._defs(f)
        if L == 0 and s['rv']['k'] == 'aggregate' and s['rv'].get('variant') == 'Ok':
            e = F.expr(f, defs, s['rv']['ops'][0])
            return (bset, aligned, 'OkNone' if e[0] == 'agg' and e[2] == 'None' else 'OkSome')
        if f['locals'][L].get('k') != 'int' or L in defs:
            return q   # only multiply-assigned integer variables carry the typestate; temporaries are looked through by expr()
        e = F.expr_rv(f, defs, s['rv'])
        if e == ('const', 0):
            return (bset | {L}, aligned, ret)
        if self._label_step(f, defs, e, bset) is not None:
            return (bset | {L}, aligned, ret)
        if e[0] == 'local' and e[1] in bset:
            return (bset | {L}, aligned, ret)
        if self._is_start(e) and aligned:
            return (bset | {L}, aligned, ret)
        return (bset - {L}, aligned, ret)

    def on_edge(self, q, f, bi, t, value, target, env):
        bset, aligned, ret = q
        e = F.expr(f, self._defs(f), t['discr'])
        if e[0] == 'binop' and e[1] in ('Eq', 'Ne'):
            for a, b in ((e[2], e[3]), (e[3], e[2])):
                if a[0] == 'local' and a[1] in bset and self._is_start(b):
                    truth = (value != 0) if value is not None else all(v == 0 for v, _ in t['targets'])
                    if truth == (e[1] == 'Eq'):
                        return (bset, True, ret)
        return q


def boundary_rule(ctx, facts, cfg):
    rid = 'C07.e'
    f = facts.fn(RR)
    if f is None:
        ctx.missing(rid, RR)
        return
    flow = PathFlow(facts, BoundaryAu(facts))
    exits = flow.summary(RR, BoundaryAu.init)
    some = [(q, kind) for (q, kind) in exits if kind == 'Ok' and q[2] == 'OkSome']
    bad = [(q, kind) for (q, kind) in some if not q[1]]
    ctx.instance(rid, 'replace_raw: every path returning a rewritten name has found name.len() - source_name.len() equal to a label boundary of the name (%d exit state(s))' % len(some),
                 ok=bool(some) and not bad, site=f['at'])
    if not some:
        ctx.violation(rid, RR, 'no-some-exit', 'no path returning Ok(Some(..)) found in replace_raw', kind='undecided', config=cfg)
    for (q, kind) in bad[:1]:
        w = flow.witness(RR, BoundaryAu.init, q, kind)
        ctx.violation(rid, RR, 'suffix-not-label-aligned', 'replace_raw can return a rewritten name on a path where the comparison start name.len() - source_name.len() was never found equal to a label '
                      'boundary of the name (0, or a boundary + its length byte + 1): in suffix mode a name that merely ends with the bytes of the source (a near miss inside a label) is rewritten',
                      site=f['at'], path=flow.describe_path(RR, w), config=cfg)


def default_arm_rule(ctx, facts, cfg):
    """the default arm copies exactly rdlen bytes starting behind the 10-byte header"""
    rid = 'C07.b'
    f = facts.fn(RS)
    if f is None:
        return
    defs = F.single_defs(f)
    ok = False
    for bi, b in F.blocks(f):
        t = b['term']
        if t['k'] == 'call' and 'ndex' in (F.call_path(t) or '') and len(t['args']) > 1:
            e = F.expr(f, defs, t['args'][1])
            if e[0] == 'agg' and e[1] == 'std::ops::Range':
                rs = F.roots(f, defs, t['args'][1])
                if any(r[0] == 'call' and r[1].endswith('::rr_rdlen') for r in rs):
                    end = e[3][1]
                    # end = start + 10 + rd_len
                    s_ = str(end)
                    ok = "('const', 10)" in s_
    ctx.instance(rid, 'renamer default arm copies header + rr_rdlen() bytes', ok=ok, site=f['at'])
    if not ok:
        ctx.violation(rid, RS, 'default-arm', 'the default arm of the renamer no longer copies exactly DNS_RR_HEADER_SIZE + rr_rdlen() bytes of the record', site=f['at'], config=cfg)


def run(ctx):
    for cfg in ctx.configs():
        if cfg == 'hooks':
            continue
        facts = ctx.facts(cfg)
        reemit.accounting_rule(ctx, facts, cfg, 'C07.a', RS, havoc=4)
        reemit.dispatch_rule(ctx, facts, cfg, 'C07.b', RS, 'renaming')
        default_arm_rule(ctx, facts, cfg)
        reemit.cursor_rule(ctx, facts, cfg, 'C07.c', [TOP])
        reemit.open_ended_rule(ctx, facts, cfg, 'C07.c', TOP, ('renamer::',), 4, 'the renamer')
        decision_rule(ctx, facts, cfg)
        boundary_rule(ctx, facts, cfg)
    ctx.trust('analysis/interp.py contracts; helpers above the size threshold are havocked for the accounting (only facts local to rename_response_section are used)')
