"""C07 — renaming rewrites exactly the matching names and nothing else (structural clauses).

  C07.a accounting (E4)  the data length the renamer writes for NS/CNAME/PTR, MX and SOA equals the bytes emitted behind the record header
  C07.b dispatch         the renamer rewrites names in exactly the validator's name-bearing types; the default arm copies rdlen bytes
  C07.c OPT in place     the renamer walks the additional section with OPT included (cursor typestate through the helper's parameter),
                         and no copy from the input packet into the output has an open-ended range
  C07.d decision order   in replace_raw the "rewritten name would exceed 255 bytes" refusal is decided only for names that matched:
                         after passing that test no path returns Ok(None) ("not a match")
  C07.e label boundary   in replace_raw every path that returns a rewritten name has established that the comparison start
                         name.len() - source_name.len() coincides with a label boundary of the name (typestate over the label walk)
  C07.f comparison window (E4) the bytes compared for a label are exactly the label_len bytes behind its length byte, against the source
                         bytes at the same distance from the end of the source (per-byte closure form analysed for a generic index, or slices)
  C07.g byte predicate   every comparison between name and source is the standard eq_ignore_ascii_case or a closure whose result, evaluated for
                         all 65 536 byte pairs (E3), is ASCII case-insensitive equality
  C07.h source positions every offset / index range into the input packet in rename_response_section is computed from the input only, never
                         from the length of the output vector
  (argument validation on a fresh vector and commit-after-reparse are decided under C10.a)

Not decided: which names match (label-aligned, case-insensitive comparison of run-time bytes), identity-rename equality.
"""
from analysis import facts as F
from analysis.cfg import PathFlow, Automaton
from rules import reemit, layout
from analysis.lin import le, ge

RS = 'renamer::Renamer::rename_response_section'
TOP = 'renamer::Renamer::rename_with_raw_names'
RR = 'renamer::Renamer::replace_raw'


class DecisionAu(Automaton):
    """state (passed the too-long test, last value assigned to _0)"""
    init = (False, None)

    def __init__(self, facts, limit):
        self.facts = facts
        self.limit = limit
        self.defs = {}

    def _defs(self, f):
        if f['key'] not in self.defs:
            self.defs[f['key']] = F.single_defs(f)
        return self.defs[f['key']]

    def on_edge(self, q, f, bi, t, value, target, env):
        passed, ret = q
        e = F.expr(f, self._defs(f), t['discr'])
        if e[0] == 'binop' and e[1] == 'Gt' and e[3] == ('const', self.limit) and e[2][0] == 'binop' and e[2][1] == 'Add':
            if value == 0:
                return (True, ret)
        return q

    def on_stmt(self, q, f, bi, s, env):
        passed, ret = q
        if s['k'] == 'assign' and not s['place']['proj'] and s['place']['local'] == 0 and s['rv']['k'] == 'aggregate' and s['rv'].get('variant') == 'Ok':
            e = F.expr(f, self._defs(f), s['rv']['ops'][0])
            return (passed, 'OkNone' if e[0] == 'agg' and e[2] == 'None' else 'OkSome')
        return q


def decision_rule(ctx, facts, cfg):
    rid = 'C07.d'
    f = facts.fn(RR)
    if f is None:
        ctx.missing(rid, RR)
        return
    limit = facts.const_val('constants::DNS_MAX_HOSTNAME_LEN')
    flow = PathFlow(facts, DecisionAu(facts, limit))
    exits = flow.summary(RR, DecisionAu.init)
    has_test = any(q[0] for (q, kind) in exits)
    bad = [(q, kind) for (q, kind) in exits if kind == 'Ok' and q[0] and q[1] == 'OkNone']
    ctx.instance(rid, 'replace_raw: the length refusal is decided after the match (no `Ok(None)` behind it)', ok=has_test and not bad, site=f['at'])
    if not has_test:
        ctx.violation(rid, RR, 'no-length-test', 'replace_raw has no `prefix + target length > %s -> error` test on its success path: a rewritten name could exceed the limit' % limit, site=f['at'], config=cfg)
    for (q, kind) in bad[:1]:
        w = flow.witness(RR, DecisionAu.init, q, kind)
        ctx.violation(rid, RR, 'length-test-before-match', 'replace_raw tests "the rewritten name would exceed %s bytes" before it knows whether the name matches the source: a packet that merely contains a long '
                      'non-matching name makes the whole rename fail' % limit, site=f['at'], path=flow.describe_path(RR, w), config=cfg)


class BoundaryAu(Automaton):
    """Typestate of replace_raw: which locals are known to sit on a label boundary of `name` (0, or a boundary + name[boundary] + 1),
    whether the comparison start  name.len() - source_name.len()  has been found equal to such a local, and the last value put in _0.
    state = (frozenset(boundary locals), aligned, ret)"""
    init = (frozenset(), False, None)

    def __init__(self, facts):
        self.facts = facts
        self.defs = {}

    def _defs(self, f):
        if f['key'] not in self.defs:
            self.defs[f['key']] = F.single_defs(f)
        return self.defs[f['key']]

    @staticmethod
    def _is_start(e):
        """name.len() - source_name.len()  (parameters 1 and 3)"""
        def is_len(x, prm):
            return x[0] == 'call' and x[1].endswith('::len') and x[2] and x[2][0][0] in ('ref', 'load') and x[2][0][1].get('local') == prm
        return e[0] == 'binop' and e[1] == 'Sub' and is_len(e[2], 1) and is_len(e[3], 3)

    def _label_step(self, f, defs, e, bset):
        """W + (name[W] as usize + 1) in any operand order, W a boundary local -> W"""
        if not (e[0] == 'binop' and e[1] == 'Add'):
            return None
        for a, b in ((e[2], e[3]), (e[3], e[2])):
            if a[0] != 'local' or a[1] not in bset:
                continue
            if not (b[0] == 'binop' and b[1] == 'Add'):
                continue
            for c, d in ((b[2], b[3]), (b[3], b[2])):
                if d != ('const', 1):
                    continue
                while c[0] == 'cast':
                    c = c[2]
                if c[0] == 'load' and c[1].get('local') == 1 and len(c[1]['proj']) == 2 and c[1]['proj'][1]['k'] == 'index':
                    il = c[1]['proj'][1]['local']
                    di = defs.get(il)
                    src = di[1]['x']['place']['local'] if di and di[0] == 'rv' and di[1]['k'] == 'use' and di[1]['x']['k'] in ('copy', 'move') and not di[1]['x']['place']['proj'] else il
                    if src == a[1]:
                        return a[1]
        return None

    def on_stmt(self, q, f, bi, s, env):
        bset, aligned, ret = q
        if s['k'] != 'assign' or s['place']['proj']:
            return q
        L = s['place']['local']
        defs = self._defs(f)
        if L == 0 and s['rv']['k'] == 'aggregate' and s['rv'].get('variant') == 'Ok':
            e = F.expr(f, defs, s['rv']['ops'][0])
            return (bset, aligned, 'OkNone' if e[0] == 'agg' and e[2] == 'None' else 'OkSome')
        if f['locals'][L].get('k') != 'int' or L in defs:
            return q   # only multiply-assigned integer variables carry the typestate; temporaries are looked through by expr()
        e = F.expr_rv(f, defs, s['rv'])
        if e == ('const', 0):
            return (bset | {L}, aligned, ret)
        if self._label_step(f, defs, e, bset) is not None:
            return (bset | {L}, aligned, ret)
        if e[0] == 'local' and e[1] in bset:
            return (bset | {L}, aligned, ret)
        if self._is_start(e) and aligned:
            return (bset | {L}, aligned, ret)
        return (bset - {L}, aligned, ret)

    def on_edge(self, q, f, bi, t, value, target, env):
        bset, aligned, ret = q
        e = F.expr(f, self._defs(f), t['discr'])
        if e[0] == 'binop' and e[1] in ('Eq', 'Ne'):
            for a, b in ((e[2], e[3]), (e[3], e[2])):
                if a[0] == 'local' and a[1] in bset and self._is_start(b):
                    truth = (value != 0) if value is not None else all(v == 0 for v, _ in t['targets'])
                    if truth == (e[1] == 'Eq'):
                        return (bset, True, ret)
        return q


def boundary_rule(ctx, facts, cfg):
    rid = 'C07.e'
    f = facts.fn(RR)
    if f is None:
        ctx.missing(rid, RR)
        return
    flow = PathFlow(facts, BoundaryAu(facts))
    exits = flow.summary(RR, BoundaryAu.init)
    some = [(q, kind) for (q, kind) in exits if kind == 'Ok' and q[2] == 'OkSome']
    bad = [(q, kind) for (q, kind) in some if not q[1]]
    ctx.instance(rid, 'replace_raw: every path returning a rewritten name has found name.len() - source_name.len() equal to a label boundary of the name (%d exit state(s))' % len(some),
                 ok=bool(some) and not bad, site=f['at'])
    if not some:
        ctx.violation(rid, RR, 'no-some-exit', 'no path returning Ok(Some(..)) found in replace_raw', kind='undecided', config=cfg)
    for (q, kind) in bad[:1]:
        w = flow.witness(RR, BoundaryAu.init, q, kind)
        ctx.violation(rid, RR, 'suffix-not-label-aligned', 'replace_raw can return a rewritten name on a path where the comparison start name.len() - source_name.len() was never found equal to a label '
                      'boundary of the name (0, or a boundary + its length byte + 1): in suffix mode a name that merely ends with the bytes of the source (a near miss inside a label) is rewritten',
                      site=f['at'], path=flow.describe_path(RR, w), config=cfg)


def window_rule(ctx, facts, cfg):
    """C07.f (E4): in replace_raw, the bytes compared for a label are exactly the label_len bytes behind its length byte, each against the
    source byte at the same distance from the end of the source.  Works for the per-byte form ((0..n).all(|j| ..), analysed for a generic
    j) and for a slice comparison."""
    rid = 'C07.f'
    from analysis.e4 import E4
    from analysis.interp import Ref, Slice, Int
    from analysis.lin import eq as _eq, lin as _lin
    f = facts.fn(RR)
    if f is None:
        ctx.missing(rid, RR)
        return
    e4 = E4(facts, probes=[('eq_ignore_ascii_case', None), ('<load>', RR)], track_loads=True)
    try:
        S = e4.summarize(RR)
    except Exception as e:  # noqa
        ctx.violation(rid, RR, 'undecided', 'cannot analyse replace_raw: %s' % e, kind='undecided', config=cfg)
        return
    for what, n_ in sorted(e4.unmodelled().items()):
        ctx.violation(rid, RR, 'unmodelled:' + str(what)[:60], 'unmodelled construct in replace_raw: %s' % str(what)[:120], kind='undecided', config=cfg)
    name_base, src_base = 'A0:' + RR, 'A2:' + RR
    ln_name = S.init.get(name_base + '#len')
    ln_src = S.init.get(src_base + '#len')
    n = 0
    all_probes = e4.probes()
    have_std = any(p.get('kind') == 'call' for p in all_probes)
    # a hand-written comparison has no eq_ignore_ascii_case call: pair up the byte loads the comparison closure makes from the two buffers
    synth = []
    if not have_std:
        loads = [p for p in all_probes if p.get('kind') == 'load' and '{closure' in p['fn']]
        for pl in [p for p in loads if p['base'] == name_base]:
            for pr in [p for p in loads if p['base'] == src_base and p['fn'] == pl['fn']]:
                q = dict(pr)
                q['kind'] = 'pair'
                q['sides'] = [(name_base, pl['pos'], _lin(1)), (src_base, pr['pos'], _lin(1))]
                synth.append(q)
                break
    for p in all_probes + synth:
        if p.get('kind') == 'pair':
            sides = p['sides']
            C = p['C']
        else:
            if p.get('kind') != 'call' or len(p['args']) < 2:
                continue
            C = p['C']
            sides = []
            for a in p['args'][:2]:
                if isinstance(a, Ref) and a.loc in e4.an.cell_index:
                    b, pos = e4.an.cell_index[a.loc]
                    sides.append((b, pos, _lin(1)))
                elif isinstance(a, Slice):
                    sides.append((a.base, a.off, a.ln))
        if len(sides) != 2 or {sides[0][0], sides[1][0]} != {name_base, src_base}:
            continue
        n += 1
        nm = sides[0] if sides[0][0] == name_base else sides[1]
        sr = sides[1] if sides[0][0] == name_base else sides[0]
        # the length byte of the label being compared: a user variable of replace_raw still holding a byte that was loaded from `name`
        # (the engine keeps, as a ghost, the position every loaded byte came from)
        user = {l for l, nm_ in f['debug']}
        lab = p0 = None
        cands = []
        for k, g in p['mem'].items():
            if not k.startswith('ghost:ld:') or not isinstance(g, Int):
                continue
            loc = k[len('ghost:ld:'):]
            if e4.an.load_base.get(loc) != name_base or not isinstance(p['mem'].get(loc), Int):
                continue
            try:
                li = int(loc.rsplit('._', 1)[1])
            except ValueError:
                continue
            if li in user:
                cands.append((loc, p['mem'][loc], g.e))
        if len(cands) == 1:
            lab, p0 = cands[0][1], cands[0][2]
        if lab is None or p0 is None:
            ctx.violation(rid, RR, 'length-byte', 'cannot relate the comparison at %s to the length byte of the label being compared' % p['at'], kind='undecided', site=p['at'], config=cfg)
            continue
        problems = []
        d = nm[1] - p0
        lo, hi = C.bounds(d)
        width_one = nm[2].is_const() and nm[2].c == 1
        # the window may start at the length byte itself (comparing the two length bytes as well is an exact comparison: they are
        # below the ASCII letters) or right behind it; it must end with the last byte of the label
        if lo not in (0, 1):
            problems.append('the first byte compared lies %s byte(s) behind the length byte (must be 0 or 1: the length byte or the byte right after it)' % lo)
        if width_one:
            if not C.entails(le(d, lab.e)):
                problems.append('bytes further than label_len behind the length byte can be compared')
            t_ = C.copy()
            t_.add(_eq(d, lab.e))
            if t_.infeasible():
                problems.append('the last byte of the label (length byte + label_len) is never compared')
        else:
            if hi != lo:
                problems.append('the start of the compared slice is not fixed relative to the length byte (%s..%s)' % (lo, hi))
            if C.bounds(d + nm[2] - lab.e) != (1, 1):
                problems.append('the compared slice ends %s byte(s) behind the length byte relative to label_len (must end exactly with the last byte of the label, at label_len)' % (C.bounds(d + nm[2] - lab.e - 1),))
        # same distance from the end on the source side: src_pos = name_pos - (name.len() - source.len())
        if ln_name is not None and ln_src is not None and isinstance(ln_name[0], Int) and isinstance(ln_src[0], Int):
            if C.bounds(sr[1] - (nm[1] - (ln_name[0].e - ln_src[0].e))) != (0, 0):
                problems.append('the source byte compared is not the one at the same distance from the end of the source')
            if not width_one and C.bounds(sr[2] - nm[2]) != (0, 0):
                problems.append('the two compared slices differ in length')
        ctx.instance(rid, 'replace_raw: comparison at %s covers exactly the label_len bytes behind the length byte, aligned with the source' % p['at'], ok=not problems, site=p['at'])
        for w in problems:
            ctx.violation(rid, RR, 'window:' + w.split(' ')[1] + '-' + w.split(' ')[2], 'replace_raw: in the label comparison at %s %s: names that differ from the source in a byte that is not compared are rewritten too'
                          % (p['at'], w), site=p['at'], config=cfg)
    if n < 1:
        ctx.violation(rid, '<floor>', 'comparisons', 'no case-insensitive comparison between the name and the source found in replace_raw', kind='below-floor')


def predicate_rule(ctx, facts, cfg):
    """C07.g: which bytes count as equal when a name is compared with the source.  Every comparison of replace_raw is either the standard
    slice / byte eq_ignore_ascii_case, or a closure whose result, evaluated for all 65 536 byte pairs (E3), is ASCII case-insensitive
    equality."""
    rid = 'C07.g'
    from rules import bytecmp
    f = facts.fn(RR)
    if f is None:
        ctx.missing(rid, RR)
        return
    n = 0
    std = 0
    for bi, b in F.blocks(f):
        t = b['term']
        if t['k'] == 'call' and (F.call_path(t) or '').endswith('eq_ignore_ascii_case'):
            std += 1
    closures = sorted(k for k in facts.closures_of(f) if k in facts.fns)
    for ck in closures:
        g = facts.fns[ck]
        if g['locals'][0].get('k') != 'bool':
            continue
        table, why = bytecmp.closure_table(facts, RR, ck, 1, 3)
        if table is None:
            if 'does not capture both' in (why or ''):
                continue
            ctx.violation(rid, ck, 'undecided', 'the byte comparison in %s could not be evaluated: %s' % (ck, why), kind='undecided', site=g['at'], config=cfg)
            n += 1
            continue
        n += 1
        bad = bytecmp.compare_with_spec(table)
        ctx.instance(rid, 'replace_raw: comparison closure at %s: equal <=> lower(c1) == lower(c2) for all 65536 byte pairs (%d disagree)' % (g['at'], len(bad)), ok=not bad, site=g['at'])
        if bad:
            c1, c2, got = bad[0]
            ctx.violation(rid, RR, 'byte-predicate', 'replace_raw compares bytes wrongly for %d of 65536 pairs, e.g. 0x%02x vs 0x%02x is treated as %s: names that are not equal to the source up to ASCII case are rewritten '
                          '(or matching names are not)' % (len(bad), c1, c2, 'equal' if got is False else 'different'), site=g['at'], config=cfg)
    if n + std < 1:
        ctx.violation(rid, RR, 'no-comparison', 'replace_raw contains neither a standard eq_ignore_ascii_case call nor a comparison closure over the name and the source', kind='undecided', site=f['at'], config=cfg)
    elif n == 0:
        ctx.instance(rid, 'replace_raw compares with the standard eq_ignore_ascii_case (%d call site(s))' % std, ok=True, site=f['at'])


def source_positions_rule(ctx, facts, cfg):
    """C07.h: positions in the INPUT packet are computed from the input only.  In the renamer the output grows and shrinks independently
    of the input (names are replaced and re-compressed), so a source offset handed to copy_with_replaced_name, or an index range into the
    source packet, must not be derived from the length of the output vector."""
    rid = 'C07.h'
    f = facts.fn(RS)
    if f is None:
        ctx.missing(rid, RS)
        return
    defs = F.single_defs(f)
    out_param = None
    for i in range(1, f['arg_count'] + 1):
        ty = f['locals'][i]
        if ty.get('k') == 'ref' and ty.get('mut') and 'Vec<u8>' in ty.get('s', ''):
            out_param = i
    if out_param is None:
        ctx.violation(rid, RS, 'no-output-param', 'no `&mut Vec<u8>` output parameter found in %s' % RS, kind='anchor-missing', config=cfg)
        return

    def from_output_len(op, depth=0):
        for r in F.roots(f, defs, op):
            if r[0] == 'call' and str(r[1]).endswith('Vec::<T, A>::len') and r[2]['args']:
                rr = F.roots(f, defs, r[2]['args'][0])
                if any(x[0] == 'param' and str(x[1]) == str(out_param) for x in rr):
                    return True
            if r[0] == 'call' and depth < 3 and ('ndex' in str(r[1])) and len(r[2]['args']) > 1:
                if from_output_len(r[2]['args'][1], depth + 1):
                    return True
        return False
    n = 0
    for bi, b in F.blocks(f):
        t = b['term']
        if t['k'] != 'call':
            continue
        p = F.call_path(t) or ''
        pos_ops = []
        if p.endswith('Renamer::copy_with_replaced_name') and len(t['args']) > 2:
            pos_ops.append(('source offset of the name to copy', t['args'][2]))
        elif 'ndex' in p and len(t['args']) > 1:
            rs0 = F.roots(f, defs, t['args'][0])
            if any(r[0] == 'load' and any(fl[1] == 'packet' for fl in F.fields_of(r[1])) for r in rs0):
                pos_ops.append(('index range into the source packet', t['args'][1]))
        for what, op in pos_ops:
            n += 1
            bad = from_output_len(op)
            ctx.instance(rid, 'rename_response_section: %s at %s is computed from the input only' % (what, t.get('at')), ok=not bad, site=t.get('at'))
            if bad:
                ctx.violation(rid, RS, 'source-position-from-output-length', 'rename_response_section: the %s at %s is derived from the length of the output vector: once a name has been replaced or '
                              're-compressed the output no longer advances in step with the input, and the wrong input bytes are read' % (what, t.get('at')), site=t.get('at'), config=cfg)
    if n < 6:
        ctx.violation(rid, '<floor>', 'source positions', 'found %d source positions in rename_response_section, expected at least 6' % n, kind='below-floor')


def default_arm_rule(ctx, facts, cfg):
    """the default arm copies exactly rdlen bytes starting behind the 10-byte header"""
    rid = 'C07.b'
    f = facts.fn(RS)
    if f is None:
        return
    defs = F.single_defs(f)
    ok = False
    for bi, b in F.blocks(f):
        t = b['term']
        if t['k'] == 'call' and 'ndex' in (F.call_path(t) or '') and len(t['args']) > 1:
            e = F.expr(f, defs, t['args'][1])
            if e[0] == 'agg' and e[1] == 'std::ops::Range':
                rs = F.roots(f, defs, t['args'][1])
                if any(r[0] == 'call' and r[1].endswith('::rr_rdlen') for r in rs):
                    end = e[3][1]
                    # end = start + 10 + rd_len
                    s_ = str(end)
                    ok = "('const', 10)" in s_
    ctx.instance(rid, 'renamer default arm copies header + rr_rdlen() bytes', ok=ok, site=f['at'])
    if not ok:
        ctx.violation(rid, RS, 'default-arm', 'the default arm of the renamer no longer copies exactly DNS_RR_HEADER_SIZE + rr_rdlen() bytes of the record', site=f['at'], config=cfg)


def run(ctx):
    for cfg in ctx.configs():
        if cfg == 'hooks':
            continue
        facts = ctx.facts(cfg)
        reemit.accounting_rule(ctx, facts, cfg, 'C07.a', RS, havoc=4)
        reemit.rewrite_on_every_path_rule(ctx, facts, cfg, 'C07.a', RS, ('Renamer::copy_with_replaced_name', 'Compress::copy_compressed_name_with_base_offset'), floor=2)
        reemit.names_on_every_path_rule(ctx, facts, cfg, 'C07.i', RS, ('Renamer::copy_with_replaced_name',), 'comparing it with the source name')
        reemit.dispatch_rule(ctx, facts, cfg, 'C07.b', RS, 'renaming')
        default_arm_rule(ctx, facts, cfg)
        reemit.cursor_rule(ctx, facts, cfg, 'C07.c', [TOP])
        reemit.open_ended_rule(ctx, facts, cfg, 'C07.c', TOP, ('renamer::',), 2, 'the renamer')   # 5 sites on the pinned tree
        decision_rule(ctx, facts, cfg)
        boundary_rule(ctx, facts, cfg)
        window_rule(ctx, facts, cfg)
        predicate_rule(ctx, facts, cfg)
        source_positions_rule(ctx, facts, cfg)
    ctx.trust('analysis/interp.py contracts; helpers above the size threshold are havocked for the accounting (only facts local to rename_response_section are used)')
