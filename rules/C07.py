"""C07 — renaming rewrites exactly the matching names and nothing else (structural clauses).

  C07.a accounting (E4)  the data length the renamer writes for NS/CNAME/PTR, MX and SOA equals the bytes emitted behind the record header
  C07.b dispatch         the renamer rewrites names in exactly the validator's name-bearing types; the default arm copies rdlen bytes
  C07.c OPT in place     the renamer walks the additional section with OPT included (cursor typestate through the helper's parameter),
                         and no copy from the input packet into the output has an open-ended range
  C07.d decision order   in replace_raw the "rewritten name would exceed 255 bytes" refusal is decided only for names that matched:
                         after passing that test no path returns Ok(None) ("not a match")
  (argument validation on a fresh vector and commit-after-reparse are decided under C10.a)

Not decided: which names match (label-aligned, case-insensitive comparison of run-time bytes), identity-rename equality.
"""
from analysis import facts as F
from analysis.cfg import PathFlow, Automaton
from rules import reemit, layout

RS = 'renamer::Renamer::rename_response_section'
TOP = 'renamer::Renamer::rename_with_raw_names'
RR = 'renamer::Renamer::replace_raw'


def open_ended_rule(ctx, facts, cfg):
    rid = 'C07.c'
    if facts.fn(TOP) is None:
        ctx.missing(rid, TOP)
        return
    seen, _, _, _ = facts.reach([TOP])
    n = 0
    for k in sorted(seen):
        if not (k.startswith('renamer::') or k.startswith('parsed_packet::ParsedPacket::copy_')):
            continue
        f = facts.fns[k]
        defs = F.single_defs(f)
        for bi, b in F.blocks(f):
            t = b['term']
            if t['k'] == 'call' and (F.call_path(t) or '').split('::')[-1] in ('extend', 'extend_from_slice') and len(t['args']) > 1:
                cur = t['args'][1]
                idx = None
                base_packet = False
                for _ in range(10):
                    if cur.get('k') not in ('copy', 'move'):
                        break
                    pl = cur['place']
                    if any(fl[1] == 'packet' for fl in F.fields_of(pl)):
                        base_packet = True
                    d = defs.get(pl['local'])
                    if d is None:
                        break
                    if d[0] == 'call':
                        p = F.call_path(d[1]) or ''
                        if 'ndex' in p and len(d[1]['args']) > 1:
                            e_i = F.expr(f, defs, d[1]['args'][1])
                            bounded = e_i[0] == 'agg' and e_i[1] in ('std::ops::Range', 'std::ops::RangeTo', 'std::ops::RangeInclusive', 'std::ops::RangeToInclusive')
                            if idx is None or bounded:
                                idx = e_i if (idx is None or bounded) else idx
                            cur = d[1]['args'][0]
                            continue
                        if p.endswith('ParsedPacket::packet') or p.endswith('::packet'):
                            base_packet = True
                        break
                    rv = d[1]
                    if rv['k'] in ('use', 'cast'):
                        cur = rv['x']
                    elif rv['k'] in ('ref', 'rawptr'):
                        cur = {'k': 'copy', 'place': rv['place']}
                    else:
                        break
                if base_packet:
                    n += 1
                    open_ = idx is not None and idx[0] == 'agg' and idx[1] == 'std::ops::RangeFrom'
                    ctx.instance(rid, '%s copies a bounded range of the input packet at %s' % (k.split('::')[-1], t['at']), ok=not open_, site=t['at'])
                    if open_:
                        ctx.violation(rid, k, 'open-ended-copy', '%s appends `packet[a..]` (everything up to the end of the input) to the output: records behind the copied one are emitted twice' % k.split('::')[-1],
                                      site=t['at'], config=cfg)
    if n < 4:
        ctx.violation(rid, '<floor>', 'copies from the input packet', 'found %d bounded copies from the input packet in the renamer, expected at least 4' % n, kind='below-floor')


class DecisionAu(Automaton):
    """state (passed the too-long test, last value assigned to _0)"""
    init = (False, None)

    def __init__(self, facts, limit):
        self.facts = facts
        self.limit = limit
        self.defs = {}

    def _defs(self, f):
        if f['key'] not in self.defs:
            self.defs[f['key']] = F.single_defs(f)
        return self.defs[f['key']]

    def on_edge(self, q, f, bi, t, value, target, env):
        passed, ret = q
        e = F.expr(f, self._defs(f), t['discr'])
        if e[0] == 'binop' and e[1] == 'Gt' and e[3] == ('const', self.limit) and e[2][0] == 'binop' and e[2][1] == 'Add':
            if value == 0:
                return (True, ret)
        return q

    def on_stmt(self, q, f, bi, s, env):
        passed, ret = q
        if s['k'] == 'assign' and not s['place']['proj'] and s['place']['local'] == 0 and s['rv']['k'] == 'aggregate' and s['rv'].get('variant') == 'Ok':
            e = F.expr(f, self._defs(f), s['rv']['ops'][0])
            return (passed, 'OkNone' if e[0] == 'agg' and e[2] == 'None' else 'OkSome')
        return q


def decision_rule(ctx, facts, cfg):
    rid = 'C07.d'
    f = facts.fn(RR)
    if f is None:
        ctx.missing(rid, RR)
        return
    limit = facts.const_val('constants::DNS_MAX_HOSTNAME_LEN')
    flow = PathFlow(facts, DecisionAu(facts, limit))
    exits = flow.summary(RR, DecisionAu.init)
    has_test = any(q[0] for (q, kind) in exits)
    bad = [(q, kind) for (q, kind) in exits if kind == 'Ok' and q[0] and q[1] == 'OkNone']
    ctx.instance(rid, 'replace_raw: the length refusal is decided after the match (no `Ok(None)` behind it)', ok=has_test and not bad, site=f['at'])
    if not has_test:
        ctx.violation(rid, RR, 'no-length-test', 'replace_raw has no `prefix + target length > %s -> error` test on its success path: a rewritten name could exceed the limit' % limit, site=f['at'], config=cfg)
    for (q, kind) in bad[:1]:
        w = flow.witness(RR, DecisionAu.init, q, kind)
        ctx.violation(rid, RR, 'length-test-before-match', 'replace_raw tests "the rewritten name would exceed %s bytes" before it knows whether the name matches the source: a packet that merely contains a long '
                      'non-matching name makes the whole rename fail' % limit, site=f['at'], path=flow.describe_path(RR, w), config=cfg)


def default_arm_rule(ctx, facts, cfg):
    """the default arm copies exactly rdlen bytes starting behind the 10-byte header"""
    rid = 'C07.b'
    f = facts.fn(RS)
    if f is None:
        return
    defs = F.single_defs(f)
    ok = False
    for bi, b in F.blocks(f):
        t = b['term']
        if t['k'] == 'call' and 'ndex' in (F.call_path(t) or '') and len(t['args']) > 1:
            e = F.expr(f, defs, t['args'][1])
            if e[0] == 'agg' and e[1] == 'std::ops::Range':
                rs = F.roots(f, defs, t['args'][1])
                if any(r[0] == 'call' and r[1].endswith('::rr_rdlen') for r in rs):
                    end = e[3][1]
                    # end = start + 10 + rd_len
                    s_ = str(end)
                    ok = "('const', 10)" in s_
    ctx.instance(rid, 'renamer default arm copies header + rr_rdlen() bytes', ok=ok, site=f['at'])
    if not ok:
        ctx.violation(rid, RS, 'default-arm', 'the default arm of the renamer no longer copies exactly DNS_RR_HEADER_SIZE + rr_rdlen() bytes of the record', site=f['at'], config=cfg)


def run(ctx):
    for cfg in ctx.configs():
        if cfg == 'hooks':
            continue
        facts = ctx.facts(cfg)
        reemit.accounting_rule(ctx, facts, cfg, 'C07.a', RS, havoc=4)
        reemit.dispatch_rule(ctx, facts, cfg, 'C07.b', RS, 'renaming')
        default_arm_rule(ctx, facts, cfg)
        reemit.cursor_rule(ctx, facts, cfg, 'C07.c', [TOP])
        open_ended_rule(ctx, facts, cfg)
        decision_rule(ctx, facts, cfg)
    ctx.trust('analysis/interp.py contracts; helpers above the size threshold are havocked for the accounting (only facts local to rename_response_section are used)')
