"""C12 — header setters touch only their own bits; getters return what was set.  (proof, E3)

For every setter the exact Boolean function of each of the 96 header bits after the call is computed from the MIR
and compared with the spec below (RFC 1035 section 4.1.1 and the property text); for every getter the exact function
of each result bit.  Each bit depends on at most two input bits, so equality covers all 2^16 x 2^32 combinations.
getter(setter(x)) then follows by composition, and is also evaluated directly.
"""
from analysis.bits import BV, BF, TOP, Interp, View, Undecided, ite

FLAG_BITS = (15, 10, 9, 8, 7, 6, 5, 4)      # QR AA TC RD RA Z AD CD
OPCODE_BITS = (14, 13, 12, 11)
RCODE_BITS = (3, 2, 1, 0)
PP = 'parsed_packet::ParsedPacket::'
DS = 'dns_sector::DNSSector::'


def hdr():
    return {'P': [BV.sym('h%d_' % i, 8) for i in range(12)]}


def word(m):
    return BV(m['P'][3].bits + m['P'][2].bits)   # lsb first: byte 3 is the low byte


def same(a, b):
    return a is not TOP and b is not TOP and a == b


def check_bits(ctx, rid, fn, what, got, exp, site, cfg):
    """Compare two bit lists; one instance per bit."""
    bad = []
    for i, (g, e) in enumerate(zip(got, exp)):
        ok = same(g, e)
        ctx.obligations += 1
        if ok:
            ctx.discharged += 1
        else:
            bad.append((i, repr(g), repr(e)))
    r = ctx.rules.setdefault(rid, {'desc': '', 'instances': 0, 'ok': 0, 'samples': []})
    r['instances'] += len(exp)
    r['ok'] += len(exp) - len(bad)
    if len(r['samples']) < 8:
        r['samples'].append({'instance': '%s: %s' % (fn, what), 'bits': len(exp), 'mismatches': bad[:4], 'ok': not bad, 'site': site})
    if bad:
        ctx.violation(rid, fn, what.replace(' ', '-'), '%s: %d bit(s) differ from the specification, e.g. bit %d is `%s`, specified `%s`%s'
                      % (what, len(bad), bad[0][0], bad[0][1], bad[0][2], ' (not decided: value depends on untracked data)' if 'T?' in bad[0][1] else ''),
                      site=site, config=cfg, kind='rule-violated' if 'T?' not in bad[0][1] else 'undecided')
    return not bad


def header_bits(m):
    return [b for byte in m['P'] for b in byte.bits]


def expect_header(old, new_word=None, new_bytes=None):
    """Expected 96 header bits: everything as before except the given word bits / bytes."""
    m = {'P': [BV(list(b.bits)) for b in old['P']]}
    if new_word is not None:
        m['P'][3] = BV(new_word[0:8])
        m['P'][2] = BV(new_word[8:16])
    for i, bv in (new_bytes or {}).items():
        m['P'][i] = bv
    return header_bits(m)


def run(ctx):
    for cfg in ctx.configs():
        facts = ctx.facts(cfg)
        I = Interp(facts.fns)
        H = hdr()
        oldw = word(H).bits
        rid = 'C12.setters'

        def run_fn(key, args):
            f = facts.fn(key)
            if f is None:
                ctx.missing(rid, key)
                return None, None, None
            try:
                r, m = I.run(key, args, H)
                return r, m, f['at']
            except Undecided as e:
                ctx.violation(rid, key, 'undecided', 'bit-level evaluation of %s met an unsupported construct: %s' % (key, e), site=f['at'], kind='undecided', config=cfg)
            except Exception as e:  # noqa
                ctx.violation(rid, key, 'undecided', 'bit-level evaluation of %s failed: %s: %s' % (key, type(e).__name__, e), site=f['at'], kind='undecided', config=cfg)
            return None, None, None

        # ---- setters -----------------------------------------------------
        a32 = BV.sym('a', 32)
        _, m, at = run_fn(PP + 'set_flags', ['SELF', a32])
        if m:
            neww = [a32.bits[i] if i in FLAG_BITS else oldw[i] for i in range(16)]
            check_bits(ctx, rid, PP + 'set_flags', 'header after set_flags(a)', header_bits(m), expect_header(H, neww), at, cfg)
        a8 = BV.sym('a', 8)
        _, m, at = run_fn(PP + 'set_opcode', ['SELF', a8])
        if m:
            neww = list(oldw)
            for j, i in enumerate(reversed(OPCODE_BITS)):
                neww[i] = a8.bits[j]
            check_bits(ctx, rid, PP + 'set_opcode', 'header after set_opcode(a)', header_bits(m), expect_header(H, neww), at, cfg)
        _, m, at = run_fn(PP + 'set_rcode', ['SELF', a8])
        if m:
            neww = list(oldw)
            for j, i in enumerate(reversed(RCODE_BITS)):
                neww[i] = a8.bits[j]
            check_bits(ctx, rid, PP + 'set_rcode', 'header after set_rcode(a)', header_bits(m), expect_header(H, neww), at, cfg)
        qr = BF.var('qr')
        for key, args in ((PP + 'set_response', ['SELF', qr]), (DS + 'set_response', [View('P', 0), qr])):
            _, m, at = run_fn(key, args)
            if m:
                neww = list(oldw)
                neww[15] = qr
                check_bits(ctx, rid, key, 'header after set_response(b)', header_bits(m), expect_header(H, neww), at, cfg)
        a16 = BV.sym('a', 16)
        _, m, at = run_fn(PP + 'set_tid', ['SELF', a16])
        if m:
            check_bits(ctx, rid, PP + 'set_tid', 'header after set_tid(a)', header_bits(m),
                       expect_header(H, None, {0: BV(a16.bits[8:16]), 1: BV(a16.bits[0:8])}), at, cfg)
        for nm, off in (('set_qdcount', 4), ('set_ancount', 6), ('set_nscount', 8), ('set_arcount', 10)):
            _, m, at = run_fn(DS + nm, [View('P', 0), a16])
            if m:
                check_bits(ctx, rid, DS + nm, 'header after %s(a)' % nm, header_bits(m),
                           expect_header(H, None, {off: BV(a16.bits[8:16]), off + 1: BV(a16.bits[0:8])}), at, cfg)
        # ---- getters -----------------------------------------------------
        rid = 'C12.getters'
        ext = [BF.var('E') & BF.var('e%d' % i) for i in range(16)]
        specs = [
            (PP + 'tid', ['SELF'], H['P'][1].bits + H['P'][0].bits),
            (PP + 'flags', ['SELF'], [oldw[i] if i in FLAG_BITS else BF.const(0) for i in range(16)] + ext),
            (PP + 'opcode', ['SELF'], [oldw[i] for i in reversed(OPCODE_BITS)] + [BF.const(0)] * 4),
            (PP + 'rcode', ['SELF'], [oldw[i] for i in reversed(RCODE_BITS)] + [BF.const(0)] * 4),
            (PP + 'is_response', ['SELF'], [oldw[15]]),
            (DS + 'is_response', [View('P', 0)], [oldw[15]]),
            (DS + 'qdcount', [View('P', 0)], H['P'][5].bits + H['P'][4].bits),
            (DS + 'ancount', [View('P', 0)], H['P'][7].bits + H['P'][6].bits),
            (DS + 'nscount', [View('P', 0)], H['P'][9].bits + H['P'][8].bits),
            (DS + 'arcount', [View('P', 0)], H['P'][11].bits + H['P'][10].bits),
        ]
        for key, args, exp in specs:
            r, m, at = run_fn(key, args)
            if r is None:
                continue
            got = r.bits if isinstance(r, BV) else [r]
            check_bits(ctx, rid, key, 'result of %s()' % key.split('::')[-1], got, exp, at, cfg)
            if m:
                check_bits(ctx, rid, key, 'header untouched by %s()' % key.split('::')[-1], header_bits(m), header_bits(H), at, cfg)
        # ---- getter after setter, evaluated directly ------------------------------
        rid = 'C12.roundtrip'
        pairs = [(PP + 'set_opcode', a8, PP + 'opcode', a8.bits[0:4] + [BF.const(0)] * 4),
                 (PP + 'set_rcode', a8, PP + 'rcode', a8.bits[0:4] + [BF.const(0)] * 4),
                 (PP + 'set_tid', a16, PP + 'tid', a16.bits),
                 (PP + 'set_response', qr, PP + 'is_response', [qr]),
                 (PP + 'set_flags', a32, PP + 'flags', [a32.bits[i] if i in FLAG_BITS else BF.const(0) for i in range(16)] + ext)]
        for skey, arg, gkey, exp in pairs:
            if facts.fn(skey) is None or facts.fn(gkey) is None:
                continue
            try:
                _, m1 = I.run(skey, ['SELF', arg], H)
                r, _ = Interp(facts.fns).run(gkey, ['SELF'], m1)
                got = r.bits if isinstance(r, BV) else [r]
                check_bits(ctx, rid, gkey, '%s() after %s(a)' % (gkey.split('::')[-1], skey.split('::')[-1]), got, exp, facts.fn(gkey)['at'], cfg)
            except Exception as e:  # noqa
                ctx.violation(rid, gkey, 'undecided', 'cannot evaluate %s after %s: %s' % (gkey, skey, e), kind='undecided', config=cfg)
        ctx.sample({'config': cfg, 'set_flags word': repr(word(I.run(PP + 'set_flags', ['SELF', a32], H)[1])) if facts.fn(PP + 'set_flags') else None})
    ctx.trust('RFC 1035 section 4.1.1 header layout as transcribed in rules/C12.py (QR 15, opcode 14-11, AA 10, TC 9, RD 8, RA 7, Z 6, AD 5, CD 4, rcode 3-0)')
    ctx.trust('bit-level transfer functions of analysis/bits.py (and/or/xor/not, constant shifts, casts, ripple add/sub, byteorder read/write)')
