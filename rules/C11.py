"""C11 — deleting records while iterating (structural clauses).

  C11.a delete protocol  on every successful path of TypedIterable::delete: the section is computed before the splice,
                         resize_rr is called exactly once with -(offset_next - offset), then set_offset_next(offset),
                         invalidate, exactly one rrcount_dec of that same section; the section's start offset is cleared
                         exactly when the new count is <= 0, and the offset cleared is the one of that section
  C11.b restart guard    in each next*: the unwrap of the section start is dominated by the `count == 0 -> None` test on
                         the *current* header count, and rrs_left is re-initialised only under `offset.is_none()`
  C11.d tombstone        (shared with C10.c) in delete, the cursor offset is tested (`ok_or(VoidRecord)?`) before any destructive event and
                         before any unwrap/expect of it: a second deletion through the same cursor returns VoidRecord, it neither touches
                         the packet nor panics
  C11.e classification   current_section answers only sections rrcount_dec has an arm for, each non-Question verdict guarded by
                         `offset >= <start offset of that section>` (sibling agreement between classifier and count helpers)
  C11.f pointer-free     (the C09.e automaton on delete) the splice of a deletion happens only where the packet is known to hold no
                         compression pointers: otherwise pointers of the survivors into the moved bytes designate something else
  C11.g cache            (the C08.b automaton on delete) every successful deletion resets the cached question: an emptied question section
                         must read as absent through every getter, the cached ones included
  C11.c termination      = C03.a: advances and rrs_left decrements are paired on every path (rrs_left strictly decreases
                         between re-initialisations, each of which follows a count decrement)

Not decided: which records survive / are yielded for every deletion pattern (a run-time sequence property).
"""
import re

from analysis import facts as F
from analysis.cfg import PathFlow, Automaton
from analysis.pkt import PP
from rules import C03

RRI = 'rr_iterator::RRIterator'
SECTION_OFFSET = {'Question': 'offset_question', 'Answer': 'offset_answers', 'NameServers': 'offset_nameservers', 'Additional': 'offset_additional'}
COUNT_GETTERS = ('dns_sector::DNSSector::qdcount', 'dns_sector::DNSSector::ancount', 'dns_sector::DNSSector::nscount', 'dns_sector::DNSSector::arcount')


def _tp(t):
    return (F.call_trait_path(t) or '') + '|' + (F.call_path(t) or '')


def _is(t, name):
    p = F.call_path(t) or ''
    tp = F.call_trait_path(t) or ''
    return p.endswith('::' + name) or tp.endswith('::' + name)


class DeleteAu(Automaton):
    # (section computed, #resize, next set, invalidated, #dec, zero-branch, cur_section, cleared, flags)
    init = (False, 0, False, False, 0, None, None, False, frozenset())

    def __init__(self, facts, sect_disc):
        self.facts = facts
        self.defs = {}
        self.sect_disc = sect_disc

    def _defs(self, f):
        if f['key'] not in self.defs:
            self.defs[f['key']] = F.single_defs(f)
        return self.defs[f['key']]

    def on_call(self, q, f, bi, t, env, flow):
        sec, nres, nxt, inv, ndec, zero, cur, clr, fl = q
        defs = self._defs(f)
        if _is(t, 'current_section'):
            if nres:
                fl = fl | {'section-computed-after-the-splice'}
            return [((True, nres, nxt, inv, ndec, zero, cur, clr, fl), 0), (q, 1)]
        if _is(t, 'resize_rr'):
            rs = F.roots(f, defs, t['args'][1])
            calls = [r[1] for r in rs if r[0] == 'call']
            if not (any(c.endswith('::offset_next') for c in calls) and any(c.endswith('::offset') for c in calls)):
                fl = fl | {'resize-argument-not-record-length'}
            e = F.expr(f, defs, t['args'][1])
            if not (e[0] == 'unop' and e[1] == 'Neg'):
                fl = fl | {'resize-argument-not-negated'}
            if not sec:
                fl = fl | {'section-computed-after-the-splice'}
            q2 = (sec, min(nres + 1, 2), nxt, inv, ndec, zero, cur, clr, fl)
            return [(q2, 0), (q, 1)]
        if _is(t, 'set_offset_next') and nres:
            rs = F.roots(f, defs, t['args'][1])
            ok = rs and all(r[0] == 'call' and r[1].endswith('::offset') for r in rs)
            if not ok:
                fl = fl | {'set_offset_next-argument-not-offset'}
            return [((sec, nres, True, inv, ndec, zero, cur, clr, fl), None)]
        if _is(t, 'invalidate'):
            if not nres:
                fl = fl | {'invalidate-before-the-splice'}
            return [((sec, nres, nxt, True, ndec, zero, cur, clr, fl), None)]
        if _is(t, 'rrcount_dec'):
            rs = F.roots(f, defs, t['args'][1])
            if not (rs and all(r[0] == 'call' and r[1].endswith('::current_section') for r in rs)):
                fl = fl | {'count-decremented-for-a-section-not-from-current_section'}
            q2 = (sec, nres, nxt, inv, min(ndec + 1, 2), zero, cur, clr, fl)
            return [(q2, 0), (q, 1)]
        if _is(t, 'rrcount_inc'):
            return [((sec, nres, nxt, inv, ndec, zero, cur, clr, fl | {'count-incremented-in-delete'}), 0), (q, 1)]
        return None

    def on_edge(self, q, f, bi, t, value, target, env):
        sec, nres, nxt, inv, ndec, zero, cur, clr, fl = q
        defs = self._defs(f)
        e = F.expr(f, defs, t['discr'])
        if e[0] == 'binop' and e[1] in ('Le', 'Eq', 'Lt', 'Ne', 'Gt', 'Ge') and e[3][0] == 'const':
            rs = F.roots(f, defs, t['discr'])
            if any(r[0] == 'call' and r[1].endswith('::rrcount_dec') for r in rs) or (e[2][0] == 'load' and any(r[0] == 'call' and r[1].endswith('::rrcount_dec') for r in F.roots_place(f, defs, e[2][1]))):
                # the count is unsigned: `== 0`, `<= 0`, `< 1` are true, and `!= 0`, `> 0`, `>= 1` false, exactly when it reached zero
                zero_when = {('Eq', 0): True, ('Le', 0): True, ('Lt', 1): True, ('Ne', 0): False, ('Gt', 0): False, ('Ge', 1): False}.get((e[1], e[3][1]))
                truth = (value != 0) if value is not None else all(v == 0 for v, _ in t['targets'])
                if zero_when is None:
                    fl = fl | {'offset-clear-condition-is-not-count-reached-zero'}
                    return (sec, nres, nxt, inv, ndec, truth, cur, clr, fl)
                return (sec, nres, nxt, inv, ndec, truth == zero_when, cur, clr, fl)
        if e[0] == 'discr':
            rs = F.roots_place(f, defs, e[1])
            if any(r[0] == 'call' and r[1].endswith('::current_section') for r in rs) and zero is not None:
                name = [n for n, d in self.sect_disc.items() if d == value]
                return (sec, nres, nxt, inv, ndec, zero, name[0] if name else 'other', clr, fl)
        return q

    def on_stmt(self, q, f, bi, s, env):
        sec, nres, nxt, inv, ndec, zero, cur, clr, fl = q
        if s['k'] != 'assign':
            return q
        rv = s['rv']
        if rv['k'] == 'ref' and rv.get('mut'):
            lf = F.last_field(rv['place'])
            if lf and lf[0] == PP and lf[1] in SECTION_OFFSET.values() and cur is not None:
                if SECTION_OFFSET.get(cur) != lf[1]:
                    fl = fl | {'clears-%s-for-section-%s' % (lf[1], cur)}
                return (sec, nres, nxt, inv, ndec, zero, cur, clr, fl)
        defs = self._defs(f)
        is_none = rv['k'] == 'aggregate' and rv.get('adt') == 'std::option::Option' and rv.get('variant') == 'None'
        if not is_none and rv['k'] == 'use':
            e = F.expr(f, defs, rv['x'])
            is_none = e[0] == 'agg' and e[1] == 'std::option::Option' and e[2] == 'None'
        if is_none:
            pl = s['place']
            lf = F.last_field(pl)
            direct = lf and lf[0] == PP and lf[1] in SECTION_OFFSET.values()
            via_ref = pl['proj'] and pl['proj'][0]['k'] == 'deref' and f['locals'][pl['local']].get('s', '').startswith('&mut std::option::Option<usize>')
            if direct or via_ref:
                if zero is not True:
                    fl = fl | {'section-offset-cleared-although-count-not-zero'}
                if direct and cur is not None and SECTION_OFFSET.get(cur) != lf[1]:
                    fl = fl | {'clears-%s-for-section-%s' % (lf[1], cur)}
                clr = True
        return (sec, nres, nxt, inv, ndec, zero, cur, clr, fl)


RELOCATIONS = ('uncompress', 'set_offset', 'uncompress_with_previous_offset')


def resize_moves_next(facts):
    """lemma: every instance of resize_rr ends by setting offset_next to offset_next + shift (so resize_rr(-(offset_next - offset))
    leaves offset_next == offset without a further set_offset_next)"""
    keys = facts.inst_keys('rr_iterator::TypedIterable::resize_rr')
    if not keys:
        return False
    for key in keys:
        f = facts.fns[key]
        defs = F.single_defs(f)
        ok = False
        for bi, b in F.blocks(f):
            t = b['term']
            if t['k'] == 'call' and _is(t, 'set_offset_next') and len(t['args']) > 1:
                rs = F.roots(f, defs, t['args'][1])
                e = F.expr(f, defs, t['args'][1])
                has_next = any(r[0] == 'call' and r[1].endswith('::offset_next') for r in rs)
                has_shift = any(r == ('param', 2) for r in rs)
                is_sum = 'Add' in repr(e) and 'Sub' not in repr(e) and 'Mul' not in repr(e)
                if has_next and has_shift and is_sum and all(r[0] in ('call', 'param') for r in rs) and len(rs) == 2:
                    ok = True
        if not ok:
            return False
    return True


def stale_cursor_reads(f, defs):
    """cursor positions (offset() / offset_next()) that flow into the length handed to resize_rr although the cursor can still be
    relocated (decompression moves it) between the read and the splice: [(at of the read, at of the relocation)]"""
    out = []
    reloc = [bi for bi, b in F.blocks(f) if b['term']['k'] == 'call' and any(_is(b['term'], n) for n in RELOCATIONS)]
    if not reloc:
        return out
    where = {}
    for bi, b in F.blocks(f):
        if b['term']['k'] == 'call':
            where[id(b['term'])] = bi
    for bi, b in F.blocks(f):
        t = b['term']
        if t['k'] == 'call' and _is(t, 'resize_rr') and len(t['args']) > 1:
            for r in F.roots(f, defs, t['args'][1]):
                if r[0] == 'call' and (r[1].endswith('::offset') or r[1].endswith('::offset_next')):
                    src = where.get(id(r[2]))
                    if src is None:
                        continue
                    seen, todo = set(), [m for m in F.succ(f['blocks'][src]) if not f['blocks'][m]['cleanup']]
                    while todo:
                        n = todo.pop()
                        if n in seen or n == bi:
                            continue
                        seen.add(n)
                        todo += [m for m in F.succ(f['blocks'][n]) if not f['blocks'][m]['cleanup']]
                    hit = [x for x in reloc if x in seen]
                    if hit:
                        out.append((r[2].get('at'), f['blocks'][hit[0]]['term'].get('at')))
    return out


def delete_protocol_rule(ctx, facts, cfg, rid):
    sect_disc = {v['name']: int(v['discr']) for v in facts.adts.get('constants::Section', {}).get('variants', [])}
    keys = facts.inst_keys('rr_iterator::TypedIterable::delete')
    if len(keys) < 2:
        ctx.violation(rid, '<floor>', 'delete instances', 'found %d instantiations of TypedIterable::delete, expected 2' % len(keys), kind='below-floor')
    au = DeleteAu(facts, sect_disc)
    flow = PathFlow(facts, au)
    next_by_resize = resize_moves_next(facts)
    for key in keys:
        f = facts.fns[key]
        stale = stale_cursor_reads(f, F.single_defs(f))
        ctx.instance(rid, '%s: the record length handed to resize_rr is computed from cursor positions read after the last relocation of the cursor' % key, ok=not stale, site=f['at'])
        for rd, rl in stale:
            ctx.violation(rid, key, 'stale-cursor', 'delete in %s computes the length of the record from a cursor position read at %s, before the decompression at %s moves the cursor: the splice removes bytes of the neighbouring record'
                          % (key.split('@')[-1], rd, rl), site=rd or f['at'], config=cfg)
        exits = flow.summary(key, DeleteAu.init)
        problems = {}
        oks = 0
        for (q, kind) in sorted(exits, key=repr):
            if kind != 'Ok':
                continue
            oks += 1
            sec, nres, nxt, inv, ndec, zero, cur, clr, fl = q
            ps = set(fl)
            if nres != 1:
                ps.add('resize_rr-called-%s-times' % nres)
            if not nxt and not (next_by_resize and not (set(fl) & {'resize-argument-not-record-length', 'resize-argument-not-negated'})):
                # (resize_rr(-(offset_next - offset)) itself leaves offset_next at offset when it ends with offset_next += shift)
                ps.add('set_offset_next-missing')
            if not inv:
                ps.add('invalidate-missing')
            if ndec != 1:
                ps.add('rrcount_dec-called-%s-times' % ndec)
            if zero is True and not clr:
                ps.add('section-offset-not-cleared-when-count-reaches-zero')
            if zero is None:
                ps.add('no-count-reached-zero-test')
            for p in ps:
                problems.setdefault(p, (q, kind))
        ctx.instance(rid, '%s: %d successful path classes follow the delete protocol' % (key, oks), ok=not problems and oks > 0, site=f['at'])
        if oks == 0:
            ctx.violation(rid, key, 'no-ok-path', 'no successful path found through delete', site=f['at'], kind='undecided', config=cfg)
        for p, (q, kind) in sorted(problems.items()):
            w = flow.witness(key, DeleteAu.init, q, kind)
            ctx.violation(rid, key, p, 'delete protocol broken in %s: %s' % (key.split('@')[-1], p.replace('-', ' ')), site=f['at'],
                          path=flow.describe_path(key, w), config=cfg)


def classification_rule(ctx, facts, cfg, rid):
    """current_section(): (1) every Section it can return is one the count helpers handle without panicking (sibling agreement with
    rrcount_dec's match), (2) each non-Question verdict is dominated by `offset >= <that section's start offset>`."""
    sect = {int(v['discr']): v['name'] for v in facts.adts.get('constants::Section', {}).get('variants', [])}
    dec = facts.fn('parsed_packet::ParsedPacket::rrcount_dec')
    if dec is None:
        ctx.missing(rid, 'parsed_packet::ParsedPacket::rrcount_dec')
        return
    ddefs = F.single_defs(dec)
    handled = None
    for bi, b in F.blocks(dec):
        t = b['term']
        if t['k'] == 'switch':
            e = F.expr(dec, ddefs, t['discr'])
            if e[0] == 'discr' and e[1].get('local') == 2:
                hs = {sect.get(v) for v, _ in t['targets']}
                handled = hs if handled is None else handled & hs
    if not handled:
        ctx.violation(rid, 'parsed_packet::ParsedPacket::rrcount_dec', 'no-match', 'no match on the section argument found in rrcount_dec', kind='undecided', config=cfg)
        return
    keys = facts.inst_keys('rr_iterator::TypedIterable::current_section')
    if len(keys) < 2:
        ctx.violation(rid, '<floor>', 'current_section instances', 'found %d instantiations of current_section, expected 2' % len(keys), kind='below-floor')
    for key in keys:
        f = facts.fns[key]
        defs = F.single_defs(f)
        dom = F.dominators(f)
        # blocks entered on the true edge of `offset() >= pp.<field>`
        ge_true = {}
        for bi, b in F.blocks(f):
            t = b['term']
            if t['k'] != 'switch':
                continue
            e = F.expr(f, defs, t['discr'])
            if e[0] == 'call' and e[1] in ('std::cmp::PartialOrd::ge', 'std::cmp::PartialOrd::gt') and len(e[2]) == 2:
                l_, r_ = e[2]
                lr = F.roots_place(f, defs, l_[1]) if l_[0] in ('ref', 'load') else []
                fld = F.last_field(r_[1]) if r_[0] in ('ref', 'load') else None
                if lr and all(x[0] == 'call' and re.search(r'DNSIterable>?::offset$', str(x[1])) for x in lr) and fld and fld[0] == PP:
                    tb = t['otherwise'] if all(v == 0 for v, _ in t['targets']) else next((bb for v, bb in t['targets'] if v == 1), None)
                    if tb is not None:
                        ge_true[tb] = fld[1]
        verdicts = []
        for bi, b in F.blocks(f):
            for st in b['stmts']:
                if st['k'] == 'assign' and st['rv']['k'] == 'aggregate' and st['rv'].get('adt') == 'constants::Section':
                    verdicts.append((bi, st['rv'].get('variant'), st.get('at')))
        for bi, v, at in verdicts:
            ok1 = v in handled
            want = SECTION_OFFSET.get(v)
            guards = {fld for tb, fld in ge_true.items() if tb == bi or tb in dom.get(bi, ())}
            ok2 = v == 'Question' or (want is not None and want in guards)
            ctx.instance(rid, '%s: verdict Section::%s is handled by rrcount_dec and guarded by offset >= %s' % (key.split('@')[-1], v, want or '-'), ok=ok1 and ok2, site=at)
            if not ok1:
                ctx.violation(rid, key, 'unhandled-section:' + str(v), 'current_section can answer Section::%s, for which rrcount_dec (and the match in delete) has no arm but a panic: deleting such a record '
                              'removes its bytes and then panics, leaving the count untouched' % v, site=at, config=cfg)
            elif not ok2:
                ctx.violation(rid, key, 'guard:' + str(v), 'the verdict Section::%s is not dominated by `offset >= %s` (guards found: %s)' % (v, want, sorted(guards)), site=at, config=cfg)
        if len(verdicts) < 4:
            ctx.violation(rid, key, 'verdicts', 'found %d Section verdicts in current_section, expected 4' % len(verdicts), kind='below-floor', config=cfg)


def run(ctx):
    for cfg in ctx.configs():
        facts = ctx.facts(cfg)
        sect_disc = {v['name']: int(v['discr']) for v in facts.adts.get('constants::Section', {}).get('variants', [])}
        # ---------------------------- C11.a ------------------------------------
        delete_protocol_rule(ctx, facts, cfg, 'C11.a')
        classification_rule(ctx, facts, cfg, 'C11.e')
        from rules import C09
        C09.pointer_free_rule(ctx, facts, cfg, rid='C11.f', entries=facts.inst_keys('rr_iterator::TypedIterable::delete'), floor=2)
        # ---------------------------- C11.d ------------------------------------
        from rules import C10
        from analysis.pkt import PacketEvents
        C10.tombstone_rule(ctx, facts, cfg, PacketEvents(facts), 'C11.d', (('rr_iterator::TypedIterable::delete', False),), 2)
        # ---------------------------- C11.g ------------------------------------
        from rules import C08
        C08.cache_rule_for(ctx, facts, cfg, PacketEvents(facts), 'C11.g', facts.inst_keys('rr_iterator::TypedIterable::delete'),
                           'after the question has been deleted (an emptied section reads as absent) question(), question_raw() and qtype_qclass() would still answer with it', floor=2)
        # ---------------------------- C11.b ------------------------------------
        rid = 'C11.b'
        n = 0
        for key, f in sorted(facts.fns.items()):
            if not (key.endswith(' as rr_iterator::DNSIterable>::next') or key.endswith('::next_including_opt')):
                continue
            defs = F.single_defs(f)
            dom = F.dominators(f)
            inits = []
            unwraps = []
            for bi, b in F.blocks(f):
                for s in b['stmts']:
                    if s['k'] == 'assign' and C03.classify_store(f, defs, s) == 'reinit':
                        inits.append((bi, s))
                t = b['term']
                if t['k'] == 'call' and (F.call_path(t) or '') in ('std::option::Option::<T>::unwrap', 'std::option::Option::<T>::expect'):
                    rs = F.roots(f, defs, t['args'][0])
                    if any(r[0] == 'load' and F.last_field(r[1]) and F.last_field(r[1])[0] == PP and F.last_field(r[1])[1].startswith('offset_') for r in rs):
                        unwraps.append((bi, t))
            if not inits and not unwraps:
                continue
            n += 1
            # guards
            zero_safe = set()
            none_true = set()
            for gi, gb in F.blocks(f):
                t = gb['term']
                if t['k'] != 'switch':
                    continue
                e = F.expr(f, defs, t['discr'])
                if e[0] == 'binop' and e[1] == 'Eq' and e[3] == ('const', 0):
                    rs = F.roots(f, defs, t['discr'])
                    src_ok = any((r[0] == 'call' and r[1] in COUNT_GETTERS) or (r[0] == 'load' and F.last_field(r[1]) == (PP, 'edns_count')) for r in rs) or \
                        (e[2][0] == 'call' and e[2][1] in COUNT_GETTERS) or F.is_load_of(e[2], PP, 'edns_count')
                    if src_ok:
                        zero_safe |= {tb for v, tb in t['targets'] if v == 0}
                if e[0] == 'call' and e[1].endswith('Option::<T>::is_none') and e[2] and F.is_load_of(e[2][0], RRI, 'offset') or \
                        (e[0] == 'call' and e[1].endswith('Option::<T>::is_none') and e[2] and e[2][0][0] == 'ref' and F.last_field(e[2][0][1]) == (RRI, 'offset')):
                    none_true.add(t['otherwise'] if all(v == 0 for v, _ in t['targets']) else [tb for v, tb in t['targets'] if v == 1][0])
            for bi, t in unwraps:
                ok = any(z in dom.get(bi, ()) or z == bi for z in zero_safe)
                ctx.instance(rid, '%s: unwrap of the section start is dominated by the count != 0 edge' % key, ok=ok, site=t['at'])
                if not ok:
                    ctx.violation(rid, key, 'unwrap-without-count-test', 'the section start offset is unwrapped without a dominating `count == 0 -> None` test on the current header count: '
                                  'restarting a walk over an emptied section would panic', site=t['at'], config=cfg)
            for bi, s in inits:
                ok = any(z in dom.get(bi, ()) or z == bi for z in none_true)
                e = F.expr_rv(f, defs, s['rv'])
                rs = F.roots(f, defs, s['rv']['x']) if s['rv']['k'] == 'use' else []
                from_count = any((r[0] == 'call' and r[1] in COUNT_GETTERS) or (r[0] == 'load' and F.last_field(r[1]) == (PP, 'edns_count')) for r in rs)
                ctx.instance(rid, '%s: rrs_left re-initialised from the current count only when offset is None' % key, ok=ok and from_count, site=s['at'])
                if not ok:
                    ctx.violation(rid, key, 'reinit-not-under-is_none', 'rrs_left is re-initialised outside the `offset.is_none()` branch', site=s['at'], config=cfg)
                if not from_count:
                    ctx.violation(rid, key, 'reinit-not-from-count', 'rrs_left is re-initialised from something other than the current section count', site=s['at'], config=cfg)
        if n < 3:
            ctx.violation(rid, '<floor>', 'next impls with restart logic', 'found %d, expected at least 3' % n, kind='below-floor')
        # ---------------------------- C11.c ------------------------------------
        C03.pairing_rule(ctx, facts, cfg, 'C11.c')
    ctx.assume('cursor invariants of accepted packets; which records are yielded is a run-time property')
