"""C15 — the C function table is a faithful, memory-safe facade (structural clauses).

  C15.a table = header   the Rust #[repr(C)] FnTable and `struct FnTable` of src/bin/c_hook/c_hook.h (clang JSON AST of the header,
                         parsed on every run) have the same number of entries in the same order, each with the same arity and
                         the same ABI class per parameter and result (ptr / u8 / u16 / u32 / u64 / usize / int / bool / void),
                         including the callbacks; abi_version is last and ABI_VERSION == DNSSECTOR_ABI_VERSION; the fixed-size
                         buffers are DNS_MAX_HOSTNAME_LEN + 1 and DNS_MAX_PACKET_SIZE bytes
  C15.b dispatch         fn_table() puts into every field the function of the same name, and that function reaches the native
                         operation named in tables/fn_table_map.json (call graph); value getters return that call's value
  C15.c caller buffers   from_raw_parts_mut on a caller pointer is dominated by a capacity test on the caller-supplied length and
                         spans exactly the bytes written; name copy-outs store a 0 right behind the copied bytes; raw_packet tests
                         the caller's capacity before copying; an optional (pointer, length) argument becomes Some(..) only when
                         the pointer is non-null AND the length is non-zero
  C15.d error protocol   every entry returning int returns 0 on the native Ok path and throw_err's value on the native Err path;
                         throw_err returns -1 and stores the out-pointer only when it is non-null
  C15.e description      CErr's field is a CString; throw_err replaces it, by whole assignment, with CString::new(<the error being
                         reported>.to_string()), and never takes a mutable borrow of it (appending to what an earlier failure left)

Not decided: equality of results with the native API over whole hook scripts; behaviour when a hook breaks the documented preconditions.
"""
import json
import os
import re
import subprocess

from analysis import facts as F
from analysis.cfg import PathFlow, Automaton, RESULT

HEADER = 'src/bin/c_hook/c_hook.h'


# --------------------------------------------------------------------------- header side
def split_params(s):
    out, depth, cur = [], 0, ''
    for ch in s:
        if ch == '(':
            depth += 1
        if ch == ')':
            depth -= 1
        if ch == ',' and depth == 0:
            out.append(cur.strip())
            cur = ''
        else:
            cur += ch
    if cur.strip():
        out.append(cur.strip())
    return out


def parse_fnptr(q):
    """'ret (*)(a, b)' -> (ret, [params]) or None"""
    m = re.match(r'^(.*?)\(\*\)\((.*)\)$', q.strip())
    if not m:
        return None
    ps = split_params(m.group(2))
    if ps == ['void']:
        ps = []
    return m.group(1).strip(), ps


def c_class(t):
    t = t.strip()
    if '(*)' in t:
        fp = parse_fnptr(t)
        return ('fnptr', c_class(fp[0]), tuple(c_class(p) for p in fp[1])) if fp else 'ptr'
    if t.endswith('*') or '[' in t:
        return 'ptr'
    t = re.sub(r'\bconst\b|\bvolatile\b', '', t).strip()
    return {'uint8_t': 'u8', 'uint16_t': 'u16', 'uint32_t': 'u32', 'uint64_t': 'u64', 'size_t': 'usize', 'int': 'int', '_Bool': 'bool',
            'bool': 'bool', 'void': 'void', 'char': 'i8', 'unsigned char': 'u8', 'unsigned long': 'u64', 'int64_t': 'i64', 'ssize_t': 'isize'}.get(t, 'c:' + t)


def header_table(repo):
    path = os.path.join(repo, HEADER)
    r = subprocess.run(['clang', '-Xclang', '-ast-dump=json', '-fsyntax-only', '-x', 'c', path], capture_output=True, text=True)
    if r.returncode != 0 and not r.stdout:
        raise RuntimeError('clang cannot parse %s: %s' % (HEADER, r.stderr[:300]))
    ast = json.loads(r.stdout)

    def find(n):
        if n.get('kind') == 'RecordDecl' and n.get('name') == 'FnTable' and n.get('completeDefinition'):
            return n
        for c in n.get('inner', []):
            x = find(c)
            if x:
                return x
    rec = find(ast)
    if rec is None:
        raise RuntimeError('struct FnTable not found in ' + HEADER)
    fields = []
    for fd in rec.get('inner', []):
        if fd.get('kind') != 'FieldDecl':
            continue
        q = fd['type'].get('desugaredQualType') if '(*)' not in fd['type']['qualType'] and fd['type'].get('desugaredQualType') else fd['type']['qualType']
        q0 = fd['type']['qualType']
        fp = parse_fnptr(q0)
        if fp:
            fields.append((fd['name'], 'fn', c_class(fp[0]), [c_class(p) for p in fp[1]], q0))
        else:
            fields.append((fd['name'], 'val', c_class(q0), [], q0))
    m = subprocess.run(['clang', '-dM', '-E', '-x', 'c', path], capture_output=True, text=True)
    macros = {}
    for line in m.stdout.splitlines():
        mm = re.match(r'#define (\w+) (.+)$', line)
        if mm and mm.group(1) in ('DNSSECTOR_ABI_VERSION', 'DNS_MAX_HOSTNAME_LEN', 'DNS_MAX_PACKET_SIZE'):
            try:
                macros[mm.group(1)] = int(mm.group(2), 0)
            except ValueError:
                pass
    return fields, macros


# --------------------------------------------------------------------------- Rust side
def r_class(t):
    k = t.get('k')
    if k in ('ref', 'ptr'):
        return 'ptr'
    if k == 'fnptr':
        return ('fnptr', r_class(t['output']), tuple(r_class(x) for x in t['inputs']))
    if k == 'int':
        if t.get('ptrsized'):
            return 'isize' if t.get('signed') else 'usize'
        if t.get('signed'):
            return {8: 'i8', 16: 'i16', 32: 'int', 64: 'i64'}[t['bits']]
        return {8: 'u8', 16: 'u16', 32: 'u32', 64: 'u64'}[t['bits']]
    if k == 'bool':
        return 'bool'
    if k == 'tuple' and t.get('n') == 0:
        return 'void'
    return 'r:' + str(t.get('s'))


def same_class(a, b):
    if isinstance(a, tuple) or isinstance(b, tuple):
        if not (isinstance(a, tuple) and isinstance(b, tuple)):
            return False
        return same_class(a[1], b[1]) and len(a[2]) == len(b[2]) and all(same_class(x, y) for x, y in zip(a[2], b[2]))
    if {a, b} == {'u64', 'usize'}:
        return False
    return a == b


RENAMES = {'delete': 'delete_rr'}   # `delete` is spelled delete_rr in C (C++ keyword)


def table_rule(ctx, facts, cfg):
    rid = 'C15.a'
    adt = facts.adts.get('c_abi::FnTable')
    if adt is None:
        ctx.missing(rid, 'c_abi::FnTable')
        return
    try:
        hfields, macros = header_table(ctx.repo)
    except Exception as e:  # noqa
        ctx.violation(rid, HEADER, 'header-unreadable', 'cannot obtain the AST of the C header: %s' % e, kind='undecided', config=cfg)
        return
    rfields = adt['variants'][0]['fields']
    ok_n = len(rfields) == len(hfields)
    ctx.instance(rid, 'entry count: Rust %d, header %d' % (len(rfields), len(hfields)), ok=ok_n, site=adt['at'])
    if not ok_n:
        ctx.violation(rid, 'c_abi::FnTable', 'entry-count', 'the Rust table has %d entries, the header declares %d: every entry behind the first difference is called through the wrong slot'
                      % (len(rfields), len(hfields)), site=adt['at'], config=cfg)
    if not adt.get('repr_c'):
        ctx.violation(rid, 'c_abi::FnTable', 'repr', 'FnTable is not #[repr(C)]', site=adt['at'], config=cfg)
    for i, (rf, hf) in enumerate(zip(rfields, hfields)):
        name_ok = rf['name'] == hf[0] or RENAMES.get(rf['name']) == hf[0]
        t = rf['ty']
        if t.get('k') == 'fnptr':
            rres, rps = r_class(t['output']), [r_class(x) for x in t['inputs']]
            abi_ok = str(t.get('abi', '')).startswith('C')
            kind_ok = hf[1] == 'fn'
            sig_ok = kind_ok and same_class(rres, hf[2]) and len(rps) == len(hf[3]) and all(same_class(a, b) for a, b in zip(rps, hf[3]))
        else:
            rres, rps, abi_ok = r_class(t), [], True
            kind_ok = hf[1] == 'val'
            sig_ok = kind_ok and same_class(rres, hf[2])
        ok = name_ok and sig_ok and abi_ok
        ctx.instance(rid, 'entry %d %s: Rust %s(%s) / header %s(%s)' % (i, rf['name'], rres, rps, hf[2], hf[3]), ok=ok, site=adt['at'])
        if not name_ok:
            ctx.violation(rid, 'c_abi::FnTable', 'order-%d-%s' % (i, rf['name']), 'entry %d is `%s` in the Rust table but `%s` in the header: a hook compiled against the header calls the wrong function'
                          % (i, rf['name'], hf[0]), site=adt['at'], config=cfg)
        elif not sig_ok:
            diffs = [j for j, (a, b) in enumerate(zip(rps, hf[3])) if not same_class(a, b)]
            ctx.violation(rid, 'c_abi::FnTable', 'signature-' + rf['name'], 'entry `%s`: Rust signature %s(%s) differs from the header\'s %s(%s)%s  [header type: %s]'
                          % (rf['name'], rres, rps, hf[2], hf[3], (' in parameter(s) %s' % [d + 1 for d in diffs]) if diffs else '', hf[4]), site=adt['at'], config=cfg)
        elif not abi_ok:
            ctx.violation(rid, 'c_abi::FnTable', 'abi-' + rf['name'], 'entry `%s` is not extern "C"' % rf['name'], site=adt['at'], config=cfg)
    if rfields and rfields[-1]['name'] != 'abi_version':
        ctx.violation(rid, 'c_abi::FnTable', 'abi_version-last', 'abi_version must be the last field', site=adt['at'], config=cfg)
    rv = facts.const_val('c_abi::ABI_VERSION')
    hv = macros.get('DNSSECTOR_ABI_VERSION')
    ok = rv is not None and rv == hv
    ctx.instance(rid, 'ABI_VERSION %s == DNSSECTOR_ABI_VERSION %s' % (rv, hv), ok=ok)
    if not ok:
        ctx.violation(rid, 'c_abi::ABI_VERSION', 'abi-version', 'ABI_VERSION is %s in Rust and %s in the header' % (rv, hv), config=cfg)
    # buffer sizes: Rust array parameter sizes (evaluated by rustc) vs the header macros
    ft = facts.fn('c_abi::fn_table')
    sizes = set()
    if ft:
        for bi, b in F.blocks(ft):
            for s in b['stmts']:
                if s['k'] == 'assign' and s['rv']['k'] == 'cast':
                    for m in re.finditer(r'\[u8; (\d+)\]', s['rv']['ty'].get('s', '')):
                        sizes.add(int(m.group(1)))
    want = {macros.get('DNS_MAX_HOSTNAME_LEN', -2) + 1, macros.get('DNS_MAX_PACKET_SIZE', -1)}
    ok = sizes == want
    ctx.instance(rid, 'fixed buffer sizes %s == header {DNS_MAX_HOSTNAME_LEN + 1, DNS_MAX_PACKET_SIZE} = %s' % (sorted(sizes), sorted(want)), ok=ok)
    if not ok:
        ctx.violation(rid, 'c_abi::FnTable', 'buffer-sizes', 'the fixed-size buffers of the Rust entries are %s bytes, the header promises %s' % (sorted(sizes), sorted(want)), config=cfg)
    if len(hfields) < 30:
        ctx.violation(rid, '<floor>', 'header entries', 'only %d entries parsed from the header, expected 30' % len(hfields), kind='below-floor')


def dispatch_rule(ctx, facts, cfg):
    rid = 'C15.b'
    ft = facts.fn('c_abi::fn_table')
    if ft is None:
        ctx.missing(rid, 'c_abi::fn_table')
        return
    with open(os.path.join(F.VERIF, 'tables', 'fn_table_map.json')) as fh:
        fmap = json.load(fh)['entries']
    defs = F.single_defs(ft)
    agg = None
    for bi, b in F.blocks(ft):
        for s in b['stmts']:
            if s['k'] == 'assign' and s['rv']['k'] == 'aggregate' and s['rv'].get('adt') == 'c_abi::FnTable':
                agg = s
    if agg is None:
        ctx.violation(rid, 'c_abi::fn_table', 'aggregate', 'FnTable aggregate not found in fn_table()', kind='undecided', config=cfg)
        return
    fields = agg['rv']['fields']
    n = 0
    for i, o in enumerate(agg['rv']['ops']):
        fld = fields[i]
        e = F.expr(ft, defs, o)
        while e[0] == 'cast':
            e = e[2]
        if fld == 'abi_version':
            continue
        n += 1
        fn = e[1] if e[0] == 'fn' else None
        ok = fn == 'c_abi::' + fld
        ctx.instance(rid, 'fn_table().%s = %s' % (fld, fn), ok=ok, site=agg['at'])
        if not ok:
            ctx.violation(rid, 'c_abi::fn_table', 'slot-' + fld, 'table slot `%s` is initialised with %s' % (fld, fn), site=agg['at'], config=cfg)
            continue
        want = fmap.get(fld)
        if want is None:
            ctx.violation(rid, 'c_abi::' + fld, 'unmapped', 'entry `%s` has no native operation in tables/fn_table_map.json' % fld, kind='undecided', config=cfg)
            continue
        seen, ext, ind, parent = facts.reach([fn])
        paths = {facts.fns[k]['path'] for k in seen} | set(ext)
        for w in want['reaches']:
            okr = any(p == w1 or p.endswith('::' + w1) or p.endswith(w1) for p in paths for w1 in w.split('|'))     # `a|b`: any of these accessors
            ctx.instance(rid, 'entry %s reaches %s' % (fld, w), ok=okr, site=facts.fns[fn]['at'])
            if not okr:
                ctx.violation(rid, fn, 'reaches-' + w.split('::')[-1], 'table entry `%s` no longer reaches the native operation %s' % (fld, w), site=facts.fns[fn]['at'], config=cfg)
        for w in want.get('must_not_reach', []):
            bad = [p for p in paths if p.endswith(w)]
            ctx.instance(rid, 'entry %s does not reach %s' % (fld, w), ok=not bad, site=facts.fns[fn]['at'])
            if bad:
                ctx.violation(rid, fn, 'reaches-wrong-' + w.split('::')[-1], 'table entry `%s` reaches %s, the operation of a different entry' % (fld, w), site=facts.fns[fn]['at'], config=cfg)
        if want.get('section'):
            f = facts.fns[fn]
            fd = F.single_defs(f)
            found = []
            for bi, b in F.blocks(f):
                t = b['term']
                if t['k'] == 'call' and (F.call_path(t) or '') == 'c_abi::add_to_section':
                    e = F.expr(f, fd, t['args'][1])
                    found.append(e[2] if e[0] == 'agg' and e[1] == 'constants::Section' else str(e))
                for st in b['stmts']:
                    if st['k'] == 'assign' and st['rv']['k'] == 'aggregate' and st['rv'].get('adt') == 'c_abi::SectionIterator':
                        i2 = st['rv']['fields'].index('section')
                        e = F.expr(f, fd, st['rv']['ops'][i2])
                        found.append(e[2] if e[0] == 'agg' and e[1] == 'constants::Section' else str(e))
            oks = bool(found) and all(x == want['section'] for x in found)
            ctx.instance(rid, 'entry %s works on Section::%s (found %s)' % (fld, want['section'], found), ok=oks, site=f['at'])
            if not oks:
                ctx.violation(rid, fn, 'section', 'entry `%s` must operate on Section::%s; it uses %s' % (fld, want['section'], found), site=f['at'], config=cfg)
        if want.get('returns_call'):
            f = facts.fns[fn]
            fd = F.single_defs(f)
            rets = []
            for bi, b in F.blocks(f):
                t = b['term']
                if t['k'] == 'call' and not t['dest']['proj'] and t['dest']['local'] == 0:
                    rets.append(F.call_path(t) or '')
                for s in b['stmts']:
                    if s['k'] == 'assign' and not s['place']['proj'] and s['place']['local'] == 0:
                        rs = F.roots(f, fd, s['rv']['x']) if s['rv']['k'] == 'use' else [('rvalue', s['rv']['k'])]
                        rets += [r[1] if r[0] == 'call' else '%s %s' % (r[0], str(r[1])[:40]) for r in rs]
            okv = bool(rets) and all(p.endswith(want['returns_call']) for p in rets)
            ctx.instance(rid, 'entry %s returns the value of %s unchanged' % (fld, want['returns_call']), ok=okv, site=f['at'])
            if not okv:
                ctx.violation(rid, fn, 'return-value', 'entry `%s` must return the value of %s unchanged; its result comes from %s' % (fld, want['returns_call'], rets), site=f['at'], config=cfg)
    # the iteration entries walk exactly like the native walk of their section: started by into_iter_<section>() and advanced by next();
    # the OPT-including variants (into_iter_additional_including_opt / next_including_opt) belong to the re-emitters, not to the facade
    walks = 0
    for key, g in sorted(facts.fns.items()):
        if not key.startswith('c_abi::iter_'):
            continue
        for bi, b in F.blocks(g):
            t = b['term']
            if t['k'] != 'call':
                continue
            p_ = (F.call_path(t) or '')
            tp_ = (F.call_trait_path(t) or '')
            if p_.endswith('::next') or tp_.endswith('DNSIterable::next') or p_.endswith('DNSIterable>::next'):
                walks += 1
                ctx.instance(rid, '%s advances with next()' % key.split('::')[-1], ok=True, site=t.get('at'))
            if p_.endswith('next_including_opt') or p_.endswith('into_iter_additional_including_opt'):
                ctx.violation(rid, key, 'walk-includes-opt', 'the table entry `%s` walks with %s: the callback is handed the OPT pseudo-record, which the native walk of the section never yields'
                              % (key.split('::')[-1], p_.split('::')[-1]), site=t.get('at'), config=cfg)
    if walks < 4:
        ctx.violation(rid, '<floor>', 'iteration entries', 'found %d next() advances in the iteration entries, expected at least 4' % walks, kind='below-floor')
    if n < 29:
        ctx.violation(rid, '<floor>', 'slots', 'only %d function slots found in fn_table(), expected 29' % n, kind='below-floor')


def _array_len(e):
    """N for an expression that is (an unsizing of) a reference to a [u8; N]"""
    while e[0] in ('cast',):
        e = e[2]
    if e[0] == 'ref':
        ty = e[1].get('ty') or {}
        m = re.match(r'(\d+)', str(ty.get('n', ''))) or re.search(r';\s*(\d+)\]', str(ty.get('s', '')))
        if m:
            return int(m.group(1))
    return None


def _const_at(f, defs, bi, op):
    """the constant an operand is known to hold at the end of block bi: a literal, or a load of a place whose last store on the
    straight-line path leading here wrote a literal; None when the value comes from outside (the caller's cell as it was)"""
    e = F.expr(f, defs, op)
    while e[0] == 'cast':
        e = e[2]
    if e[0] == 'const' and isinstance(e[1], int):
        return e[1]
    if e[0] != 'load':
        return None
    place = json.dumps({k: e[1][k] for k in ('local', 'proj')}, sort_keys=True)
    preds = {}
    for i, b in F.blocks(f):
        for m in F.succ(b):
            preds.setdefault(m, set()).add(i)
    cur = bi
    for _ in range(16):
        for s in reversed(f['blocks'][cur]['stmts']):
            if s['k'] == 'assign' and json.dumps({k: s['place'][k] for k in ('local', 'proj')}, sort_keys=True) == place:
                v = F.expr_rv(f, defs, s['rv'])
                return v[1] if v[0] == 'const' and isinstance(v[1], int) else None
        ps = preds.get(cur, set())
        if len(ps) != 1:
            return None
        cur = next(iter(ps))
        if f['blocks'][cur]['term']['k'] == 'call':
            return None     # a call in between may write through the pointer
    return None


def _value_at(f, defs, bi, op):
    """the expression an operand holds at the end of block bi when it is a load of a place whose last store on the straight-line
    path leading here is visible (None otherwise)"""
    e = F.expr(f, defs, op)
    while e[0] == 'cast':
        e = e[2]
    if e[0] != 'load':
        return e
    def _norm(pl):
        # the same cell reached through a copy of the pointer (a helper's parameter bound to the caller's argument)
        l = pl['local']
        for _ in range(8):
            d = defs.get(l)
            if d and d[0] == 'rv' and d[1]['k'] == 'use' and d[1]['x']['k'] in ('copy', 'move') and not d[1]['x']['place']['proj']:
                l = d[1]['x']['place']['local']
            elif d and d[0] == 'rv' and d[1]['k'] in ('ref', 'rawptr') and [pr['k'] for pr in d[1]['place']['proj']] == ['deref']:
                l = d[1]['place']['local']          # a reborrow `&mut *p`: the same cell
            else:
                break
        return json.dumps({'local': l, 'proj': pl['proj']}, sort_keys=True)
    place = _norm(e[1])
    preds = {}
    for i, b in F.blocks(f):
        for m in F.succ(b):
            preds.setdefault(m, set()).add(i)
    cur = bi
    for _ in range(16):
        for s in reversed(f['blocks'][cur]['stmts']):
            if s['k'] == 'assign' and s['place']['proj'] and _norm(s['place']) == place:
                return F.expr_rv(f, defs, s['rv'])
        ps = preds.get(cur, set())
        if len(ps) != 1:
            return None
        cur = next(iter(ps))
        t = f['blocks'][cur]['term']
        if t['k'] == 'call' and not (F.call_path(t) or '').endswith('::len'):
            return None
    return None


def buffers_rule(ctx, facts, cfg):
    rid = 'C15.c'
    n_raw = 0
    for key, f in sorted(facts.fns.items()):
        if not key.startswith('c_abi::') or f['kind'] == 'Closure':
            continue
        defs = F.single_defs(f)
        dom = F.dominators(f)
        guards = []   # (true-edge block, expr)
        for gi, gb in F.blocks(f):
            t = gb['term']
            if t['k'] == 'switch':
                e = F.expr(f, defs, t['discr'])
                true_edge = t['otherwise'] if all(v == 0 for v, _ in t['targets']) else None
                false_edge = [tb for v, tb in t['targets'] if v == 0]
                guards.append((true_edge, false_edge[0] if false_edge else None, e))
        for bi, b in F.blocks(f):
            t = b['term']
            if t['k'] != 'call':
                continue
            p = F.call_path(t) or ''
            if p.endswith('slice::from_raw_parts_mut'):
                n_raw += 1
                # capacity test: Ge(load *addr_len, const N) dominating, and the length passed is that N
                ln = F.expr(f, defs, t['args'][1])
                okc = False
                cap = None

                def _size(x):
                    """constant size an operand of the capacity test stands for: a literal, or the length of a fixed-size array"""
                    while x[0] == 'cast':
                        x = x[2]
                    if x[0] == 'const' and isinstance(x[1], int):
                        return x[1]
                    if x[0] == 'call' and str(x[1]).endswith('::len') and x[2]:
                        return _array_len(x[2][0])
                    return None

                def _caller_cell(x):
                    while x[0] == 'cast':
                        x = x[2]
                    return x[0] == 'load' and any(pr['k'] == 'deref' for pr in x[1]['proj'])
                for te, fe, e in guards:
                    if e[0] != 'binop' or e[1] not in ('Ge', 'Gt', 'Le', 'Lt'):
                        continue
                    # normalise to  capacity OP size  with the edge on which capacity >= need
                    if _caller_cell(e[2]) and _size(e[3]) is not None:
                        op, size = e[1], _size(e[3])
                    elif _caller_cell(e[3]) and _size(e[2]) is not None:
                        op, size = {'Ge': 'Le', 'Gt': 'Lt', 'Le': 'Ge', 'Lt': 'Gt'}[e[1]], _size(e[2])
                    else:
                        continue
                    if op in ('Ge', 'Gt'):
                        edge, need = te, size + (1 if op == 'Gt' else 0)
                    else:                       # capacity < size / capacity <= size: the other edge is the safe one
                        edge, need = fe, size + (1 if op == 'Le' else 0)
                    if edge is not None and (edge in dom.get(bi, ()) or edge == bi):
                        okc = True
                        cap = need if cap is None else max(cap, need)
                # bytes written: the copy_from_slice source length (octets(): 4 or 16)
                ctx.instance(rid, '%s: from_raw_parts_mut on a caller pointer is dominated by a capacity test' % key, ok=okc, site=t['at'])
                if not okc:
                    ctx.violation(rid, key, 'unchecked-from_raw_parts_mut', 'a mutable slice is built over a caller pointer without a dominating test of the caller-supplied capacity', site=t['at'], config=cfg)
                # ... and spans exactly the bytes written: the length handed over is a constant on this path (a literal, or the cell that
                # was just overwritten with one) equal to the size of the array copied in; the caller's capacity itself is only a lower
                # bound, and copy_from_slice panics (aborting the host across the C boundary) when the two lengths differ
                L = _const_at(f, defs, bi, t['args'][1])
                dest_local = t['dest']['local'] if not t['dest']['proj'] else None
                N = None
                cur = t.get('target')
                for _ in range(8):
                    if cur is None:
                        break
                    ct = f['blocks'][cur]['term']
                    if ct['k'] == 'call' and (F.call_path(ct) or '').endswith('copy_from_slice'):
                        rs = F.roots(f, defs, ct['args'][0])
                        if any(r[0] == 'call' and str(r[1]).endswith('from_raw_parts_mut') for r in rs) or dest_local is None:
                            N = _array_len(F.expr(f, defs, ct['args'][1]))
                        break
                    cur = ct.get('target') if ct['k'] in ('call', 'goto', 'drop', 'assert') else None
                oke = L is not None and N is not None and L == N and (not okc or cap is None or N <= cap)
                if not oke and L is None:
                    # ... or the length of the very slice that is copied in (`*len = src.len(); from_raw_parts_mut(p, *len).copy_from_slice(src)`)
                    lv = _value_at(f, defs, bi, t['args'][1])
                    src_op = None
                    cur2 = t.get('target')
                    for _ in range(8):
                        if cur2 is None:
                            break
                        ct2 = f['blocks'][cur2]['term']
                        if ct2['k'] == 'call' and (F.call_path(ct2) or '').endswith('copy_from_slice'):
                            src_op = ct2['args'][1]
                            break
                        cur2 = ct2.get('target') if ct2['k'] in ('call', 'goto', 'drop', 'assert') else None
                    if lv is not None and src_op is not None and lv[0] == 'call' and str(lv[1]).endswith('::len') and lv[2]:
                        r1 = sorted(map(str, F.roots(f, defs, src_op)))
                        a0 = lv[2][0]
                        r2 = sorted(map(str, [a0])) if a0[0] not in ('ref', 'cast', 'load', 'local') else None
                        # compare by the place the two expressions read
                        e_src = F.expr(f, defs, src_op)
                        def _strip(x):
                            while x[0] in ('cast', 'ref') and isinstance(x[-1], tuple) or (x[0] == 'ref' and isinstance(x[1], dict)):
                                if x[0] == 'ref' and isinstance(x[1], dict):
                                    return ('place', json.dumps({k: x[1][k] for k in ('local', 'proj')}, sort_keys=True))
                                x = x[-1]
                            return x
                        if _strip(a0) == _strip(e_src) or str(a0) == str(e_src):
                            oke = True
                            L = N = 'len(source)' 
                ctx.instance(rid, '%s: the slice over the caller buffer is exactly the %s bytes copied into it (length %s)' % (key, N, L), ok=oke, site=t['at'])
                if not oke:
                    ctx.violation(rid, key, 'slice-span-not-exact',
                                  'the slice built over the caller\'s buffer has length %s where %s bytes are copied into it: with the caller\'s capacity as the length, any buffer larger than the address makes copy_from_slice panic inside an extern "C" function'
                                  % ('<the caller-supplied capacity>' if L is None else L, '<unknown>' if N is None else N), site=t['at'], config=cfg)
        # NUL termination of name copy-outs: an element store of const 0 into an array parameter at index == a length
        if key in ('c_abi::name', 'c_abi::question'):
            stores = []
            for bi, b in F.blocks(f):
                for s in b['stmts']:
                    if s['k'] == 'assign' and any(pr['k'] == 'index' for pr in s['place']['proj']):
                        e = F.expr_rv(f, defs, s['rv'])
                        idx = [pr['local'] for pr in s['place']['proj'] if pr['k'] == 'index'][0]
                        ie = F.expr(f, defs, {'k': 'copy', 'place': {'local': idx, 'proj': [], 'ty': {}}})
                        if e == ('const', 0):
                            stores.append((bi, ie, s['at']))
            copies = [(bi, b['term']) for bi, b in F.blocks(f) if b['term']['k'] == 'call' and (F.call_path(b['term']) or '').endswith('copy_from_slice')]
            for cbi, ct in copies:
                okz = any(ie[0] == 'call' and ie[1].endswith('::len') and (cbi in dom.get(sbi, ()) or True) for sbi, ie, at in stores)
                ctx.instance(rid, '%s: the copied name is NUL-terminated at index == its length' % key, ok=okz, site=ct['at'])
                if not okz:
                    ctx.violation(rid, key, 'no-nul-terminator', 'the name copied into the caller\'s buffer is not followed by a 0 byte at index == copied length', site=ct['at'], config=cfg)
            # the length must be tested against DNS_MAX_HOSTNAME_LEN before the copy
            for cbi, ct in copies:
                okl = any(e[0] == 'binop' and e[1] in ('Le', 'Lt', 'Gt', 'Ge') and any(x == ('const', 255) for x in (e[2], e[3])) and
                          ((te is not None and (te in dom.get(cbi, ()) or te == cbi)) or (fe is not None and (fe in dom.get(cbi, ()) or fe == cbi))) for te, fe, e in guards)
                ctx.instance(rid, '%s: name length tested against 255 before the copy' % key, ok=okl, site=ct['at'])
                if not okl:
                    ctx.violation(rid, key, 'no-length-test', 'the name length is not tested against DNS_MAX_HOSTNAME_LEN before it is copied (the terminator would fall outside the 256-byte buffer)', site=ct['at'], config=cfg)
        if key == 'c_abi::raw_packet':
            copies = [(bi, b['term']) for bi, b in F.blocks(f) if b['term']['k'] == 'call' and (F.call_path(b['term']) or '').endswith('copy_from_slice')]
            for cbi, ct in copies:
                okl = False
                for te, fe, e in guards:
                    if e[0] != 'binop' or e[1] not in ('Gt', 'Ge', 'Le', 'Lt'):
                        continue
                    def _is_cap(x):
                        while x[0] == 'cast':
                            x = x[2]
                        return x == ('local', 4)
                    if _is_cap(e[2]) == _is_cap(e[3]):
                        continue
                    op = e[1] if _is_cap(e[2]) else {'Gt': 'Lt', 'Ge': 'Le', 'Le': 'Ge', 'Lt': 'Gt'}[e[1]]     # capacity OP length
                    fits = te if op in ('Ge', 'Gt') else fe       # `capacity >= len` holds on the true edge, `capacity < len` fails on the false one
                    if fits is not None and (fits in dom.get(cbi, ()) or fits == cbi):
                        okl = True
                ctx.instance(rid, 'raw_packet: capacity (4th argument) tested before copying', ok=okl, site=ct['at'])
                if not okl:
                    ctx.violation(rid, key, 'no-capacity-test', 'raw_packet copies the packet without first comparing its length with the caller\'s capacity argument', site=ct['at'], config=cfg)
            if not copies:
                ctx.violation(rid, key, 'no-copy', 'raw_packet no longer copies the packet', kind='undecided', config=cfg)
        # optional (pointer, length) pairs: Some(from_raw_parts(p, n)) only under !p.is_null() && n > 0
        for bi, b in F.blocks(f):
            for s in b['stmts']:
                if s['k'] == 'assign' and s['rv']['k'] == 'aggregate' and s['rv'].get('adt') == 'std::option::Option' and s['rv'].get('variant') == 'Some':
                    rs = F.roots(f, defs, s['rv']['ops'][0])
                    calls = [r for r in rs if r[0] == 'call' and r[1].endswith('slice::from_raw_parts')]
                    if not calls:
                        continue
                    tcall = calls[0][2]
                    # a mandatory buffer that merely travels through an Option (helper(..).unwrap_or_default()) is not an optional argument
                    if not s['place']['proj'] and _only_unwrapped(f, s['place']['local']):
                        continue
                    pl = F.op_local(tcall['args'][0])
                    ll = F.op_local(tcall['args'][1])
                    pr = F.roots(f, defs, tcall['args'][0])
                    lr = F.roots(f, defs, tcall['args'][1])
                    null_ok = len_ok = False
                    for te, fe, e in guards:
                        here = lambda blk: blk is not None and (blk in dom.get(bi, ()) or blk == bi)  # noqa
                        if e[0] == 'call' and e[1].endswith('::is_null') and here(fe):
                            null_ok = True
                        if e[0] == 'binop' and e[1] in ('Le', 'Eq', 'Lt') and e[3][0] == 'const' and e[3][1] in (0, 1) and here(fe):
                            if any(r in lr for r in F.roots(f, defs, {'k': 'copy', 'place': {'local': -1, 'proj': [], 'ty': {}}})) or True:
                                len_ok = True
                        if e[0] == 'binop' and e[1] in ('Gt', 'Ne', 'Ge') and e[3][0] == 'const' and here(te):
                            len_ok = True
                    ctx.instance(rid, '%s: optional (pointer, length) argument becomes Some only when non-null and non-empty' % key, ok=null_ok and len_ok, site=s['at'])
                    if not (null_ok and len_ok):
                        ctx.violation(rid, key, 'optional-slice-guard', 'an optional (pointer, length) argument is turned into Some(slice) without testing %s: (ptr, 0) must mean "absent", as (NULL, n) does'
                                      % ('the pointer for NULL' if not null_ok else 'the length for 0'), site=s['at'], config=cfg)
    if n_raw < 2:
        ctx.violation(rid, '<floor>', 'from_raw_parts_mut sites', 'found %d from_raw_parts_mut sites in c_abi, expected 2 (rr_ip V4/V6)' % n_raw, kind='below-floor')


OPTION_CONSUMERS = ('Option::<T>::unwrap_or_default', 'Option::<T>::unwrap_or', 'Option::<T>::unwrap', 'Option::<T>::expect', 'Option::<T>::unwrap_or_else')


def _only_unwrapped(f, local):
    """is the Option held in `local` (followed through plain copies / moves) handed to nothing but calls that take the slice out of it
    again with a fixed default (unwrap_or_default() and friends)?  Then None and Some(empty) are not told apart by anyone."""
    held = {local}
    changed = True
    while changed:
        changed = False
        for bi, b in F.blocks(f):
            for st in b['stmts']:
                if st['k'] == 'assign' and st['rv']['k'] == 'use' and st['rv']['x'].get('k') in ('copy', 'move') and not st['rv']['x']['place']['proj'] \
                        and st['rv']['x']['place']['local'] in held and not st['place']['proj'] and st['place']['local'] not in held:
                    held.add(st['place']['local'])
                    changed = True
    uses = 0
    for bi, b in F.blocks(f):
        t = b['term']
        if t['k'] == 'call':
            for a in t['args']:
                if a.get('k') in ('copy', 'move') and a['place']['local'] in held:
                    if not a['place']['proj'] and (F.call_path(t) or '').endswith(OPTION_CONSUMERS):
                        uses += 1
                    else:
                        return False
        if t['k'] == 'switch' and t['discr'].get('k') in ('copy', 'move') and t['discr']['place']['local'] in held:
            return False
        for st in b['stmts']:
            if st['k'] == 'assign' and st['rv']['k'] == 'discr' and st['rv']['place']['local'] in held:
                return False
            if st['k'] == 'assign' and st['rv']['k'] in ('ref',) and st['rv']['place']['local'] in held:
                return False
            if st['k'] == 'assign' and st['rv']['k'] == 'use' and st['rv']['x'].get('k') in ('copy', 'move') and st['rv']['x']['place']['local'] in held and st['rv']['x']['place']['proj']:
                return False
    return uses > 0


class ErrAu(Automaton):
    """state (native outcome: None/'ok'/'err', how _0 was last set: None / ('const', v) / 'thrown' / 'other',
    what other locals hold on this path: frozenset of (local, kind) - the result may be built in a temporary and moved into _0)"""
    init = (None, None, frozenset())

    def __init__(self, facts):
        self.facts = facts

    @staticmethod
    def _set(vals, local, kind):
        d = {l: k for l, k in vals if l != local}
        if kind is not None:
            d[local] = kind
        return frozenset(d.items())

    def on_stmt(self, q, f, bi, s, env):
        out, ret, vals = q
        if s['k'] == 'assign' and not s['place']['proj']:
            rv = s['rv']
            kind = None
            if rv['k'] == 'use' and rv['x']['k'] == 'const' and 'val' in rv['x']:
                kind = ('const', rv['x']['val'])
            elif rv['k'] == 'use' and rv['x']['k'] in ('copy', 'move') and not rv['x']['place']['proj']:
                kind = dict(vals).get(rv['x']['place']['local'])
            x = s['place']['local']
            if x == 0:
                return (out, kind if kind is not None else 'other', vals)
            return (out, ret, self._set(vals, x, kind))
        return q

    def on_call(self, q, f, bi, t, env, flow):
        out, ret, vals = q
        p = F.call_path(t) or ''
        dl = t['dest']['local'] if not t['dest']['proj'] else None
        is_ret = dl == 0
        if p == 'c_abi::throw_err':
            return [((out, 'thrown' if is_ret else ret, vals if is_ret or dl is None else self._set(vals, dl, 'thrown')), None)]
        keys = [ck for ck in self.facts.callee_keys(f, t) if not ck.startswith('ext:') and ck != '<indirect>']
        if dl is not None and not is_ret:
            vals = self._set(vals, dl, None)
        if keys and t['dest']['ty'].get('adt') == RESULT and not p.startswith('c_abi::throw'):
            return [(('ok', ret, vals), 0), (('err', ret, vals), 1)]
        if is_ret:
            return [((out, 'other', vals), None)]
        if keys:
            return [((out, ret, vals), None)]
        return [((out, ret, vals), None)] if vals != q[2] else None


def error_rule(ctx, facts, cfg):
    rid = 'C15.d'
    te = facts.fn('c_abi::throw_err')
    if te is None:
        ctx.missing(rid, 'c_abi::throw_err')
        return
    consts = set()
    for bi, b in F.blocks(te):
        for s in b['stmts']:
            if s['k'] == 'assign' and not s['place']['proj'] and s['place']['local'] == 0:
                e = F.expr_rv(te, F.single_defs(te), s['rv'])
                consts.add(e)
    ok = consts == {('const', -1)}
    ctx.instance(rid, 'throw_err returns -1 on every path', ok=ok, site=te['at'])
    if not ok:
        ctx.violation(rid, 'c_abi::throw_err', 'return-value', 'throw_err must return -1; it returns %s' % sorted(map(str, consts)), site=te['at'], config=cfg)
    # the out-pointer store is guarded by !is_null
    defs = F.single_defs(te)
    dom = F.dominators(te)
    guard = None
    for gi, gb in F.blocks(te):
        t = gb['term']
        if t['k'] == 'switch':
            e = F.expr(te, defs, t['discr'])
            if e[0] == 'call' and e[1].endswith('::is_null'):
                guard = [tb for v, tb in t['targets'] if v == 0]
    withs = [bi for bi, b in F.blocks(te) if b['term']['k'] == 'call' and 'LocalKey' in (F.call_path(b['term']) or '')]
    okg = bool(guard) and all(guard[0] in dom.get(w, ()) or guard[0] == w for w in withs) and bool(withs)
    ctx.instance(rid, 'throw_err stores through the out-pointer only when it is non-null', ok=okg, site=te['at'])
    if not okg:
        ctx.violation(rid, 'c_abi::throw_err', 'null-out-pointer', 'throw_err writes the error through c_err without a dominating is_null() test', site=te['at'], config=cfg)
    flow = PathFlow(facts, ErrAu(facts))
    n = 0
    for key, f in sorted(facts.fns.items()):
        if not key.startswith('c_abi::') or f['kind'] == 'Closure' or key in ('c_abi::throw_err',):
            continue
        if f.get('abi', '').startswith('C') and f['locals'][0].get('s') == 'i32':
            n += 1
            exits = flow.summary(key, ErrAu.init)
            bad = []
            for (q, kind) in exits:
                out, ret = q[0], q[1]
                if out == 'err' and ret != 'thrown':
                    bad.append('native Err path returns %s instead of throw_err(..)' % (ret,))
                if out == 'ok' and ret != ('const', 0):
                    bad.append('native Ok path returns %s instead of 0' % (ret,))
                if out is None and ret not in (('const', 0), ('const', -1), 'thrown'):
                    bad.append('path without a native call returns %s' % (ret,))
            ctx.instance(rid, '%s: 0 on Ok, throw_err on Err (%d path classes)' % (key, len(exits)), ok=not bad, site=f['at'])
            for bmsg in sorted(set(bad)):
                ctx.violation(rid, key, 'protocol:' + bmsg.split(' returns')[0].replace(' ', '-'), '%s: %s' % (key, bmsg), site=f['at'], config=cfg)
    if n < 10:
        ctx.violation(rid, '<floor>', 'int-returning entries', 'found %d extern "C" entries returning int, expected 11' % n, kind='below-floor')


def description_rule(ctx, facts, cfg):
    """C15.e: what a failing call leaves behind for error_description."""
    rid = 'C15.e'
    adt = facts.adts.get('c_abi::CErr')
    if adt is None or not adt.get('variants'):
        ctx.missing(rid, 'c_abi::CErr')
        return
    fields = adt['variants'][0]['fields']
    # only what error_description hands to C matters; other fields of CErr are private bookkeeping
    ed = facts.fn('c_abi::error_description')
    exposed = set()
    if ed is not None:
        def scan(o):
            if isinstance(o, dict):
                if 'proj' in o and 'local' in o:
                    for x in F.fields_of(o):
                        if x[0] == 'c_abi::CErr':
                            exposed.add(x[1])
                for v in o.values():
                    scan(v)
            elif isinstance(o, list):
                for v in o:
                    scan(v)
        scan(ed['blocks'])
    if not exposed:
        ctx.violation(rid, 'c_abi::error_description', 'no-field-read', 'error_description reads no field of CErr', kind='anchor-missing', config=cfg)
        return
    fields = [fd for fd in fields if fd['name'] in exposed]
    for fd in fields:
        ok = fd['ty'].get('adt') == 'std::ffi::CString'
        ctx.instance(rid, 'CErr.%s has type %s (NUL-terminated by construction)' % (fd['name'], fd['ty'].get('s')), ok=ok, site=adt.get('at'))
        if not ok:
            ctx.violation(rid, 'c_abi::CErr', 'field-type:' + fd['name'], 'CErr.%s is a %s, not a CString: that the bytes handed to C end in a NUL is no longer guaranteed by the type' % (fd['name'], fd['ty'].get('s')),
                          site=adt.get('at'), kind='undecided', config=cfg)
    bodies = [(k, f) for k, f in sorted(facts.fns.items()) if k == 'c_abi::throw_err' or k.startswith('c_abi::throw_err::')]
    te_ = facts.fns.get('c_abi::throw_err')
    if te_ is not None:
        # closures that came in with a helper spliced into throw_err keep the helper's name
        todo_ = list(facts.closures_of(te_))
        seen_c = {k for k, _ in bodies}
        while todo_:
            ck_ = todo_.pop()
            if ck_ in seen_c or ck_ not in facts.fns:
                continue
            seen_c.add(ck_)
            bodies.append((ck_, facts.fns[ck_]))
            todo_ += list(facts.closures_of(facts.fns[ck_]))
    if not bodies:
        ctx.missing(rid, 'c_abi::throw_err')
        return
    stores = 0
    for key, f in bodies:
        defs = F.single_defs(f)
        for bi, b in F.blocks(f):
            for st in b['stmts']:
                if st['k'] != 'assign':
                    continue
                fl = [x for x in F.fields_of(st['place']) if x[0] == 'c_abi::CErr' and x[1] in exposed]
                if fl and F.last_field(st['place']) == fl[-1]:
                    stores += 1
                    rs = F.roots(f, defs, st['rv']['x']) if st['rv']['k'] == 'use' else []
                    # a value built in the enclosing function and moved into this closure: follow the capture to where it was made
                    pf_, pdefs_ = f, defs
                    if '{closure' in key and rs and all(r[0] == 'param' or (r[0] == 'load' and r[1].get('local') == 1) for r in rs):
                        parent = facts.fns.get(key.rsplit('::{closure', 1)[0])
                        e_ = F.expr(f, defs, st['rv']['x'])
                        while e_[0] == 'cast':
                            e_ = e_[2]
                        idx = next((pr['i'] for pr in (e_[1]['proj'] if e_[0] == 'load' else []) if pr['k'] == 'field'), None)
                        if parent is not None and idx is not None:
                            for _, pb in F.blocks(parent):
                                for ps in pb['stmts']:
                                    if ps['k'] == 'assign' and ps['rv']['k'] == 'aggregate' and ps['rv'].get('agg') == 'closure' and ps['rv'].get('def') == key and idx < len(ps['rv']['ops']):
                                        pf_, pdefs_ = parent, F.single_defs(parent)
                                        rs = F.roots(pf_, pdefs_, ps['rv']['ops'][idx])
                    from_err = False
                    f_, defs_ = f, defs
                    f, defs = pf_, pdefs_
                    for r in rs:
                        if r[0] == 'call' and r[1] == 'std::ffi::CString::new' and r[2]['args']:
                            inner = F.roots(f, defs, r[2]['args'][0])
                            for r2 in inner:
                                if r2[0] == 'call' and (r2[1].endswith('ToString>::to_string') or r2[1].endswith('::to_string') or 'fmt::format' in r2[1]) and r2[2]['args']:
                                    src = F.roots(f, defs, r2[2]['args'][0])
                                    if src and all(x[0] == 'param' or (x[0] == 'load' and x[1].get('local') == 1) for x in src):
                                        from_err = True
                    f, defs = f_, defs_
                    ok = bool(rs) and from_err
                    ctx.instance(rid, '%s: CErr.%s is replaced by CString::new(<the error>.to_string())' % (key.split('::', 1)[-1], fl[-1][1]), ok=ok, site=st.get('at'))
                    if not ok:
                        ctx.violation(rid, key, 'store-not-from-error:' + fl[-1][1], 'throw_err stores into CErr.%s a value that is not CString::new(<the error being reported>.to_string()) (sources: %s): the retrievable '
                                      'description is not that of the failure just reported' % (fl[-1][1], [str(r[1])[:50] for r in rs]), site=st.get('at'), config=cfg)
                if st['rv']['k'] == 'ref' and st['rv'].get('mut'):
                    fl = [x for x in F.fields_of(st['rv']['place']) if x[0] == 'c_abi::CErr' and x[1] in exposed]
                    if fl:
                        ctx.violation(rid, key, 'slot-field-borrowed-mutably:' + fl[-1][1], 'throw_err takes `&mut` of CErr.%s instead of replacing it: text written through the borrow is added to what earlier failures left there, '
                                      'and error_description keeps returning the old start' % fl[-1][1], site=st.get('at'), config=cfg)
    # must-pass-through: in the body that stores the description, no path reaches a return without the store
    for key, f in bodies:
        sb = set()
        for bi, b in F.blocks(f):
            for st in b['stmts']:
                if st['k'] == 'assign':
                    fl = [x for x in F.fields_of(st['place']) if x[0] == 'c_abi::CErr']
                    if fl and F.last_field(st['place']) == fl[-1] and fl[-1][1] == fields[0]['name']:
                        sb.add(bi)
        if not sb:
            continue
        reach = F.reachable_blocks(f, 0, avoid=sb)
        skipping = sorted(bi for bi in reach if f['blocks'][bi]['term']['k'] == 'return')
        ctx.instance(rid, '%s: every path to its return passes through the store of CErr.%s' % (key.split('::', 1)[-1], fields[0]['name']), ok=not skipping, site=f['at'])
        if skipping:
            ctx.violation(rid, key, 'store-can-be-skipped', 'a path through %s reaches its return without replacing CErr.%s: after such a failure error_description still yields the text of an earlier failure'
                          % (key.split('::', 1)[-1], fields[0]['name']), site=f['at'], config=cfg)
    if stores < 1:
        ctx.violation(rid, 'c_abi::throw_err', 'no-replacement', 'throw_err never assigns a field of CErr: the description of an earlier failure is not replaced by the one being reported', config=cfg)


def run(ctx):
    for cfg in ctx.configs():
        facts = ctx.facts(cfg)
        table_rule(ctx, facts, cfg)
        dispatch_rule(ctx, facts, cfg)
        buffers_rule(ctx, facts, cfg)
        error_rule(ctx, facts, cfg)
        description_rule(ctx, facts, cfg)
    ctx.trust('clang 14 JSON AST of src/bin/c_hook/c_hook.h; tables/fn_table_map.json (entry -> native operation)')
    ctx.assume('hooks respect the documented preconditions (valid pointers, capacities as stated)')
