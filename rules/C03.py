"""C03 — iterators read back every accepted packet faithfully (structural clauses).

  C03.a pairing      every path through a cursor-advancing body advances the cursor
                     (RRIterator.offset <- Some(RRIterator.offset_next)) exactly as often as it
                     decrements RRIterator.rrs_left, and each decrement is guarded by rrs_left == 0 -> None
  C03.b read-only    no accessor / next* / into_iter_* can reach a store to, or a mutable borrow of,
                     any field of ParsedPacket ("nor alters a single byte of it")
  C03.d opt-skip     ResponseIterator::next = next_including_opt followed by the OPT skip, and the skip
                     advances only on the branch where the record type read equals Type::OPT
  C03.e budget       (E4) a trusted reader that limits the pointers it follows allows at least the validator's 16
  C03.f end of walk  a step function returns None only on the true side of `<header count | edns_count | rrs_left> == 0`
  C03.g reader premise  rr_ip / rr_rd read 4 / 16 bytes unchecked: every accepting path of the validator on which the type is A / AAAA
                     passes the `rdlen == 4 / 16` test (shared with C02.a)
  C03.i reader demands  every length demand of rr_ip beyond the 10 fixed bytes sits behind the type test (A: 4, AAAA: 16) that justifies it
  C03.h trusted asserts  every assertion in RRIterator::skip_name is implied by the validator's guarantee behind a name position
                     (len - q >= 6 at a pointer, len - q >= L + 6 at a label)
  C03.c layout       (see rules/layout.py) the readers' field tuples equal the RFC table, the validator's and the builder's

Not decided here: that the walk visits exactly the records present for every accepted packet, name
decoding, and absence of panics in the trusted readers (these depend on run-time invariants of accepted packets).
"""
from analysis import facts as F
from analysis.cfg import PathFlow, Automaton
from analysis.effects import Effects
from rules import layout

RRI = 'rr_iterator::RRIterator'
PP = 'parsed_packet::ParsedPacket'

ACCESSORS_TRAIT = ['rr_iterator::TypedIterable::name', 'rr_iterator::TypedIterable::copy_raw_name', 'rr_iterator::TypedIterable::rr_type',
                   'rr_iterator::TypedIterable::rr_class', 'rr_iterator::TypedIterable::current_section',
                   'rr_iterator::RdataIterable::rr_ttl', 'rr_iterator::RdataIterable::rr_rdlen', 'rr_iterator::RdataIterable::rr_rd',
                   'rr_iterator::RdataIterable::rr_ip', 'rr_iterator::DNSIterable::is_tombstone', 'rr_iterator::DNSIterable::packet',
                   'rr_iterator::DNSIterable::name_slice', 'rr_iterator::DNSIterable::rdata_slice']
ACCESSORS_PLAIN = ['parsed_packet::ParsedPacket::into_iter_question', 'parsed_packet::ParsedPacket::into_iter_answer',
                   'parsed_packet::ParsedPacket::into_iter_nameservers', 'parsed_packet::ParsedPacket::into_iter_additional',
                   'parsed_packet::ParsedPacket::into_iter_additional_including_opt', 'parsed_packet::ParsedPacket::into_iter_edns',
                   "response_iterator::ResponseIterator::<'t>::next_including_opt"]
NEXT_SUFFIX = ' as rr_iterator::DNSIterable>::next'
RAW_SUFFIXES = (' as rr_iterator::DNSIterable>::raw', ' as rr_iterator::DNSIterable>::offset', ' as rr_iterator::DNSIterable>::offset_next',
                ' as rr_iterator::DNSIterable>::parsed_packet')


def _checked_dec(f, defs, rv):
    """is this value the payload of `rrs_left.checked_sub(1)` (reached through the `?` plumbing)?"""
    if rv['k'] != 'use':
        return False
    for r in F.roots(f, defs, rv['x']):
        if r[0] == 'call' and str(r[1]).endswith('::checked_sub') and len(r[2]['args']) == 2:
            a, b = F.expr(f, defs, r[2]['args'][0]), F.expr(f, defs, r[2]['args'][1])
            if F.is_load_of(a, RRI, 'rrs_left') and b == ('const', 1):
                return True
    return False


def classify_store(f, defs, s):
    """'advance' | 'decrement' | 'reinit' | 'invalidate' | 'set' | None for an assignment statement."""
    lf = F.last_field(s['place'])
    if lf == (RRI, 'offset'):
        e = F.expr_rv(f, defs, s['rv'])
        if e[0] == 'agg' and e[2] == 'Some':
            return 'advance' if F.is_load_of(e[3][0], RRI, 'offset_next') else 'set'
        if e[0] == 'agg' and e[2] == 'None':
            return 'invalidate'
        return 'set'
    if lf == (RRI, 'rrs_left'):
        e = F.expr_rv(f, defs, s['rv'])
        if e[0] == 'binop' and e[1] == 'Sub' and F.is_load_of(e[2], RRI, 'rrs_left') and e[3] == ('const', 1):
            return 'decrement'
        if _checked_dec(f, defs, s['rv']):
            return 'decrement'          # rrs_left = rrs_left.checked_sub(1)?  (None, i.e. the count was 0, left the function)
        return 'reinit'
    return None


class Pairing(Automaton):
    """state = (#advances - #decrements), saturated at +-3"""
    init = 0

    def __init__(self):
        self.defs = {}

    def on_stmt(self, q, f, bi, s, env):
        key = f['key']
        if key not in self.defs:
            self.defs[key] = F.single_defs(f)
        c = classify_store(f, self.defs[key], s)
        if c == 'advance':
            return min(q + 1, 3)
        if c == 'decrement':
            return max(q - 1, -3)
        return q


def guard_of_decrement(f, defs, bi):
    """Is block `bi` dominated by the non-zero edge of a `rrs_left == 0` test?"""
    dom = F.dominators(f)
    for st_ in f['blocks'][bi]['stmts']:
        if st_['k'] == 'assign' and F.last_field(st_['place']) == (RRI, 'rrs_left') and _checked_dec(f, defs, st_['rv']):
            return True         # checked_sub(1) is its own test: it yields no value to store when the count is 0
    for gi, b in F.blocks(f):
        t = b['term']
        if t['k'] != 'switch':
            continue
        e = F.expr(f, defs, t['discr'])
        if e[0] == 'binop' and e[1] in ('Eq', 'Ne') and F.is_load_of(e[2], RRI, 'rrs_left') and e[3] == ('const', 0):
            # Eq: value 0 means "not equal to zero" -> safe edge is the target for 0
            want = 0 if e[1] == 'Eq' else None
            if want is not None:
                safe = [x[1] for x in t['targets'] if x[0] == want]
            else:
                safe = [t['otherwise']]
            for sb in safe:
                if sb in dom.get(bi, ()) or sb == bi:
                    return True
        elif F.is_load_of(e, RRI, 'rrs_left') and any(v == 0 for v, _ in t['targets']):
            # `match rrs_left { 0 => .., _ => .. }`: every edge but the 0 arm is safe
            for sb in [tb for v, tb in t['targets'] if v != 0] + [t['otherwise']]:
                if sb in dom.get(bi, ()) or sb == bi:
                    return True
        elif e[0] == 'binop' and e[1] in ('Gt', 'Ge', 'Lt', 'Le') and F.is_load_of(e[2], RRI, 'rrs_left') and e[3][0] == 'const':
            # rrs_left > 0 / >= 1 (safe on true), rrs_left < 1 / <= 0 (safe on false)
            c = e[3][1]
            safe_true = (e[1] == 'Gt' and c == 0) or (e[1] == 'Ge' and c == 1)
            safe_false = (e[1] == 'Lt' and c == 1) or (e[1] == 'Le' and c == 0)
            if safe_true or safe_false:
                tru = t['otherwise'] if all(v == 0 for v, _ in t['targets']) else next((tb for v, tb in t['targets'] if v == 1), None)
                fal = next((tb for v, tb in t['targets'] if v == 0), None)
                sb = tru if safe_true else fal
                if sb is not None and (sb in dom.get(bi, ()) or sb == bi):
                    return True
    return False


def mutable_access(facts, keys, adt):
    """[(body key, site, what)] for stores to / mutable borrows of any field of `adt` in the given bodies."""
    out = []
    for k in sorted(keys):
        f = facts.fns[k]
        for i, b in F.blocks(f):
            for s in b['stmts']:
                if s['k'] != 'assign':
                    continue
                fs = F.fields_of(s['place'])
                if any(a == adt for a, n in fs):
                    out.append((k, s['at'], 'store to %s.%s' % (adt.split('::')[-1], [n for a, n in fs if a == adt][0])))
                rv = s['rv']
                if rv['k'] in ('ref', 'rawptr') and (rv.get('mut') or 'Mut' in str(rv.get('kind'))):
                    fs = F.fields_of(rv['place'])
                    hit = [n for a, n in fs if a == adt]
                    if hit:
                        out.append((k, s['at'], '&mut %s.%s' % (adt.split('::')[-1], hit[0])))
    return out


def run(ctx):
    # positive example for C03.b
    pos = ctx.positive()
    if not mutable_access(pos, ['Pkt::peek'], 'Pkt'):
        ctx.violation('C03.b', '<selftest>', 'positive-example', 'mutable-access detector no longer sees selftest/positive Pkt::peek', kind='undecided')
    for cfg in ctx.configs():
        facts = ctx.facts(cfg)
        pairing_rule(ctx, facts, cfg, 'C03.a')
        readonly_rule(ctx, facts, cfg)
        opt_skip(ctx, facts, cfg)
        layout.check_readers(ctx, facts, cfg, 'C03.c')
        pointer_budget_rule(ctx, facts, cfg)
        none_rule(ctx, facts, cfg)
        trusted_assert_rule(ctx, facts, cfg)
        from rules import C02
        C02.address_size_rule(ctx, facts, cfg, 'C03.g')
        reader_demand_rule(ctx, facts, cfg)
        name_producer_rule(ctx, facts, cfg)
    ctx.assume('cursor invariants of accepted packets (offset <= offset_next <= len) are run-time facts and are not decided here')


def _fold(e):
    """constant value of an expression of constants (with or without overflow checks), else None"""
    if e[0] == 'const' and isinstance(e[1], int):
        return e[1]
    if e[0] == 'field' and len(e) > 2 and isinstance(e[2], tuple):      # (checked add).0
        return _fold(e[2])
    if e[0] == 'binop' and e[1].startswith(('Add', 'Sub', 'Mul')):
        a, b = _fold(e[2]), _fold(e[3])
        if a is None or b is None:
            return None
        return a + b if e[1].startswith('Add') else a - b if e[1].startswith('Sub') else a * b
    if e[0] == 'cast':
        return _fold(e[2])
    return None


def reader_demand_rule(ctx, facts, cfg):
    """C03.i: the reader's side of the A / AAAA premise (C03.g is the validator's side).

    The record view (`rdata_slice`) is guaranteed to hold the 10 fixed bytes of a record; anything beyond is known only
    through the record type: 4 more bytes when the type is A, 16 when it is AAAA.  Every length demand of `rr_ip`
    (an assertion `len >= K`, a constant sub-slice `[a..K]`) with K > 10 must therefore sit behind the true edge of
    `rr_type() == Type::X` with size(X) >= K - 10; a demand made before the type is known panics on a short record of
    another type (rr_rd calls rr_ip for every record)."""
    from rules import C02
    rid = 'C03.i'
    pol = C02.policy()
    H = pol['rr_header_size']
    grant = {'A': pol['a_len'], 'AAAA': pol['aaaa_len']}
    key = 'rr_iterator::RdataIterable::rr_ip'
    f = facts.fns.get(key)
    if f is None:
        ctx.missing(rid, key)
        return
    defs = F.single_defs(f)
    dom = F.dominators(f)
    preds = {}
    for bi, b in F.blocks(f):
        for m in F.succ(b):
            preds.setdefault(m, set()).add(bi)
    # type edges: block entered only through the true edge of `rr_type() == Type::X.into()`
    edges = {}
    for bi, b in F.blocks(f):
        t = b['term']
        if t['k'] != 'switch':
            continue
        e = F.expr(f, defs, t['discr'])
        if e[0] == 'binop' and e[1] == 'Eq':
            sides = [e[2], e[3]]
            if any(x[0] == 'call' and x[1].endswith('::rr_type') for x in sides):
                for x in sides:
                    c = _enum_const(x)
                    if c and c[0] == 'constants::Type':
                        tes = [t['otherwise']] if all(v == 0 for v, _ in t['targets']) else [tb for v, tb in t['targets'] if v == 1]
                        for te in tes:
                            if preds.get(te) == {bi}:
                                edges[te] = c[1]
    def is_len(x):
        return (x[0] == 'call' and x[1].endswith('::len')) or (x[0] == 'unop' and x[1] == 'PtrMetadata')
    demands = []
    for bi, b in F.blocks(f):
        t = b['term']
        if t['k'] == 'switch':
            e = F.expr(f, defs, t['discr'])
            if e[0] == 'binop' and e[1] in ('Ge', 'Gt', 'Le', 'Lt'):
                l, r = e[2], e[3]
                if is_len(l) or is_len(r):
                    other = r if is_len(l) else l
                    K = _fold(other)
                    if e[1] in ('Gt',) and is_len(l) or e[1] == 'Lt' and is_len(r):
                        K = None if K is None else K + 1
                    demands.append((bi, K, 'length test `%s`' % e[1], t.get('at') or b.get('at')))
        elif t['k'] == 'assert' and 'BoundsCheck' in str(t.get('msg')):
            demands.append((bi, None, 'index bounds check', t.get('at')))
        elif t['k'] == 'call':
            path = t['callee'].get('resolved') or t['callee'].get('path') or ''
            if path.startswith('core::slice::index::') and path.endswith('::index') or path.endswith('::index_mut') and 'slice' in path:
                a = F.expr(f, defs, t['args'][1]) if len(t['args']) > 1 else ('unknown',)
                K = None
                if a[0] == 'agg' and a[3]:
                    ks = [_fold(x) for x in a[3]]
                    K = None if any(k is None for k in ks) else max(ks)
                demands.append((bi, K, 'sub-slice `%s`' % (a[2] if a[0] == 'agg' else '?'), t.get('at')))
    n = 0
    for bi, K, what, at in demands:
        if K is not None and K <= H:
            ctx.instance(rid, 'rr_ip %s needs %d bytes: inside the fixed part (%d) [%s]' % (what, K, H, cfg), site=at)
            continue
        n += 1
        have = [(te, v) for te, v in edges.items() if te in dom.get(bi, ()) or te == bi]
        granted = max([grant.get(v, 0) for te, v in have], default=0)
        if K is None:
            ctx.violation(rid, key, 'demand not constant: ' + what, 'a length demand of rr_ip (%s) is not a constant: cannot be matched with the validated size of an address record' % what, site=at, kind='undecided', config=cfg)
        elif K - H > granted:
            ctx.violation(rid, key, 'demand of %d bytes of record data under %s' % (K - H, '/'.join(sorted(v for _, v in have)) or 'no type test'),
                          'rr_ip demands %d bytes of record data (%s, %d in all) where the record type %s: only A (4) / AAAA (16) records are known to be that long, any other record may be shorter and the accessor panics'
                          % (K - H, what, K, ('is known to be ' + '/'.join(sorted(v for _, v in have))) if have else 'has not been tested'), site=at, config=cfg)
        else:
            ctx.instance(rid, 'rr_ip %s demands %d bytes of record data behind rr_type() == %s (validated size %d) [%s]' % (what, K - H, '/'.join(sorted(v for _, v in have)), granted, cfg), site=at)
    if n < 4:
        ctx.violation(rid, '<floor>', 'length demands', 'only %d type-dependent length demands found in rr_ip, expected 4 (two assertions, two sub-slices)' % n, kind='below-floor', config=cfg)


class _NoneAu(Automaton):
    """state (a record count was found to be zero on this path, None sites reached without that)"""
    init = (False, frozenset())
    COUNTS = ('dns_sector::DNSSector::qdcount', 'dns_sector::DNSSector::ancount', 'dns_sector::DNSSector::nscount', 'dns_sector::DNSSector::arcount')

    def __init__(self, key):
        self.key = key
        self._defs = None

    def _is_count(self, f, defs, discr, x):
        rs = F.roots(f, defs, discr)
        return any((r[0] == 'call' and r[1] in self.COUNTS) or (r[0] == 'load' and F.last_field(r[1]) in ((PP, 'edns_count'), (RRI, 'rrs_left'))) for r in rs) or \
            (x is not None and ((x[0] == 'call' and x[1] in self.COUNTS) or F.is_load_of(x, PP, 'edns_count') or F.is_load_of(x, RRI, 'rrs_left')))

    def on_edge(self, q, f, bi, t, value, target, env):
        if f['key'] != self.key:
            return q
        if self._defs is None:
            self._defs = F.single_defs(f)
        e = F.expr(f, self._defs, t['discr'])
        truth = (value != 0) if value is not None else all(v == 0 for v, _ in t['targets'])
        if e[0] == 'binop' and e[3][0] == 'const':
            zero_when = {('Eq', 0): True, ('Le', 0): True, ('Lt', 1): True, ('Ne', 0): False, ('Gt', 0): False, ('Ge', 1): False}.get((e[1], e[3][1]))
            if zero_when is not None and self._is_count(f, self._defs, t['discr'], e[2]) and truth == zero_when:
                return (True, q[1])
        elif e[0] != 'binop' and value == 0 and self._is_count(f, self._defs, t['discr'], e):
            return (True, q[1])      # `match count { 0 => .. }`
        return q

    def on_stmt(self, q, f, bi, s, env):
        if f['key'] == self.key and s['k'] == 'assign' and not s['place']['proj'] and s['place']['local'] == 0 and s['rv']['k'] == 'aggregate' and s['rv'].get('variant') == 'None' and not q[0]:
            return (q[0], q[1] | {bi})
        return q


def none_rule(ctx, facts, cfg):
    """C03.f: a walk ends (the step function yields None) only because no records are left: every block that sets the result to None
    is entered solely on the true side of a `<count> == 0` test, <count> being the section's header count, edns_count or rrs_left."""
    rid = 'C03.f'
    path_bad = {}
    COUNTS = ('dns_sector::DNSSector::qdcount', 'dns_sector::DNSSector::ancount', 'dns_sector::DNSSector::nscount', 'dns_sector::DNSSector::arcount')
    n = 0
    for key, f in sorted(facts.fns.items()):
        if not (key.endswith(' as rr_iterator::DNSIterable>::next') or key.endswith('::next_including_opt') or key.endswith('::maybe_skip_opt_section')):
            continue
        defs = F.single_defs(f)
        preds = {}
        for bi, b in F.blocks(f):
            for m in F.succ(b):
                preds.setdefault(m, []).append(bi)
        for bi, b in F.blocks(f):
            for st in b['stmts']:
                if not (st['k'] == 'assign' and not st['place']['proj'] and st['place']['local'] == 0 and st['rv']['k'] == 'aggregate' and st['rv'].get('variant') == 'None'):
                    continue
                n += 1
                why = []
                for p in preds.get(bi, []):
                    t = f['blocks'][p]['term']
                    if t['k'] != 'switch':
                        why.append('entered unconditionally from bb%d' % p)
                        continue
                    e = F.expr(f, defs, t['discr'])
                    if e[0] == 'discr' and any(v == 0 and tb == bi for v, tb in t['targets']):
                        # `match self.next_including_opt() { None => None, .. }`: the end of the walk reported by another step function is passed on
                        rs0 = F.roots_place(f, defs, e[1])
                        if rs0 and all(r[0] == 'call' and (str(r[1]).endswith('::next_including_opt') or str(r[1]).endswith('::maybe_skip_opt_section')
                                                           or str(r[1]).endswith('DNSIterable>::next') or str(r[1]).endswith('::checked_sub')) for r in rs0):
                            if all(not str(r[1]).endswith('::checked_sub') or (len(r[2]['args']) == 2 and F.expr(f, defs, r[2]['args'][1]) == ('const', 1)
                                                                               and (F.is_load_of(F.expr(f, defs, r[2]['args'][0]), RRI, 'rrs_left'))) for r in rs0):
                                continue
                    truth_here = (t['otherwise'] == bi and all(v == 0 for v, _ in t['targets'])) or any(v == 1 and tb == bi for v, tb in t['targets'])
                    zero = e[0] == 'binop' and ((e[1] == 'Eq' and e[3] == ('const', 0)) or (e[1] == 'Le' and e[3] == ('const', 0)) or (e[1] == 'Lt' and e[3] == ('const', 1)))
                    x = e[2] if zero else None
                    if not zero and e[0] != 'binop' and any(v == 0 and tb == bi for v, tb in t['targets']) and t['otherwise'] != bi:
                        # `match count { 0 => return None, .. }`: the switch is on the count itself and this is its 0 arm
                        zero, truth_here, x = True, True, e
                    if not (zero and truth_here):
                        why.append('entered on a test that is not `count == 0` (%s)' % str(e)[:60])
                        continue
                    rs = F.roots(f, defs, t['discr'])
                    src_ok = any((r[0] == 'call' and r[1] in COUNTS) or (r[0] == 'load' and F.last_field(r[1]) in ((PP, 'edns_count'), (RRI, 'rrs_left'))) for r in rs) or \
                        (x[0] == 'call' and x[1] in COUNTS) or F.is_load_of(x, PP, 'edns_count') or F.is_load_of(x, RRI, 'rrs_left')
                    if not src_ok:
                        why.append('the value compared with 0 is not a record count (%s)' % str(x)[:60])
                if why:
                    # the test may sit further back (a helper answering "no record left" with a flag that is tested here): decide on paths
                    if key not in path_bad:
                        try:
                            ex_ = PathFlow(facts, _NoneAu(key)).summary(key, _NoneAu.init)
                            path_bad[key] = set().union(*[set(q_[1]) for (q_, k_) in ex_]) if ex_ else None
                        except Exception:  # noqa
                            path_bad[key] = None
                    if path_bad[key] is not None and bi not in path_bad[key]:
                        why = []
                ctx.instance(rid, '%s: `None` at bb%d is reached only through `count == 0`' % (key.split('::')[-1] if '>' not in key else key.split(' as ')[0].split('::')[-1] + '::next', bi), ok=not why, site=st.get('at'))
                for w in why[:1]:
                    ctx.violation(rid, key, 'none@%s' % (st.get('at') or bi), 'the walk can end (return None) for a reason other than "no records left": %s; records present in the packet would not be visited' % w,
                                  site=st.get('at'), config=cfg)
    if n < 4:     # 7 on the pinned tree; `?` on an Option has no explicit None
        ctx.violation(rid, '<floor>', 'None exits', 'found %d None exits in the step functions, expected 7' % n, kind='below-floor')


def trusted_assert_rule(ctx, facts, cfg):
    """C03.h: an assertion inside the trusted name skipper (RRIterator::skip_name, used for question AND record names) must be implied by
    what the validator guarantees at any position q of an accepted name: the rest of the name from q fits and at least the 4-byte fixed
    part of a question follows it, i.e.  len - q >= 2 + 4  at a pointer and  len - q >= 1 + L + 1 + 4  at a label of length L <= 63.
    An assertion asking for more makes a walk over an accepted packet panic."""
    rid = 'C03.h'
    from analysis.lin import CSet, lin, ge, le, Con
    key = "rr_iterator::RRIterator::<'t>::skip_name"
    f = facts.fn(key)
    if f is None:
        ctx.missing(rid, key)
        return
    defs = F.single_defs(f)
    LEN, OFF, LAB = lin('LEN'), lin('OFF'), lin('L')

    def to_lin(e):
        while e[0] == 'cast':
            e = e[2]
        if e[0] == 'const' and isinstance(e[1], int):
            return lin(e[1]), False
        if e[0] == 'call' and e[1].endswith('::len'):
            return LEN, False
        if e[0] == 'unop' and e[1] == 'PtrMetadata':
            return LEN, False
        if e[0] == 'local':
            return (OFF, False) if e[1] == 2 or dict(f['debug']).get(e[1]) == 'offset' else (None, False)
        if e[0] == 'load' and any(pj.get('k') == 'index' for pj in e[1].get('proj', [])):
            return LAB, True
        if e[0] == 'binop' and e[1] in ('Add', 'Sub', 'AddWithOverflow', 'SubWithOverflow'):
            a, la = to_lin(e[2])
            b, lb = to_lin(e[3])
            if a is None or b is None:
                return None, False
            return (a + b if e[1].startswith('Add') else a - b), la or lb
        if e[0] == 'field' and len(e) > 2 and isinstance(e[2], tuple):
            return to_lin(e[2])
        return None, False
    n = 0
    for bi, b in F.blocks(f):
        t = b['term']
        if t['k'] != 'switch':
            continue
        fal = next((tb for v, tb in t['targets'] if v == 0), None)
        if fal is None:
            continue
        pt = f['blocks'][fal]['term']
        if not (pt['k'] == 'call' and (F.call_path(pt) or '').startswith('core::panicking::panic')):
            continue
        e = F.expr(f, defs, t['discr'])
        if not (e[0] == 'binop' and e[1] in ('Gt', 'Ge', 'Lt', 'Le')):
            continue
        a, la = to_lin(e[2])
        c, lc = to_lin(e[3])
        n += 1
        if a is None or c is None:
            ctx.violation(rid, key, 'assert@%d' % n, 'the assertion at %s in skip_name could not be expressed over (len, offset, label length)' % t.get('at'), kind='undecided', site=t.get('at'), config=cfg)
            continue
        want = {'Gt': ge(a - c, 1), 'Ge': ge(a - c, 0), 'Lt': ge(c - a, 1), 'Le': ge(c - a, 0)}[e[1]]
        G = CSet()
        G.add(ge(OFF, 0))
        if la or lc:
            G.add(ge(LAB, 0)); G.add(le(LAB, 63)); G.add(ge(LEN - OFF, LAB + 6))
        else:
            G.add(ge(LEN - OFF, 6))
        ok = G.entails(want)
        ctx.instance(rid, 'skip_name: assertion at %s (%s) is implied by the validator\'s guarantee (%s)' % (t.get('at'), want, 'len - q >= L + 6' if (la or lc) else 'len - q >= 6'), ok=ok, site=t.get('at'))
        if not ok:
            ctx.violation(rid, key, 'assert-too-strong@%d' % n, 'the assertion at %s in skip_name (%s) asks for more than the validator guarantees behind a name (a question name is followed by only 4 bytes): '
                          'walking an accepted packet can panic' % (t.get('at'), want), site=t.get('at'), config=cfg)
    if n < 2:
        ctx.violation(rid, '<floor>', 'assertions in skip_name', 'found %d assertions in skip_name, expected 2' % n, kind='below-floor')


def pairing_rule(ctx, facts, cfg, rid):
    if True:
        au = Pairing()
        flow = PathFlow(facts, au)
        nadv = 0
        for key, f in sorted(facts.fns.items()):
            if f['kind'] == 'Closure':
                continue
            defs = F.single_defs(f)
            sites = []
            for bi, b in F.blocks(f):
                for s in b['stmts']:
                    if s['k'] == 'assign':
                        c = classify_store(f, defs, s)
                        if c in ('advance', 'decrement'):
                            sites.append((c, bi, s['at']))
            if not sites:
                continue
            nadv += sum(1 for c, _, _ in sites if c == 'advance')
            exits = flow.summary(key, 0)
            bad = sorted((q, kind) for (q, kind) in exits if q != 0)
            ctx.instance(rid, '%s: %d advance / %d decrement site(s), exits %s' % (key, sum(1 for c in sites if c[0] == 'advance'),
                         sum(1 for c in sites if c[0] == 'decrement'), sorted(exits, key=repr)), ok=not bad, site=f['at'])
            for (q, kind) in bad:
                w = flow.witness(key, 0, q, kind)
                ctx.violation(rid, key, 'advance-minus-decrement=%+d' % q,
                              'a path through %s advances the cursor %s than it decrements rrs_left (exit %s): the walk %s'
                              % (key.split('::')[-1], 'more often' if q > 0 else 'less often', kind,
                                 'overruns the section' if q > 0 else 'stops early'),
                              site=sites[0][2], path=flow.describe_path(key, w), config=cfg)
            for c, bi, at in sites:
                if c == 'decrement':
                    g = guard_of_decrement(f, defs, bi)
                    ctx.instance(rid + '-guard', 'decrement in %s guarded by rrs_left == 0' % key, ok=g, site=at)
                    if not g:
                        ctx.violation(rid + '-guard', key, 'unguarded-decrement', 'rrs_left is decremented without a dominating `rrs_left == 0 -> None` test', site=at, config=cfg)
        ctx.rules.setdefault(rid, {'desc': '', 'instances': 0, 'ok': 0, 'samples': []})['desc'] = 'cursor advance / rrs_left decrement pairing on every path'
        if nadv < 4:
            ctx.violation(rid, '<floor>', 'advance-sites', 'only %d cursor advance site(s) found, expected at least 4 (question, edns, response, OPT skip)' % nadv, kind='below-floor')


def readonly_rule(ctx, facts, cfg):
    if True:
        entries = []
        for p in ACCESSORS_TRAIT:
            ks = facts.inst_keys(p)
            if not ks:
                ctx.missing('C03.b', p)
            entries += ks
        for p in ACCESSORS_PLAIN:
            if facts.fn(p) is None:
                ctx.missing('C03.b', p)
            else:
                entries.append(p)
        nexts = [k for k in facts.fns if k.endswith(NEXT_SUFFIX)]
        if len(nexts) < 3:
            ctx.violation('C03.b', '<floor>', 'DNSIterable::next impls', 'found %d impls of DNSIterable::next, expected 3' % len(nexts), kind='below-floor')
        entries += nexts
        entries += [k for k in facts.fns if k.endswith(RAW_SUFFIXES)]
        seen, ext, ind, parent = facts.reach(entries)
        hits = mutable_access(facts, seen, PP)
        # next*/into_iter legitimately write the *cursor* (RRIterator), never the packet object
        for e in sorted(set(entries)):
            sub, _, _, par = facts.reach([e])
            h = [x for x in hits if x[0] in sub]
            ctx.instance('C03.b', '%s (%d bodies reachable)' % (e, len(sub)), ok=not h, site=facts.fns[e]['at'])
            for (k, site, what) in h:
                ctx.violation('C03.b', e, what + '@' + k.split('::')[-1], 'read accessor %s can reach a %s (in %s): accessors must not alter the packet object'
                              % (e, what, k), site=site, path=facts.path_to(par, k), config=cfg)
        for (k, sites) in sorted((k, v) for k, v in ext.items()):
            pass
        eff = Effects(facts)
        for k in sorted(seen):
            for kind, d, site in eff.of(k):
                if kind == 'ext' and d in ('parsed_packet::ParsedPacket::packet_mut',):
                    ctx.violation('C03.b', k, 'packet_mut', 'read accessor reaches packet_mut()', site=site, config=cfg)
        ctx.sample({'rule': 'C03.b', 'entries': len(set(entries)), 'reachable': len(seen), 'mutable_accesses': len(hits)})


def _const_value(e, depth=0):
    """value of an expression made of integer constants only (`LIMIT + 1` is computed at run time in a debug build), else None"""
    if depth > 6 or not isinstance(e, tuple):
        return None
    if e[0] == 'const':
        return e[1] if isinstance(e[1], int) and not isinstance(e[1], bool) else None
    if e[0] == 'cast' and len(e) > 2:
        return _const_value(e[2], depth + 1)
    if e[0] == 'binop' and e[1].split('With')[0] in ('Add', 'Sub', 'Mul'):
        a, b = _const_value(e[2], depth + 1), _const_value(e[3], depth + 1)
        if a is None or b is None:
            return None
        return {'Add': a + b, 'Sub': a - b, 'Mul': a * b}[e[1].split('With')[0]]
    if e[0] == 'load' and isinstance(e[1], dict) and e[1].get('proj') and e[1]['proj'][-1].get('k') == 'field':
        return None
    return None


def pointer_budget_rule(ctx, facts, cfg):
    """C03.e: a trusted reader that gives up after a number of compression pointers must allow at least as many pointer
    follows as the validator admits (DNS_MAX_HOSTNAME_INDIRECTIONS): otherwise an accepted name is silently truncated."""
    from analysis.e4 import E4
    from analysis.interp import Int
    rid = 'C03.e'
    budget = facts.const_val('constants::DNS_MAX_HOSTNAME_INDIRECTIONS')
    if budget is None:
        ctx.missing(rid, 'constants::DNS_MAX_HOSTNAME_INDIRECTIONS')
        return
    n = 0
    for key, f in sorted(facts.fns.items()):
        if f['kind'] == 'Closure' or '@' in key or key.endswith('Compress::check_compressed_name') or not key.startswith('compress::'):
            continue
        defs = F.single_defs(f)
        from rules.C02 import pointer_follow_sites
        if not pointer_follow_sites(f, defs):
            continue
        # a counter that moves by one and is compared with a constant: the reader's own pointer budget, however it is spelt
        units = F.unit_counters(f)
        counters = set()
        for bi, b in F.blocks(f):
            t = b['term']
            if t['k'] == 'switch':
                e = F.expr(f, defs, t['discr'])
                if e[0] == 'binop' and e[1] in ('Gt', 'Ge', 'Lt', 'Le', 'Eq', 'Ne'):
                    for x, y in ((e[2], e[3]), (e[3], e[2])):
                        if x[0] == 'local' and x[1] in units and _const_value(y) is not None:
                            counters.add(x[1])
        if not counters:
            continue
        n += 1
        e4 = E4(facts, keep_instates=True)
        try:
            e4.summarize(key)
        except Exception as ex:  # noqa
            ctx.violation(rid, key, 'undecided', 'cannot analyse %s: %s' % (key, ex), kind='undecided', config=cfg)
            continue
        if e4.unmodelled():
            ctx.violation(rid, key, 'unmodelled', 'unmodelled construct in %s: %s' % (key, list(e4.unmodelled())[:2]), kind='undecided', config=cfg)
            continue
        fr, instate, heads, succ, ff = e4.an.last_instate[key]
        for c in sorted(counters):
            his = []
            for (bb, pk), st in instate.items():
                if bb in heads:
                    v = st.mem.get('%s._%d' % (fr, c))
                    if isinstance(v, Int):
                        lo, hi = st.C.bounds(v.e)
                        b_ = lo if units[c]['dir'] < 0 else hi
                        his.append(None if b_ is None else abs(b_ - units[c]['init']))
            if not his:
                continue
            top = None if any(h is None for h in his) else max(his)
            ok = top is None or top >= budget
            ctx.instance(rid, '%s: the pointer counter travels up to %s from its start at the loop head (validator admits %d pointers per name)' % (key.split('::')[-1], top, budget), ok=ok, site=f['at'])
            if not ok:
                ctx.violation(rid, key, 'pointer-budget', '%s stops following compression pointers after %s of them, but the validator accepts names with up to %d: such a name is returned truncated'
                              % (key.split('::')[-1], top, budget), site=f['at'], config=cfg)
    if n < 1:
        ctx.violation(rid, '<floor>', 'readers with a pointer budget', 'no trusted reader with a pointer budget found (expected raw_name_to_str)', kind='below-floor')


def name_producer_rule(ctx, facts, cfg):
    """C03.j: the two owner-name accessors hand out nothing but what the trusted name decoders produce.  copy_raw_name: the caller's
    vector reaches no callee other than Compress::copy_uncompressed_name (no verbatim append of packet bytes: a name ending in a
    compression pointer would be handed out compressed), and what it returns is 0 or that call's name_len.  name(): the vector
    returned is Vec::new() or the result of Compress::raw_name_to_str, touched afterwards only by make_ascii_lowercase."""
    rid = 'C03.j'
    n = 0
    for key in facts.inst_keys('rr_iterator::TypedIterable::copy_raw_name'):
        f = facts.fns[key]
        defs = F.single_defs(f)
        n += 1
        bad = []
        producers = 0
        for bi, b in F.blocks(f):
            t = b['term']
            if t['k'] != 'call':
                continue
            p = F.call_path(t) or ''
            takes_out = any(('param', 2) in F.roots(f, defs, a) for a in t['args'] if a.get('k') in ('copy', 'move'))
            if not takes_out:
                continue
            if p.endswith('Compress::copy_uncompressed_name'):
                producers += 1
                src = F.roots(f, defs, t['args'][1]) if len(t['args']) > 1 else []
                if not any(r[0] == 'load' and F.last_field(r[1]) and F.last_field(r[1])[1] == 'packet' for r in src) and not any(r[0] == 'call' and r[1].endswith('::raw') for r in src):
                    bad.append((t['at'], 'copy_uncompressed_name is not given the packet of the cursor'))
            else:
                bad.append((t['at'], 'the output vector is handed to %s' % p.split('::')[-1]))
        if producers < 1:
            bad.append((f['at'], 'no call of Compress::copy_uncompressed_name on the output vector'))
        ctx.instance(rid, '%s: the output vector is written by Compress::copy_uncompressed_name only' % key, ok=not bad, site=f['at'])
        for at, why in bad:
            ctx.violation(rid, key, 'raw-name-producer', 'copy_raw_name in %s: %s: the raw owner name must be the decoded (pointer-free) name, which only the trusted decoder produces'
                          % (key.split('@')[-1], why), site=at, config=cfg)
    for key in facts.inst_keys('rr_iterator::TypedIterable::name'):
        f = facts.fns[key]
        defs = F.single_defs(f)
        n += 1
        bad = []
        decoders = 0
        for bi, b in F.blocks(f):
            t = b['term']
            if t['k'] != 'call':
                continue
            p = F.call_path(t) or ''
            if p.endswith('Compress::raw_name_to_str'):
                decoders += 1
            elif 'Vec' in p and p.split('::')[-1] in ('push', 'extend_from_slice', 'extend', 'insert', 'truncate', 'pop', 'resize', 'from', 'to_vec', 'split_off', 'drain', 'remove', 'retain'):
                bad.append((t['at'], 'the name is edited with %s' % p.split('::')[-1]))
            elif p.endswith('::to_vec') or p.endswith('::to_owned'):
                bad.append((t['at'], 'bytes are copied with %s' % p.split('::')[-1]))
        if decoders < 1:
            bad.append((f['at'], 'no call of Compress::raw_name_to_str'))
        ctx.instance(rid, '%s: the text handed out is the result of Compress::raw_name_to_str' % key, ok=not bad, site=f['at'])
        for at, why in bad:
            ctx.violation(rid, key, 'name-producer', 'name() in %s: %s' % (key.split('@')[-1], why), site=at, config=cfg)
    if n < 4:
        ctx.violation(rid, '<floor>', 'owner-name accessors', 'found %d instances of copy_raw_name / name, expected at least 4' % n, kind='below-floor')


def opt_skip(ctx, facts, cfg):
    rid = 'C03.d'
    nk = [k for k in facts.fns if k.endswith(NEXT_SUFFIX) and 'ResponseIterator' in k]
    if not nk:
        ctx.missing(rid, 'ResponseIterator as DNSIterable>::next')
        return
    nf = facts.fns[nk[0]]
    seen, _, _, _ = facts.reach([nk[0]])
    inc = [k for k in seen if k.endswith('::next_including_opt')]
    ctx.instance(rid, 'ResponseIterator::next reaches next_including_opt', ok=bool(inc), site=nf['at'])
    if not inc:
        ctx.violation(rid, nk[0], 'next_including_opt', 'ResponseIterator::next no longer goes through next_including_opt', site=nf['at'], config=cfg)
    # every advance site reachable from next but not from next_including_opt must be control-dependent on rr_type == Type::OPT
    seen_inc, _, _, _ = facts.reach(inc)
    opt_val = None
    for a in facts.adts.get('constants::Type', {}).get('variants', []):
        if a['name'] == 'OPT':
            opt_val = int(a['discr'])
    n = 0
    for k in sorted(seen - seen_inc):
        f = facts.fns[k]
        defs = F.single_defs(f)
        dom = F.dominators(f)
        for bi, b in F.blocks(f):
            for s in b['stmts']:
                if s['k'] == 'assign' and classify_store(f, defs, s) == 'advance':
                    n += 1
                    ok = False
                    for gi, gb in F.blocks(f):
                        t = gb['term']
                        if t['k'] != 'switch':
                            continue
                        e = F.expr(f, defs, t['discr'])
                        if e[0] == 'binop' and e[1] in ('Eq', 'Ne'):
                            sides = [e[2], e[3]]
                            is_type = any(x[0] == 'call' and x[1].endswith('::rr_type') for x in sides) or any(r[0] == 'call' and str(r[1]).endswith('::rr_type') for r in F.roots(f, defs, t['discr']))
                            is_opt = any(_enum_const(x) == ('constants::Type', 'OPT') for x in sides)
                            if is_type and is_opt:
                                # the edge on which the type IS OPT: the true edge of `==`, the false edge of `!=` (early return for the rest)
                                true_edges = [t['otherwise']] if all(v == 0 for v, _ in t['targets']) else [tb for v, tb in t['targets'] if v == 1]
                                false_edges = [tb for v, tb in t['targets'] if v == 0]
                                eq_edges = true_edges if e[1] == 'Eq' else false_edges
                                if any(te in dom.get(bi, ()) or te == bi for te in eq_edges):
                                    ok = True
                    ctx.instance(rid, 'OPT-skip advance in %s only when rr_type() == Type::OPT (=%s)' % (k, opt_val), ok=ok, site=s['at'])
                    if not ok:
                        ctx.violation(rid, k, 'skip-guard', 'the extra cursor advance of ResponseIterator::next is not guarded by `rr_type() == Type::OPT`', site=s['at'], config=cfg)
    if n < 1:
        ctx.violation(rid, '<floor>', 'opt-skip-advance', 'no OPT-skipping advance found below ResponseIterator::next', kind='below-floor')


def _enum_const(e):
    """('adt', 'Variant') when e is `Variant.into()` / a cast / the aggregate itself of a field-less enum constant."""
    while e[0] in ('call', 'cast'):
        if e[0] == 'call':
            if not e[2]:
                return None
            e = e[2][0]
        else:
            e = e[2]
    if e[0] == 'agg' and e[2] is not None and not e[3]:
        return (e[1], e[2])
    return None
