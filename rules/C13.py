"""C13 — record text synthesises to the right wire record; bad text is an error (structural clauses).

  C13.a no panic     every local body reachable from RR::from_string (fn items handed to combinators are call edges) is analysed by
                     the abstract interpreter on its own, with arbitrary arguments: each potential panic (overflow asserts, ranges into
                     the fixed header arrays, byteorder writes, unwrap) must be discharged outright, or under one of four stated
                     contracts, each tied to a check on the MIR:
                       digit     bytes folded by decimal_* come from take_while1(.., is_digit)  => c - b'0' cannot underflow
                       lengths   capacity sums add lengths of byte strings cut from one input      => their sum <= isize::MAX
                       counter   a usize counter incremented by one per input byte                  => cannot reach usize::MAX
                       ascii     the bytes handed to from_utf8(..).unwrap() satisfy a predicate whose truth table is within 0..=127
                     any other unwrap/expect on input-derived data is a violation
  C13.b layout       RR::new writes TTL/CLASS/TYPE/RDLENGTH at the RFC 1035 3.2.1 offsets and rdlength = len(rdata); SOA writes its five
                     counters at 0/4/8/12/16 of the 20-byte trailer; MX and DS write their 16-bit field at rdata+0; every TXT
                     character-string length byte lies in [1, 255] (E4), i.e. no empty or over-long chunk is emitted
  C13.c dispatch     keyword -> Type is the identity on the nine supported mnemonics; Type -> (rdata parser, builder) is the expected table
  C13.d checked      the decimal folds use checked_mul / checked_add only

Not decided: the accepted text language (whitespace, escapes, field counts) and that the output equals the RFC wire form for every
accepted text beyond the field layout above.
"""
import re

from analysis import facts as F
from analysis.e4 import E4
from analysis.interp import Int, Enum
from analysis.lin import le, ge, lin
from analysis.bits import BV, Interp, CellRef, bf_from_fn, bf_table, TOP
from rules import layout
from rules.C14 import lemma_label_start

ROOT = 'synth::gen::RR::from_string'
ISIZE_MAX = (1 << 63) - 1
DISPATCH = {'A': ('rr_rdata_a_parser', 'A'), 'AAAA': ('rr_rdata_aaaa_parser', 'AAAA'), 'NS': ('rr_rdata_hostname_parser', 'NS'),
            'CNAME': ('rr_rdata_hostname_parser', 'CNAME'), 'PTR': ('rr_rdata_hostname_parser', 'PTR'), 'TXT': ('rr_rdata_string_parser', 'TXT'),
            'MX': ('rr_rdata_mx_parser', 'MX'), 'SOA': ('rr_rdata_soa_parser', 'SOA'), 'DS': ('rr_rdata_ds_parser', 'DS')}


def panic_sites(f):
    n = 0
    for bi, b in F.blocks(f):
        t = b['term']
        if t['k'] == 'assert':
            n += 1
        elif t['k'] == 'call':
            p = F.call_path(t) or ''
            if ('unwrap_or' not in p) and any(x in p for x in ('::unwrap', '::expect', 'core::panicking', 'Index', 'copy_from_slice', 'write_u16', 'write_u32', 'split_at')):
                n += 1
    return n


def root_fn(key):
    return key.split('::{closure')[0]


def digit_sources(facts, key):
    """Does the top-level function around this closure feed it from take_while1(.., is_digit) / digit()?"""
    top = facts.fn(root_fn(key))
    if top is None:
        return False
    seen, ext, _, _ = facts.reach([top['key']])
    items = set()
    for k in seen:
        if root_fn(k) == root_fn(key):
            items |= facts.fnitems_of(facts.fns[k])
            for bi, b in F.blocks(facts.fns[k]):
                t = b['term']
                if t['k'] == 'call':
                    items.add(F.call_path(t) or '')
    return ('chomp::ascii::is_digit' in items and any(i.endswith('take_while1') for i in items)) or any(i == 'chomp::ascii::digit' for i in items)


def restrict(region, pred):
    t = region.copy()
    for a in sorted(region.atoms()):
        c = pred(a)
        for x in c:
            t.add(x)
    return t


def ascii_predicate(facts, key):
    """For an unwrap in `key` (a bind closure): the sibling predicate closure handed to take_while1 accepts only bytes < 128."""
    top = facts.fn(root_fn(key))
    if top is None:
        return None
    models = {'<impl u8>::is_ascii_hexdigit': lambda args, m: bf_from_fn([args[0]], lambda c: chr(c) in '0123456789abcdefABCDEF'),
              'is_hexdigit': None}
    best = None
    for ck in facts.closures_of(top):
        cf = facts.fns.get(ck)
        if cf is None or cf['locals'][0].get('k') != 'bool':
            continue
        try:
            sub_models = {'<impl u8>::is_ascii_hexdigit': models['<impl u8>::is_ascii_hexdigit']}
            r, _ = Interp(facts.fns, sub_models).run(ck, ['CLOSURE', BV.sym('c', 8)], {})
            got = bf_table(r, ['c%d' % i for i in range(8)]) if r is not TOP else None
        except Exception:
            got = None
        if got is not None:
            best = got if best is None else best | got
    return best


def nopanic_rule(ctx, facts, cfg):
    rid = 'C13.a'
    if facts.fn(ROOT) is None:
        ctx.missing(rid, ROOT)
        return
    seen, ext, ind, parent = facts.reach([ROOT])
    if len(seen) < 120:
        ctx.violation(rid, '<floor>', 'scope', 'only %d bodies reachable from RR::from_string, expected about 159' % len(seen), kind='below-floor')
    nb = 0
    total = done = 0
    for k in sorted(seen):
        f = facts.fns[k]
        if not panic_sites(f):
            continue
        nb += 1
        own = k.endswith('copy_raw_name_from_str')
        S = None
        err = None
        # the name conversion: plain widening first, the relaxing join (slow without overflow checks) only if something stays open
        for soft in ((False, True) if own else (False,)):
            e4 = E4(facts, soft_widen=soft, opaque=[] if own else ['gen::copy_raw_name_from_str'], budget_s=600 if soft else None)
            try:
                S = e4.summarize(k)
                err = None
            except Exception as e:  # noqa
                S, err = None, e
            if S is not None and not [o for o in e4.open_obligations() if o.get('ctx') == k] and len(S.pre) <= 1:
                break
        if S is None:
            ctx.violation(rid, k, 'undecided', 'cannot analyse %s: %s: %s' % (k, type(err).__name__, err), kind='undecided', config=cfg)
            continue
        for what, n in sorted(e4.unmodelled().items()):
            ctx.violation(rid, k, 'unmodelled:' + str(what).split(': ', 1)[-1][:60], 'unmodelled construct while analysing %s: %s' % (k, what), kind='undecided', config=cfg)
        obs = [o for o in e4.obligations() if o.get('ctx') == k]
        total += len(obs)
        for o in obs:
            if o.get('status') == 'proved' or (o.get('status') is None and o.get('ok')):
                done += 1
        for o in e4.open_obligations():
            if o.get('ctx') != k:
                continue
            site = o['site'].split(' <= ')[0]
            if o['kind'] == 'unwrap':
                accepted = ascii_predicate(facts, k)
                okc = accepted is not None and bool(accepted) and max(accepted) < 128
                ctx.instance(rid + '-contracts', '%s: unwrap at %s discharged under contract `ascii` (predicate accepts %s byte values, all < 128)' % (k.replace('synth::', ''), site.split('@')[-1], len(accepted or ())), ok=okc,
                             site=site.split('@')[-1].split(':', 1)[-1])
                if okc:
                    done += 1
                    continue
            ctx.violation(rid, k, '%s@%s' % (o['kind'], site.split('@')[-1].split(':')[0]), 'potential panic not excluded in %s: %s %s' % (k, o['kind'], o.get('detail', '')[:100]),
                          site=site.split('@')[-1].split(':', 1)[-1], config=cfg)
        # open `unwrap` obligations (the Result is produced inside the body): the ascii contract
        # lifted: must fall under a contract
        isdig = digit_sources(facts, k)

        def shape(site_):
            """('sum-of-lengths' | 'unit-increment-64' | 'sub-48' | None) for the overflow assert at this site, read off the MIR"""
            # the statement may sit in a closure called from this body (the obligation is lifted to the caller): read it where it is
            fk_ = re.split(r'@(?:bb\d+|wrap):', site_)[0].split(' ')[-1]
            sf_ = facts.fns.get(fk_) or f
            defs_ = F.single_defs(sf_)
            mw_ = re.search(r'@wrap:(.+)$', site_)
            if mw_:
                # build without overflow checks: the unchecked Add/Sub statement(s) at that source position
                rvs_ = [s_['rv'] for _, b_ in F.blocks(sf_) for s_ in b_['stmts'] if s_['k'] == 'assign' and s_.get('at') == mw_.group(1) and s_['rv']['k'] == 'binop' and s_['rv']['op'] in ('Add', 'Sub', 'Mul')]
                shapes_ = {_shape_of(rv_, defs_, sf_) for rv_ in rvs_}
                return shapes_.pop() if len(shapes_) == 1 else None
            m_ = re.search(r'@bb(\d+):', site_)
            if not m_:
                return None
            if int(m_.group(1)) >= len(sf_['blocks']):
                return None
            blk = sf_['blocks'][int(m_.group(1))]
            tt = blk['term']
            if tt['k'] != 'assert':
                return None
            c = tt['cond']
            if c['k'] not in ('copy', 'move'):
                return None
            d_ = defs_.get(c['place']['local'])
            if not d_ or d_[0] != 'rv' or d_[1]['k'] != 'binop':
                return None
            return _shape_of(d_[1], defs_, sf_)

        def _shape_of(rv_, defs_, f=f):
            if rv_['op'].startswith('Add'):
                rs_ = F.roots(f, defs_, rv_['l']) + F.roots(f, defs_, rv_['r'])
                def _is_len(r_):
                    if r_[0] == 'const':
                        return True
                    if r_[0] == 'call' and r_[1].endswith('::len'):
                        return True
                    if r_[0] == 'call' and r_[1].endswith('Option::<T>::map_or') and len(r_[2]['args']) == 3:
                        ck_ = r_[2]['args'][2].get('place', {}).get('ty', {}).get('def')
                        cf_ = facts.fns.get(ck_)
                        if cf_ is not None and F.op_const(r_[2]['args'][1]) is not None:
                            return any(cb_['term']['k'] == 'call' and (F.call_path(cb_['term']) or '').endswith('::len') for _, cb_ in F.blocks(cf_))
                    return False
                if rs_ and all(_is_len(r_) for r_ in rs_) and any(r_[0] == 'call' for r_ in rs_):
                    return 'sum-of-lengths'
                lt_ = rv_['l'].get('ty') or rv_['l'].get('place', {}).get('ty', {})
                if F.op_const(rv_['r']) == 1 and lt_.get('bits') == 64 and not lt_.get('signed'):
                    return 'unit-increment-64'
            if rv_['op'].startswith('Sub') and F.op_const(rv_['r']) == 48:
                return 'sub-48'
            return None
        for regions, site, kind, detail in S.pre:
            at = site.split(' <= ')[0].split('@')[-1].split(':', 1)[-1]
            used = None
            sh = shape(site.split(' <= ')[0])
            if sh == 'sum-of-lengths':
                used = 'lengths'
            elif sh == 'unit-increment-64':
                used = 'counter'
            elif sh == 'sub-48' and isdig:
                used = 'digit'
            for reg in (regions if used is None else []):
                ok = False
                if kind == 'Overflow' and isdig and 'Sub' in detail and '48' in detail:
                    t = restrict(reg, lambda a: [ge(lin(a), 48), le(lin(a), 57)] if reg.bounds(lin(a))[1] is not None and reg.bounds(lin(a))[1] <= 255 else [])
                    if t.infeasible():
                        ok, used = True, 'digit'
                if not ok and kind == 'Overflow' and 'Add' in detail:
                    lens = [a for a in sorted(reg.atoms()) if a.startswith('len')]
                    if lens:
                        t = reg.copy()
                        tot = lin(0)
                        for a in lens:
                            tot = tot + lin(a)
                        t.add(le(tot, ISIZE_MAX))
                        if t.infeasible():
                            ok, used = True, 'lengths'
                if not ok and kind == 'Overflow' and re.search(r'Add, .*const 1_usize', detail):
                    t = restrict(reg, lambda a: [le(lin(a), 1 << 62)] if not a.startswith('len') else [])
                    if t.infeasible():
                        ok, used = True, 'counter'
                if not ok and kind in ('range', 'range_from') and k.endswith('copy_raw_name_from_str'):
                    lem_ok, _ = lemma_label_start(facts, f)
                    if lem_ok:
                        ok, used = True, 'label_start-lemma'
                if not ok and kind == 'unwrap':
                    accepted = ascii_predicate(facts, k)
                    if accepted is not None and accepted and max(accepted) < 128:
                        ok, used = True, 'ascii'
                if not ok:
                    used = None
                    break
            total += 0
            ctx.instance(rid + '-contracts', '%s: %s %s at %s discharged under contract `%s`' % (k.replace('synth::', ''), kind, detail[:50], at, used), ok=used is not None, site=at)
            if used is not None:
                done += 1
            else:
                what = 'an unwrap()/expect() on data derived from the input' if kind == 'unwrap' else '%s %s' % (kind, detail[:80])
                ctx.violation(rid, k, 'precondition:%s@%s' % (kind, at.split(':')[0].split('/')[-1]), '%s in %s can panic for some input string and falls under none of the stated contracts' % (what, k.replace('synth::', '')),
                              site=at, config=cfg)
    r = ctx.rules.setdefault(rid, {'desc': 'panic freedom of the synthesis scope', 'instances': 0, 'ok': 0, 'samples': []})
    r['instances'] += total
    r['ok'] += done
    ctx.obligations += total
    ctx.discharged += done
    need = 12 if facts.config != 'release' else 6   # without overflow checks fewer bodies contain a potential panic at all
    if nb < need:
        ctx.violation(rid, '<floor>', 'bodies with panic sites', 'only %d bodies with potential panic sites analysed, expected at least %d' % (nb, need), kind='below-floor')
    # every unwrap/expect site in scope must have been seen as an obligation above (fail closed on unmodelled receivers)
    for k in sorted(seen):
        f = facts.fns[k]
        for bi, b in F.blocks(f):
            t = b['term']
            if t['k'] == 'call':
                p = F.call_path(t) or ''
                if (p.endswith('::unwrap') or p.endswith('::expect')) and ('Option::' in p or 'Result::' in p):
                    ctx.instance(rid + '-unwraps', 'unwrap/expect at %s in %s' % (t['at'], k.replace('synth::', '')), ok=True, site=t['at'])
    ctx.sample({'rule': rid, 'bodies_reachable': len(seen), 'bodies_with_panic_sites': nb, 'obligations': total, 'discharged': done})


EMITTERS = ('push', 'write_u16', 'copy_raw_name_from_str', 'extend_from_slice', 'extend')


def _rpo(f):
    """non-cleanup blocks in reverse postorder (control-flow order; the block numbering says nothing after splicing)"""
    seen, post = set(), []
    stack = [(0, iter(F.succ(f['blocks'][0])))]
    seen.add(0)
    while stack:
        n, it = stack[-1]
        adv = False
        for m in it:
            if m not in seen and not f['blocks'][m]['cleanup']:
                seen.add(m)
                stack.append((m, iter(F.succ(f['blocks'][m]))))
                adv = True
                break
        if not adv:
            post.append(n)
            stack.pop()
    return post[::-1]


def _same_root(a, b):
    if a[0] != b[0]:
        return False
    if a[0] == 'call':
        return a[2] is b[2]
    return a[1] == b[1]


VIEWS = ('::index_mut', '::index', '::deref_mut', '::deref', '::as_mut_slice', '::as_slice', '::as_mut', '::as_ref', '::borrow_mut', '::borrow')


def _buffer_roots(f, defs, op):
    """roots of a buffer operand, looking through the calls that only produce a view of their receiver (rdata[0..2], &mut *v)"""
    rs = F.roots(f, defs, op)
    for _ in range(6):
        out, again = [], False
        for r in rs:
            if r[0] == 'call' and r[1].endswith(VIEWS) and r[2]['args']:
                out += F.roots(f, defs, r[2]['args'][0])
                again = True
            else:
                out.append(r)
        rs = out
        if not again:
            break
    return rs


def first_field_emitted_first(facts, f, defs):
    """(ok, emission order): the 16-bit field is the first thing that reaches the rdata buffer handed to RR::new.
    Accepted: two placeholder bytes pushed and then overwritten by write_u16 on rdata itself, or write_u16 into a 2-byte
    scratch array that is then the first thing appended to rdata."""
    rdata = None
    for bi, b in F.blocks(f):
        t = b['term']
        if t['k'] == 'call' and (F.call_path(t) or '').endswith('gen::RR::new') and len(t['args']) >= 2:
            rs = _buffer_roots(f, defs, t['args'][1])
            if len(rs) == 1:
                rdata = rs[0]
    if rdata is None:
        return False, ['<the buffer handed to RR::new was not identified>']
    events = []       # (name, onto rdata?, roots of target, roots of source)
    for bi in _rpo(f):
        t = f['blocks'][bi]['term']
        if t['k'] != 'call' or not t['args']:
            continue
        p = (F.call_path(t) or '').split('::')[-1]
        if p not in EMITTERS:
            continue
        tgt = _buffer_roots(f, defs, t['args'][0])
        onto = len(tgt) == 1 and _same_root(tgt[0], rdata)
        src = _buffer_roots(f, defs, t['args'][1]) if len(t['args']) > 1 else []
        events.append((p, onto, tgt, src))
    order = [e[0] if e[1] else e[0] + '(scratch)' for e in events]
    on = [e for e in events if e[1]]
    w = [e for e in events if e[0] == 'write_u16']
    if len(w) != 1:
        return False, order
    w = w[0]
    if w[1]:
        return [e[0] for e in on[:3]] == ['push', 'push', 'write_u16'], order
    # scratch form: the write comes first, and the first append to rdata takes its bytes from that scratch array
    if not on or on[0][0] not in ('extend_from_slice', 'extend'):
        return False, order
    if events.index(w) > events.index(on[0]):
        return False, order
    ok = len(w[2]) == 1 and len(on[0][3]) == 1 and w[2][0][0] == 'local' and _same_root(w[2][0], on[0][3][0])
    if ok:
        ty = f['locals'][w[2][0][1]] if w[2][0][1] < len(f['locals']) else {}
        ty = ty.get('ty', ty)
        ok = ty.get('k') == 'array' and str(ty.get('n')) == '2_usize'
    return ok, order


def layout_rule(ctx, facts, cfg):
    rid = 'C13.b'
    layout.check_builder(ctx, facts, cfg, rid)
    T = layout.table()
    # rdlength = len(rdata)
    f = facts.fn('synth::gen::RR::new')
    if f:
        defs = F.single_defs(f)
        ok = False
        for bi, b in F.blocks(f):
            t = b['term']
            if t['k'] == 'call' and (F.call_path(t) or '').endswith('write_u16'):
                rs = F.roots(f, defs, t['args'][1])
                tr = layout.Tracer(f, facts)
                base, off, sym, ln = tr.trace(t['args'][0])
                if off == T['rr']['rdlength'][0] and any(r[0] == 'call' and r[1].endswith('::len') for r in rs):
                    lens = [r[2] for r in rs if r[0] == 'call' and r[1].endswith('::len')]
                    ok = all(any(rr == ('param', 2) for rr in F.roots(f, defs, lt['args'][0])) for lt in lens)
        ctx.instance(rid, 'RR::new writes rdlength = rdata.len()', ok=ok, site=f['at'])
        if not ok:
            ctx.violation(rid, 'synth::gen::RR::new', 'rdlength-source', 'the RDLENGTH written by RR::new is not the length of the rdata argument', site=f['at'], config=cfg)
    # SOA trailer
    key = 'synth::gen::SOA::build'
    if facts.fn(key):
        got = sorted((g[2], g[3]) for g in layout.tuples(facts, key) if g[0] == 'w' and g[1].startswith('local-array'))
        want = sorted((T['soa'][n][0], 4) for n in ('serial', 'refresh', 'retry', 'expire', 'minimum'))
        # which argument goes where: serial=ts(param 4) ... minimum=neg_ttl(param 8)
        f = facts.fn(key)
        defs = F.single_defs(f)
        order = []
        for bi, b in F.blocks(f):
            t = b['term']
            if t['k'] == 'call' and (F.call_path(t) or '').endswith('write_u32'):
                tr = layout.Tracer(f, facts)
                base, off, sym, ln = tr.trace(t['args'][0])
                rs = F.roots(f, defs, t['args'][1])
                order.append((off, [r[1] for r in rs if r[0] == 'param']))
        okp = sorted(order) == [(0, [4]), (4, [5]), (8, [6]), (12, [7]), (16, [8])]
        ok = got == want and okp
        ctx.instance(rid, 'SOA::build writes serial/refresh/retry/expire/minimum at 0/4/8/12/16 from arguments 4..8 (found %s)' % sorted(order), ok=ok, site=f['at'])
        if not ok:
            ctx.violation(rid, key, 'soa-trailer', 'SOA trailer layout: found writes %s (offset, argument); RFC 1035 3.3.13 wants serial, refresh, retry, expire, minimum at 0, 4, 8, 12, 16' % sorted(order), site=f['at'], config=cfg)
    for key, nm, param in (('synth::gen::MX::build', 'preference', 2), ('synth::gen::DS::build', 'key tag', 2)):
        f = facts.fn(key)
        if f is None:
            ctx.missing(rid, key)
            continue
        defs = F.single_defs(f)
        got = [g for g in layout.tuples(facts, key) if g[0] == 'w' and g[3] == 2]
        ok = len(got) == 1 and got[0][2] == 0 and not got[0][4]
        # the 16-bit write comes before any name / digest bytes are appended: the buffer holds exactly two bytes then
        ctx.instance(rid, '%s writes the %s at rdata+0 (2 bytes)' % (key.split('::')[-2], nm), ok=ok, site=f['at'])
        if not ok:
            ctx.violation(rid, key, 'first-field', '%s must write the 16-bit %s at offset 0 of the rdata; found %s' % (key.split('::')[-2], nm, [layout._fmt(g) for g in got]), site=f['at'], config=cfg)
        oko, order = first_field_emitted_first(facts, f, defs)
        ctx.instance(rid, '%s emits %s' % (key.split('::')[-2], order), ok=oko, site=f['at'])
        if not oko:
            ctx.violation(rid, key, 'field-order', '%s must emit the 2-byte %s first; emission order found: %s' % (key.split('::')[-2], nm, order), site=f['at'], config=cfg)
    # TXT: every character-string length byte is the length of a chunk produced by chunks(n), n <= 255 (so it lies in [1, n])
    key = 'synth::gen::TXT::build'
    f = facts.fn(key)
    if f:
        defs = F.single_defs(f)
        n_push = 0
        for bi, b in F.blocks(f):
            t = b['term']
            if t['k'] == 'call' and (F.call_path(t) or '').endswith('Vec::<T, A>::push'):
                rs = F.roots(f, defs, t['args'][1])
                if rs and all(r[0] == 'const' for r in rs):
                    continue
                n_push += 1
                lo = hi = None
                why = 'not the length of a chunk'
                lens = [r for r in rs if r[0] == 'call' and r[1].endswith('::len')]
                if lens and len(lens) == len(rs):
                    src = F.roots(f, defs, lens[0][2]['args'][0])
                    for r in src:
                        if r[0] == 'call' and r[1].endswith('::next') and any(q[0] == 'call' and q[1].endswith('<impl [T]>::chunks') for q in F.roots(f, defs, r[2]['args'][0])):
                            it = F.roots(f, defs, r[2]['args'][0])
                            for q in it:
                                if q[0] == 'call' and q[1].endswith('<impl [T]>::chunks'):
                                    n = F.op_const(q[2]['args'][1])
                                    if n is not None:
                                        lo, hi = 1, n
                        elif r[0] == 'call' and r[1].endswith('::next') and any(q[0] == 'call' and q[1].endswith('<impl [T]>::chunks_exact') for q in F.roots(f, defs, r[2]['args'][0])):
                            it = F.roots(f, defs, r[2]['args'][0])
                            for q in it:
                                if q[0] == 'call' and q[1].endswith('<impl [T]>::chunks_exact'):
                                    n = F.op_const(q[2]['args'][1])
                                    if n is not None:
                                        lo, hi = n, n
                        elif r[0] == 'call' and r[1].endswith('::remainder'):
                            it = F.roots(f, defs, r[2]['args'][0])
                            for q in it:
                                if q[0] == 'call' and q[1].endswith('<impl [T]>::chunks_exact'):
                                    n = F.op_const(q[2]['args'][1])
                                    if n is not None:
                                        lo, hi = 0, n - 1
                ok = lo is not None and lo >= 1 and hi <= 255
                ctx.instance(rid, 'TXT::build: character-string length byte at %s in [%s, %s]' % (t['at'], lo, hi), ok=ok, site=t['at'])
                if not ok:
                    ctx.violation(rid, key, 'txt-length-byte', ('TXT::build can emit a character-string whose length byte is 0 (range [%s, %s]): an empty character-string that is not part of the text' % (lo, hi)) if lo == 0 else
                                  ('TXT::build can emit a character-string longer than 255 bytes (range [%s, %s])' % (lo, hi)) if lo is not None else
                                  'the length byte pushed at %s is %s: cannot establish that it lies in [1, 255]' % (t['at'], why), site=t['at'], kind='rule-violated' if lo is not None else 'undecided', config=cfg)
        if n_push < 1:
            ctx.violation(rid, key, 'txt-pushes', 'no length-byte push found in TXT::build', kind='below-floor', config=cfg)


def dispatch_rule(ctx, facts, cfg):
    rid = 'C13.c'
    tn = {int(v['discr']): v['name'] for v in facts.adts.get('constants::Type', {}).get('variants', [])}
    # Type -> parser, builder
    disp = None
    for k, f in sorted(facts.fns.items()):
        if not k.startswith('synth::parser::rr_parser'):
            continue
        defs = F.single_defs(f)
        for bi, b in F.blocks(f):
            t = b['term']
            if t['k'] == 'switch' and len(t['targets']) >= 5:
                e = F.expr(f, defs, t['discr'])
                if e[0] == 'discr':
                    disp = (k, f, t)
    if disp is None:
        ctx.violation(rid, 'synth::parser::rr_parser', 'dispatch-switch', 'the type dispatch of rr_parser was not found', kind='undecided', config=cfg)
    else:
        k, f, t = disp
        found = {}
        for v, tb in t['targets']:
            name = tn.get(v, str(v))
            # follow the straight-line chain from tb: first local call = parser, closure -> builder
            cur = tb
            parser = builder = None
            for _ in range(6):
                b = f['blocks'][cur]
                for s in b['stmts']:
                    if s['k'] == 'assign' and s['rv']['k'] == 'aggregate' and s['rv'].get('agg') == 'closure':
                        cf = facts.fns.get(s['rv']['def'])
                        if cf:
                            for _, cb in F.blocks(cf):
                                ct = cb['term']
                                if ct['k'] == 'call' and (F.call_path(ct) or '').startswith('synth::gen::') and (F.call_path(ct) or '').endswith('::build'):
                                    builder = (F.call_path(ct) or '').split('::')[-2]
                tt = b['term']
                if tt['k'] == 'call':
                    p = F.call_path(tt) or ''
                    if p.startswith('synth::parser::') and parser is None:
                        parser = p.split('::')[-1]
                    cur = tt.get('target')
                    if cur is None:
                        break
                elif tt['k'] == 'goto':
                    break
                else:
                    break
            found[name] = (parser, builder)
        ok = found == DISPATCH
        ctx.instance(rid, 'rr_parser dispatch: %s' % sorted(found.items()), ok=ok, site=f['at'])
        if not ok:
            diff = {n: (found.get(n), DISPATCH.get(n)) for n in set(found) | set(DISPATCH) if found.get(n) != DISPATCH.get(n)}
            ctx.violation(rid, k, 'type-dispatch', 'rr_parser routes record types to (parser, builder) pairs other than the expected table: %s (found, expected)' % diff, site=f['at'], config=cfg)
    # keyword -> Type
    f = facts.fn('synth::parser::rr_type_from_str')
    if f is None:
        ctx.missing(rid, 'synth::parser::rr_type_from_str')
        return
    defs = F.single_defs(f)
    pairs = []
    dom = F.dominators(f)
    kw_blocks = []
    for bi, b in F.blocks(f):
        t = b['term']
        if t['k'] == 'call' and (F.call_path(t) or '').endswith('eq_ignore_ascii_case'):
            txt = None
            for a in t['args']:
                for r_ in F.roots(f, defs, a):
                    m = re.search(r'b"([A-Za-z0-9]+)"', str(r_[1])) if r_[0] == 'const' else None
                    if m:
                        txt = m.group(1)
            # the promoted constant holds the byte string
            kw_blocks.append((bi, txt, t))
    # fall back: byte strings live in promoted constants; read them in order
    proms = []
    for pb in f.get('promoted', []):
        for blk in pb['blocks']:
            for s in blk['stmts']:
                if s['k'] == 'assign':
                    m = re.search(r'b\\?"([A-Za-z0-9]+)\\?"', str(s['rv']))
                    if m:
                        proms.append(m.group(1))
    variants = []
    for bi, b in F.blocks(f):
        for s in b['stmts']:
            if s['k'] == 'assign' and s['rv']['k'] == 'aggregate' and s['rv'].get('adt') == 'constants::Type':
                variants.append((bi, s['rv']['variant']))
    # pair each comparison with the Type constructed on its true edge
    res = {}
    for (bi, txt, t) in kw_blocks:
        nxt = f['blocks'][t['target']]
        sw = nxt['term']
        if sw['k'] != 'switch':
            continue
        true_b = sw['otherwise'] if all(v == 0 for v, _ in sw['targets']) else [tb for v, tb in sw['targets'] if v == 1][0]
        vs = [v for (vb, v) in variants if vb == true_b or true_b in dom.get(vb, ())]
        if txt is None:
            e = F.expr(f, defs, t['args'][1])
            txt = str(e)
        res[txt] = vs[0] if vs else None
    names = sorted(DISPATCH)
    if all(k_ in names for k_ in res):
        ok = all(res.get(n) == n for n in names)
        ctx.instance(rid, 'rr_type_from_str: %s' % sorted(res.items()), ok=ok, site=f['at'])
        if not ok:
            ctx.violation(rid, 'synth::parser::rr_type_from_str', 'keyword-table', 'the mnemonic -> Type table is not the identity on %s: %s' % (names, sorted(res.items())), site=f['at'], config=cfg)
    else:
        # keyword text not recoverable from the operands: compare the ordered lists (promoted byte strings vs constructed variants)
        seq_v = [v for _, v in sorted(variants)]
        ok = sorted(proms) == sorted(names) and sorted(seq_v) == sorted(names) and len(kw_blocks) == len(names)
        ctx.instance(rid, 'rr_type_from_str: keywords %s, variants %s' % (sorted(proms), sorted(seq_v)), ok=ok, site=f['at'])
        if not ok:
            ctx.violation(rid, 'synth::parser::rr_type_from_str', 'keyword-table', 'mnemonics %s vs constructed Types %s: expected exactly %s' % (sorted(proms), sorted(seq_v), names), site=f['at'], config=cfg)


def checked_rule(ctx, facts, cfg):
    rid = 'C13.d'
    n = 0
    for top in ('synth::parser::decimal_u8', 'synth::parser::decimal_u16', 'synth::parser::decimal_u32'):
        if facts.fn(top) is None:
            ctx.missing(rid, top)
            continue
        seen, ext, _, _ = facts.reach([top])
        ariths = set()
        for k in seen:
            if root_fn(k) != top:
                continue
            f = facts.fns[k]
            for bi, b in F.blocks(f):
                t = b['term']
                if t['k'] == 'call':
                    p = F.call_path(t) or ''
                    if 'core::num::' in p:
                        ariths.add(p.split('::')[-1])
                for s in b['stmts']:
                    if s['k'] == 'assign' and s['rv']['k'] == 'binop' and s['rv']['op'].startswith(('Mul', 'Add', 'Shl')):
                        ariths.add('raw-' + s['rv']['op'])
        n += 1
        ok = {'checked_mul', 'checked_add'} <= ariths and not [a for a in ariths if a.startswith(('wrapping_', 'overflowing_', 'saturating_', 'unchecked_', 'raw-'))]
        ctx.instance(rid, '%s folds digits with %s' % (top.split('::')[-1], sorted(ariths)), ok=ok, site=facts.fn(top)['at'])
        if not ok:
            ctx.violation(rid, top, 'unchecked-fold', '%s accumulates digits with %s: an out-of-range number must be a parse error, so only checked_mul / checked_add are allowed' % (top.split('::')[-1], sorted(ariths)),
                          site=facts.fn(top)['at'], config=cfg)
    if n < 3:
        ctx.violation(rid, '<floor>', 'decimal folds', 'found %d of decimal_u8/u16/u32' % n, kind='below-floor')

TOKEN_SCANNERS = ('chomp::parsers::take_while1', 'chomp::parsers::take_while', 'chomp::parsers::take_till')
SEPARATOR = 'synth::parser::is_horizontal_whitespace'
# byte classes of the parser-combinator crate (its documentation; MIR of non-generic extern functions is not exported)
EXTERN_CLASSES = {
    'chomp::ascii::is_digit': lambda c: 0x30 <= c <= 0x39,
    'chomp::ascii::is_alpha': lambda c: 0x41 <= c <= 0x5a or 0x61 <= c <= 0x7a,
    'chomp::ascii::is_alphanumeric': lambda c: 0x30 <= c <= 0x39 or 0x41 <= c <= 0x5a or 0x61 <= c <= 0x7a,
    'chomp::ascii::is_whitespace': lambda c: c in (0x09, 0x0a, 0x0b, 0x0c, 0x0d, 0x20),
    'chomp::ascii::is_horizontal_space': lambda c: c in (0x09, 0x20),
    'chomp::ascii::is_end_of_line': lambda c: c in (0x0a, 0x0d),
}
STD_CLASSES = {
    '<impl u8>::is_ascii_hexdigit': lambda c: chr(c) in '0123456789abcdefABCDEF',
    '<impl u8>::is_ascii_digit': lambda c: 0x30 <= c <= 0x39,
    '<impl u8>::is_ascii_alphabetic': lambda c: 0x41 <= c <= 0x5a or 0x61 <= c <= 0x7a,
    '<impl u8>::is_ascii_alphanumeric': lambda c: 0x30 <= c <= 0x39 or 0x41 <= c <= 0x5a or 0x61 <= c <= 0x7a,
    '<impl u8>::is_ascii_whitespace': lambda c: c in (0x09, 0x0a, 0x0c, 0x0d, 0x20),
}


def _class_models():
    m = {}
    for table in (EXTERN_CLASSES, STD_CLASSES):
        for name, fn in table.items():
            m[name] = (lambda fn: lambda args, mm: bf_from_fn([args[0]], fn))(fn)
    return m


def _accepts(facts, pred, byte):
    """Does the byte predicate (function item or closure, from the call's argument) accept `byte`?  True / False / None (undecided)."""
    c = BV.const(byte, 8)
    if pred[0] == 'fn' and pred[1] in EXTERN_CLASSES:
        return bool(EXTERN_CLASSES[pred[1]](byte))
    key = pred[1]
    if key not in facts.fns:
        return None
    try:
        args = [c] if pred[0] == 'fn' else ['CLOSURE', c]
        rs = Interp(facts.fns, _class_models()).outcomes(key, args)
    except Exception:
        return None
    # a stateful closure (captured counters) is explored along every branch its state could take: the verdict must not depend on it
    vals = set()
    for r in rs:
        if r is TOP or r is None or getattr(r, 'vs', None) != ():
            return None
        vals.add(bool(r.tt & 1))
    return vals.pop() if len(vals) == 1 else None


def separator_rule(ctx, facts, cfg):
    """C13.e: no multi-byte token of the record-text grammar can contain a field separator.

    Fields are told apart by horizontal whitespace only; a token scanner whose byte predicate accepts a
    separator byte swallows the fields that follow it, so a record with surplus fields is no longer
    rejected (and a missing one can be taken from the next).  Every predicate handed to
    take_while / take_while1 (take_till: the complement) below RR::from_string is evaluated on every byte
    that `is_horizontal_whitespace` accepts."""
    rid = 'C13.e'
    if SEPARATOR not in facts.fns:
        ctx.missing(rid, SEPARATOR)
        return
    seps = [b for b in range(256) if _accepts(facts, ('fn', SEPARATOR), b)]
    undec = [b for b in range(256) if _accepts(facts, ('fn', SEPARATOR), b) is None]
    if undec or not seps:
        ctx.violation(rid, SEPARATOR, 'separator set', 'cannot evaluate the separator class (%d bytes undecided, %d accepted)' % (len(undec), len(seps)), kind='undecided', config=cfg)
        return
    seen, ext, ind, parent = facts.reach([ROOT])
    n = 0
    for k in sorted(seen):
        f = facts.fns.get(k)
        if f is None:
            continue
        for bi, b in enumerate(f['blocks']):
            t = b.get('term') or {}
            if t.get('k') != 'call':
                continue
            cal = t.get('callee') or {}
            path = cal.get('resolved') or cal.get('path')
            if path not in TOKEN_SCANNERS:
                continue
            args = t.get('args') or []
            pred = None
            if len(args) >= 2:
                a = args[1]
                ty = (a.get('ty') or (a.get('place') or {}).get('ty') or {})
                if ty.get('k') == 'fndef':
                    pred = ('fn', ty.get('fn'))
                elif ty.get('k') == 'closure':
                    pred = ('closure', ty.get('def'))
            n += 1
            name = '%s: %s(%s)' % (k, path.rsplit('::', 1)[-1], pred[1] if pred else '?')
            if pred is None:
                ctx.violation(rid, k, 'token predicate', 'the byte predicate handed to %s in %s is neither a function item nor a closure' % (path, k), kind='undecided', config=cfg)
                continue
            want = path.endswith('take_till')
            bad = []
            for s in seps:
                r = _accepts(facts, pred, s)
                if r is None:
                    bad = None
                    break
                if r != want:
                    bad.append(s)
            if bad is None:
                ctx.violation(rid, k, 'token predicate ' + str(pred[1]), 'cannot evaluate predicate %s on the separator bytes' % pred[1], kind='undecided', config=cfg)
            elif bad:
                ctx.violation(rid, k, 'separator inside token: ' + str(pred[1]).rsplit('::', 2)[-1],
                              'the token scanned in %s by %s accepts the field separator byte(s) %s: the fields after it are swallowed instead of being counted' % (k, pred[1], ', '.join('0x%02x' % x for x in bad)), config=cfg)
            else:
                ctx.instance(rid, name + ' rejects %s [%s]' % (', '.join('0x%02x' % x for x in seps), cfg))
    if n < 7:
        ctx.violation(rid, '<floor>', 'token scanners', 'only %d take_while/take_while1 sites below RR::from_string, expected 7' % n, kind='below-floor', config=cfg)


def run(ctx):
    for cfg in ctx.configs():
        if cfg == 'hooks':
            continue
        facts = ctx.facts(cfg)
        nopanic_rule(ctx, facts, cfg)
        layout_rule(ctx, facts, cfg)
        dispatch_rule(ctx, facts, cfg)
        checked_rule(ctx, facts, cfg)
        separator_rule(ctx, facts, cfg)
    ctx.assume('contract `lengths`: byte strings whose lengths are added for a capacity are cut from one input string (or are live allocations), so their sum is <= isize::MAX')
    ctx.assume('contract `counter`: a usize counter incremented by one per input byte cannot reach usize::MAX')
    ctx.assume('contract `digit`: chomp take_while1(p) yields only bytes satisfying p; chomp::ascii::digit yields a byte in 0..9')
    ctx.trust('chomp combinators call their function / closure arguments only with bytes of the input (opaque, effect-free models)')
