"""C17 — results depend only on the arguments.

Proof by effect freedom (E1): the transitive effects of the pure entry points contain no state that
outlives a call and no ambient input.  Rules:

  C17.no-state      no static, thread-local or LocalKey is referenced below any pure entry point, nor below any getter of the parsed
                    object or any C-table entry (the C error slot is reachable only through throw_err, which is cut out there)
  C17.leaves        every external callee belongs to a crate classified pure and matches no deny pattern
                    (rand, time, env, fs, io, net sockets, process, thread, RandomState/HashMap, sync, libc, ...)
  C17.no-ptr-int    no pointer<->integer cast or transmute (addresses must not leak into results)
  C17.no-indirect   no call through a function pointer (unknown callee)
  C17.rand-confined the only local bodies that call into `rand` are the listed synthesiser(s) of an empty packet,
                    and there the random value flows only into set_tid
"""
import json
import os
import re

from analysis import facts as F
from analysis.effects import Effects

ENTRIES = ['dns_sector::DNSSector::new', 'dns_sector::DNSSector::parse', 'compress::Compress::uncompress',
           'compress::Compress::uncompress_with_previous_offset', 'compress::Compress::compress',
           'renamer::Renamer::rename_with_raw_names', 'parsed_packet::ParsedPacket::rename_with_raw_names',
           'synth::gen::RR::from_string', 'synth::gen::RR::new', 'synth::gen::RR::new_question'] + \
          ['synth::gen::%s::build' % t for t in 'A AAAA NS CNAME PTR TXT MX SOA DS'.split()]
RAND_ALLOWED = {'parsed_packet::ParsedPacket::empty'}
TID_SINK = 'parsed_packet::ParsedPacket::set_tid'


def load_table():
    with open(os.path.join(F.VERIF, 'tables', 'extern_effects.json')) as fh:
        return json.load(fh)


def classify(path, table):
    for sub, why in table['deny_substrings'].items():
        if sub in path:
            return 'deny', why
    roots = set(re.findall(r'(?<![A-Za-z0-9_:])([a-z_][a-z0-9_]*)::', path))
    unknown = sorted(r for r in roots if r not in table['pure_crates'])
    if unknown:
        return 'unknown', 'crate(s) %s not classified' % ','.join(unknown)
    if not roots:
        return 'unknown', 'no crate root recognised in path'
    return 'pure', ''


def check_scope(ctx, facts, entries, cfg, table, label):
    eff = Effects(facts)
    agg, seen, parent = eff.transitive(entries)
    counts = {'state': 0, 'leaves': 0, 'casts': 0, 'indirect': 0}
    for (kind, d), uses in sorted(agg.items()):
        k0, site = uses[0]
        path = facts.path_to(parent, k0)
        if kind in ('static', 'tls', 'localkey'):
            ctx.instance('C17.no-state', '%s %s in %s' % (kind, d, k0), ok=False, site=site)
            ctx.violation('C17.no-state', k0, '%s:%s' % (kind, d),
                          '%s `%s` is referenced below a pure entry point: state that outlives the call (or is shared between calls) can change the result'
                          % ({'static': 'static', 'tls': 'thread-local static', 'localkey': 'thread_local! key'}[kind], d), site=site, path=path, config=cfg)
        elif kind == 'ext':
            cls, why = classify(d, table)
            ctx.instance('C17.leaves', d, ok=cls == 'pure', site=site)
            if cls == 'deny':
                ctx.violation('C17.leaves', k0, d, 'external callee `%s` (%s) is reachable from a pure entry point' % (d, why), site=site, path=path, config=cfg)
            elif cls == 'unknown':
                ctx.violation('C17.leaves', k0, d, 'external callee `%s` is not classified (%s)' % (d, why), site=site, path=path, kind='undecided', config=cfg)
        elif kind in ('ptr2int', 'int2ptr') or (kind == 'transmute' and re.search(r'(\*|&).* -> (u|i)(size|64|32)|(u|i)(size|64) -> (\*|&)', d)):
            ctx.instance('C17.no-ptr-int', '%s %s in %s' % (kind, d, k0), ok=False, site=site)
            ctx.violation('C17.no-ptr-int', k0, kind, 'pointer/integer conversion (%s %s): an address can leak into a result' % (kind, d), site=site, path=path, config=cfg)
        elif kind == 'indirect':
            ctx.instance('C17.no-indirect', 'indirect call in %s' % k0, ok=False, site=site)
            ctx.violation('C17.no-indirect', k0, 'indirect-call', 'call through a function pointer below a pure entry point (unknown callee)', site=site, path=path, config=cfg)
    # one "holds" instance per scanned body for the zero-expected rules
    for k in sorted(seen):
        es = eff.of(k)
        ctx.instance('C17.no-state', 'body %s: no static/tls/LocalKey' % k, ok=not any(e[0] in ('static', 'tls', 'localkey') for e in es))
    return agg, seen


def run(ctx):
    table = load_table()
    # positive examples: each zero-expected detector must see its construct
    pos = ctx.positive()
    peff = Effects(pos)
    pagg, pseen, _ = peff.transitive(['write_shared', 'bump', 'write_tl', 'addr_of', 'hashed'])
    kinds = {k for (k, d) in pagg}
    want = {'static', 'localkey', 'ptr2int'}
    miss = want - kinds
    if not any(classify(d, table)[0] == 'deny' for (k, d) in pagg if k == 'ext'):
        miss.add('deny-leaf(HashMap)')
    if miss:
        ctx.violation('C17.no-state', '<selftest>', 'positive-example', 'effect detectors no longer see %s in selftest/positive' % sorted(miss), kind='undecided')
    for cfg in ctx.configs():
        facts = ctx.facts(cfg)
        entries = []
        for e in ENTRIES:
            if facts.fn(e) is None:
                ctx.missing('C17.no-state', e)
            else:
                entries.append(e)
        agg, seen = check_scope(ctx, facts, entries, cfg, table, 'pure entry points')
        ctx.sample({'config': cfg, 'entries': len(entries), 'reachable_local_bodies': len(seen),
                    'external_leaves': sorted(d for (k, d) in agg if k == 'ext')[:8], 'external_leaf_count': sum(1 for (k, d) in agg if k == 'ext')})
        # second scope: the observers (getters of the parsed object, iterator accessors, every C-table entry).  Their answers must be
        # functions of the object they are given: no static / thread-local / LocalKey and no ambient input below them.  The one
        # legitimate thread-local, the C error slot, is reachable only through throw_err, which is cut out of the graph here.
        obs = [k for k in sorted(facts.fns) if re.match(r'parsed_packet::ParsedPacket::(tid|flags|rcode|opcode|is_response|dnssec|question|question_raw|question_raw0|qtype_qclass|max_payload|packet)$', k)]
        from rules.C16 import table_entries
        obs += [k for k in (table_entries(facts) or []) if k in facts.fns]
        eff2 = Effects(facts)
        agg2, seen2, parent2 = eff2.transitive(obs, avoid=('c_abi::throw_err',))
        nobs = 0
        for (kind, d), uses in sorted(agg2.items()):
            k0, site = uses[0]
            if kind in ('static', 'tls', 'localkey'):
                ctx.violation('C17.no-state', k0, 'observer:%s:%s' % (kind, d), '%s `%s` is referenced below a getter / C-table entry (%s): the answer can depend on earlier calls, not only on the object it is asked about'
                              % ({'static': 'static', 'tls': 'thread-local static', 'localkey': 'thread_local! key'}[kind], d, ' -> '.join(x.split('::')[-1] for x in facts.path_to(parent2, k0)[-3:])),
                              site=site, path=facts.path_to(parent2, k0), config=cfg)
            elif kind == 'ext' and classify(d, table)[0] == 'deny' and classify(d, table)[1] != 'random numbers':
                ctx.violation('C17.leaves', k0, 'observer:' + d, 'external callee `%s` (%s) is reachable from a getter / C-table entry' % (d, classify(d, table)[1]), site=site, config=cfg)
        for k in sorted(seen2):
            nobs += 1
        ctx.instance('C17.no-state', 'observers: %d getters / table entries, %d bodies below them (throw_err cut out): no static / thread-local / LocalKey' % (len(obs), nobs),
                     ok=not any(kind in ('static', 'tls', 'localkey') for (kind, d) in agg2))
        if len(obs) < 30:
            ctx.violation('C17.no-state', '<floor>', 'observers', 'found %d getters / table entries, expected at least 30' % len(obs), kind='below-floor')
        # rand confinement over the whole crate
        eff = Effects(facts)
        users = []
        for key, f in sorted(facts.fns.items()):
            if '@' in key:
                continue
            rs = [(d, s) for (k, d, s) in eff.of(key) if k == 'ext' and classify(d, table) == ('deny', 'random numbers')]
            if rs:
                users.append((key, rs))
        for key, rs in users:
            root = facts.fns[key].get('parent') or key
            ok = root in RAND_ALLOWED
            ctx.instance('C17.rand-confined', 'rand used in %s' % key, ok=ok, site=rs[0][1])
            if not ok:
                ctx.violation('C17.rand-confined', key, 'rand-user', 'randomness (%s) is used outside the synthesiser of an empty packet' % rs[0][0], site=rs[0][1], config=cfg)
                continue
            # value flow: result of Rng::random may only feed set_tid
            f = facts.fns[key]
            defs = F.single_defs(f)
            rnd = set()
            for i, b in F.blocks(f):
                t = b['term']
                if t['k'] == 'call' and 'random' in (F.call_path(t) or '') and 'rand::' in (F.call_path(t) or '') + t['callee'].get('path', ''):
                    rnd.add(t['dest']['local'])
            changed = True
            while changed:
                changed = False
                for i, b in F.blocks(f):
                    for s in b['stmts']:
                        if s['k'] == 'assign' and s['rv']['k'] in ('use', 'cast') and F.op_local(s['rv']['x']) in rnd and s['place']['local'] not in rnd:
                            rnd.add(s['place']['local'])
                            changed = True
            for i, b in F.blocks(f):
                t = b['term']
                if t['k'] == 'call':
                    for ai, a in enumerate(t['args']):
                        if F.op_local(a) in rnd:
                            ok2 = F.call_path(t) == TID_SINK and ai == 1
                            ctx.instance('C17.rand-confined', 'random value -> %s arg %d' % (F.call_path(t), ai), ok=ok2, site=t['at'])
                            if not ok2:
                                ctx.violation('C17.rand-confined', key, 'random-sink:' + str(F.call_path(t)), 'the random value flows into %s, not only into the transaction id' % F.call_path(t), site=t['at'], config=cfg)
            for i, b in F.blocks(f):
                for s in b['stmts']:
                    if s['k'] == 'assign' and s['place']['proj'] and any(pl['local'] in rnd for pl in [s['rv'].get('x', {}).get('place', {'local': -1})] if isinstance(pl, dict) and 'local' in pl):
                        ctx.violation('C17.rand-confined', key, 'random-store', 'the random value is stored into %s' % F.fields_of(s['place']), site=s['at'], config=cfg)
        ctx.floor('C17.rand-confined', 1, 'rand user (ParsedPacket::empty)')
        ctx.floor('C17.leaves', 50, 'external leaves below the pure entry points')
    ctx.trust('tables/extern_effects.json: dependency crates core/std/alloc/byteorder/hex/chomp/anyhow classified pure by module (their MIR is not re-analysed)')
    ctx.assume('callers do not mutate the pub fields of DNSSector/ParsedPacket between calls in ways the API does not offer')
