"""C05 — decompression keeps the message (structural clauses).

  C05.a dispatch     uncompress_rdata expands names in exactly the record types the validator checks names in
  C05.b accounting   (E4) every data length it rewrites equals the bytes emitted behind the 10-byte record header; the fixed parts copied
                     are 4 (question), 10 (header), 12 (MX header + preference) and 20 (SOA trailer) bytes; name walks start at
                     rdata+10 / rdata+12, and the second SOA name where the first one ended on the wire
  C05.c cursor       the additional section is walked with OPT included, from into_iter_additional_including_opt through next_including_opt
  C05.d translation  in every section loop the reference-offset test precedes the first byte appended for that record
  C05.e walker       copy_uncompressed_name reports the wire position behind the FIRST pointer, exactly like the validator's walker
  C05.f bounded copies   no copy from the input packet into the output below the decompressor takes an open-ended range packet[a..]
  C05.g owner names   in every section walk the owner name is expanded by copy_raw_name in the same loop iteration, before the record data
                     is re-emitted; no raw name bytes (name_slice) are appended to the output

Not decided: byte identity of expanded names, idempotence, acceptance of the output (run-time relations).
"""
from analysis import facts as F
from analysis.cfg import PathFlow, Automaton
from rules import reemit

UW = 'compress::Compress::uncompress_with_previous_offset'
UR = 'compress::Compress::uncompress_rdata'


class OrderAu(Automaton):
    """'fresh' when a cursor has just been (re)obtained, 'tested' after the ref_offset comparison; an append while fresh is bad"""
    init = ('tested', frozenset())

    def __init__(self, facts):
        self.facts = facts

    def on_call(self, q, f, bi, t, env, flow):
        st, bad = q
        p = F.call_path(t) or ''
        tp = F.call_trait_path(t) or ''
        last = p.split('::')[-1]
        if last.startswith('into_iter_') or last in ('next', 'next_including_opt'):
            return [(('fresh', bad), 0), (('fresh', bad), 1)] if t['dest']['ty'].get('adt') == 'std::option::Option' else [(('fresh', bad), None)]
        if p.endswith('PartialEq>::eq') or p.endswith('::eq') and 'Option' in p:
            return [(('tested', bad), None)]
        if last in ('copy_raw_name', 'uncompress_rdata', 'extend_from_slice', 'extend') and st == 'fresh':
            return [((st, bad | {t['at']}), None)]
        if last in ('copy_raw_name', 'uncompress_rdata'):
            return [(q, None)]
        return None


def translation_rule(ctx, facts, cfg):
    rid = 'C05.d'
    f = facts.fn(UW)
    if f is None:
        ctx.missing(rid, UW)
        return
    flow = PathFlow(facts, OrderAu(facts))
    exits = flow.summary(UW, OrderAu.init)
    bad = set()
    for (q, kind) in exits:
        bad |= set(q[1])
    loops = sum(1 for _, b in F.blocks(f) if b['term']['k'] == 'call' and (F.call_path(b['term']) or '').split('::')[-1].startswith('into_iter_'))
    ctx.instance(rid, 'uncompress_with_previous_offset: %d section walks; the offset test precedes the first append of every record' % loops, ok=not bad, site=f['at'])
    for at in sorted(bad):
        ctx.violation(rid, UW, 'append-before-offset-test', 'bytes of a record are appended (at %s) before its offset has been compared with the reference offset: the translated offset would point behind the record start' % at,
                      site=at, config=cfg)
    if loops < 4:
        ctx.violation(rid, '<floor>', 'section walks', 'found %d section walks in the decompressor, expected 4' % loops, kind='below-floor')
    # the end-of-packet case: a comparison of ref_offset with the input length after the loops
    defs = F.single_defs(f)
    has_end = False
    for gi, gb in F.blocks(f):
        t = gb['term']
        if t['k'] == 'switch':
            e = F.expr(f, defs, t['discr'])
            if e[0] == 'binop' and e[1] == 'Eq' and any(x[0] == 'call' and x[1].endswith('::len') for x in (e[2], e[3])) and any(x == ('local', 2) for x in (e[2], e[3])):
                has_end = True
    ctx.instance(rid, 'the end-of-packet boundary is translated too', ok=has_end, site=f['at'])
    if not has_end:
        ctx.violation(rid, UW, 'end-of-packet-case', 'a reference offset equal to the input length (the boundary behind the last record) is no longer translated', site=f['at'], config=cfg)


def names_rule(ctx, facts, cfg):
    """C05.g: in every section walk of the decompressor the record's owner name goes through the expanding copier (copy_raw_name, in the
    same loop iteration, before the record data is re-emitted), and no raw name bytes (name_slice) are appended to the output."""
    rid = 'C05.g'
    f = facts.fn(UW)
    if f is None:
        ctx.missing(rid, UW)
        return
    defs = F.single_defs(f)
    dom = F.dominators(f)
    loops = F.natural_loops(f)
    rdata_calls = [(bi, b['term']) for bi, b in F.blocks(f) if b['term']['k'] == 'call' and (F.call_path(b['term']) or '').endswith('Compress::uncompress_rdata')]
    EXPANDERS = ('::copy_raw_name', 'Compress::copy_uncompressed_name')
    name_calls = [bi for bi, b in F.blocks(f) if b['term']['k'] == 'call' and ((F.call_path(b['term']) or '').endswith(EXPANDERS) or (F.call_trait_path(b['term']) or '').endswith(EXPANDERS))]
    for bi, t in rdata_calls:
        inner = None
        for h, body in loops.items():
            if bi in body and (inner is None or len(body) < len(inner)):
                inner = body
        ok = inner is not None and any(nb in inner and (nb in dom.get(bi, ()) or nb == bi) for nb in name_calls)
        ctx.instance(rid, 'section walk re-emitting record data at %s: the owner name is expanded (copy_raw_name / copy_uncompressed_name) earlier in the same iteration' % t.get('at'), ok=ok, site=t.get('at'))
        if not ok:
            ctx.violation(rid, UW, 'owner-name-not-expanded@%d' % (rdata_calls.index((bi, t)) + 1), 'a section walk of the decompressor re-emits record data at %s without expanding the record\'s owner name with '
                          'copy_raw_name in the same iteration: a name written with a compression pointer keeps the pointer in the output' % t.get('at'), site=t.get('at'), config=cfg)
    for bi, b in F.blocks(f):
        t = b['term']
        if t['k'] == 'call' and (F.call_path(t) or '').split('::')[-1] in ('extend_from_slice', 'extend', 'push') and len(t['args']) > 1:
            rs = F.roots(f, defs, t['args'][1])
            if any(r[0] == 'call' and str(r[1]).endswith('::name_slice') for r in rs):
                ctx.violation(rid, UW, 'raw-name-appended', 'the decompressor appends the raw bytes of a name (name_slice) to its output at %s: compression pointers inside them are carried over' % t.get('at'),
                              site=t.get('at'), config=cfg)
    if len(rdata_calls) < 4:
        ctx.violation(rid, '<floor>', 'section walks', 'found %d uncompress_rdata call sites in the decompressor, expected 4' % len(rdata_calls), kind='below-floor')
    # anywhere below the decompressor: no append copies a whole wire name verbatim (a source range whose extent comes from raw_name_len /
    # name_slice): the wire form of a name may end in a pointer, whatever its last byte looks like
    seen_, _, _, _ = facts.reach([UW])
    for k in sorted(seen_):
        if not k.startswith(('compress::', 'rr_iterator::')):
            continue
        g = facts.fns[k]
        gdefs = F.single_defs(g)
        for bi, b in F.blocks(g):
            t = b['term']
            if t['k'] != 'call' or (F.call_path(t) or '').split('::')[-1] not in ('extend_from_slice', 'extend') or len(t['args']) < 2:
                continue
            rs = F.roots(g, gdefs, t['args'][1])
            via = []
            for r in rs:
                if r[0] == 'call' and 'ndex' in str(r[1]) and len(r[2]['args']) > 1:
                    via += F.roots(g, gdefs, r[2]['args'][1])
                else:
                    via.append(r)
            if any(r[0] == 'call' and (str(r[1]).endswith('Compress::raw_name_len') or str(r[1]).endswith('::name_slice')) for r in via):
                ctx.violation(rid, k, 'wire-name-copied-verbatim', '%s appends to the decompressed output a range of the input whose extent is the wire length of a name (raw_name_len / name_slice) at %s: '
                              'a name ending in a compression pointer is carried over unexpanded' % (k.split('::')[-1], t.get('at')), site=t.get('at'), config=cfg)
    # the expanding copier itself: copy_raw_name appends to its output only through copy_uncompressed_name; bytes taken straight from the
    # packet are allowed only where the packet is known to hold no pointers
    keys = facts.inst_keys('rr_iterator::TypedIterable::copy_raw_name')
    if len(keys) < 2:
        ctx.violation(rid, '<floor>', 'copy_raw_name instances', 'found %d instantiations of copy_raw_name, expected 2' % len(keys), kind='below-floor')
    for key in keys:
        g = facts.fns[key]
        gdefs = F.single_defs(g)
        gdom = F.dominators(g)
        plain = set()
        for gi, gb in F.blocks(g):
            t = gb['term']
            if t['k'] == 'switch':
                e = F.expr(g, gdefs, t['discr'])
                neg = False
                while e[0] == 'unop' and e[1] == 'Not':
                    neg = not neg
                    e = e[2]
                if F.is_load_of(e, 'parsed_packet::ParsedPacket', 'maybe_compressed'):
                    plain |= {tb for v, tb in t['targets'] if (v == 0) != neg}
        expands = any(b['term']['k'] == 'call' and (F.call_path(b['term']) or '').endswith('Compress::copy_uncompressed_name') for _, b in F.blocks(g))
        raw_appends = []
        for bi, b in F.blocks(g):
            t = b['term']
            if t['k'] == 'call' and (F.call_path(t) or '').split('::')[-1] in ('extend_from_slice', 'extend', 'push', 'append') and len(t['args']) > 1:
                rs = F.roots(g, gdefs, t['args'][1])
                for _ in range(3):      # look through sub-slicing: the receiver of an Index / get / split call is what matters
                    nxt = []
                    for r in rs:
                        if r[0] == 'call' and ('ndex' in str(r[1]) or str(r[1]).split('::')[-1] in ('get', 'get_unchecked', 'split_at', 'as_slice', 'deref')) and r[2]['args']:
                            nxt += F.roots(g, gdefs, r[2]['args'][0])
                        else:
                            nxt.append(r)
                    rs = nxt
                from_packet = any((r[0] == 'load' and any(fl[1] == 'packet' for fl in F.fields_of(r[1]))) or (r[0] == 'call' and str(r[1]).endswith('::packet')) for r in rs)
                if from_packet and not any(pb in gdom.get(bi, ()) or pb == bi for pb in plain):
                    raw_appends.append(t.get('at'))
        ok = expands and not raw_appends
        ctx.instance(rid, '%s: output produced by copy_uncompressed_name only (raw packet bytes appended at: %s)' % (key.split('@')[-1], raw_appends or 'nowhere'), ok=ok, site=g['at'])
        if not expands:
            ctx.violation(rid, key, 'no-expander', 'copy_raw_name no longer goes through Compress::copy_uncompressed_name', site=g['at'], config=cfg)
        for at in raw_appends[:1]:
            ctx.violation(rid, key, 'raw-bytes-appended', 'copy_raw_name appends bytes taken straight from the packet at %s on a path where the packet may hold compression pointers: '
                          'a name ending in a pointer (whose low byte can be anything, 0 included) is copied with the pointer inside' % at, site=at, config=cfg)


def run(ctx):
    for cfg in ctx.configs():
        if cfg == 'hooks':
            continue
        facts = ctx.facts(cfg)
        reemit.dispatch_rule(ctx, facts, cfg, 'C05.a', UR, 'decompression')
        reemit.accounting_rule(ctx, facts, cfg, 'C05.b', UR, havoc=8)
        reemit.rewrite_on_every_path_rule(ctx, facts, cfg, 'C05.b', UR, ('Compress::copy_uncompressed_name',), floor=2)
        reemit.names_on_every_path_rule(ctx, facts, cfg, 'C05.h', UR, ('Compress::copy_uncompressed_name',), 'expanding it')
        reemit.fixed_parts_rule(ctx, facts, cfg, 'C05.b', UR)
        reemit.cursor_rule(ctx, facts, cfg, 'C05.c', [UW, 'compress::Compress::compress', 'renamer::Renamer::rename_with_raw_names'])
        translation_rule(ctx, facts, cfg)
        names_rule(ctx, facts, cfg)
        reemit.open_ended_rule(ctx, facts, cfg, 'C05.f', UW, ('compress::',), 3, 'the decompressor')   # 7 sites on the pinned tree; merged arms need fewer, a rule that lost sight of the code finds none
        reemit.walker_siblings_rule(ctx, facts, cfg, 'C05.e')
    ctx.trust('analysis/interp.py contracts (Vec growth, byteorder writes), tables/policy.json')
