"""C06 — compression keeps the message and never grows it (structural clauses).

  C06.a dictionary offsets (E4)  at SuffixDict::insert(suffix, X) inside copy_compressed_name_with_base_offset, X = len(output so far):
                     the interpreter derives the loop invariant and turns the obligation into the call-site precondition
                     base_offset + offset0 = len(output), which is then discharged at every call site (renamer, copy_compressed_name)
  C06.b re-emit      compress_rdata has the validator's name-bearing set, its rewritten data lengths equal the bytes emitted (E4), its
                     fixed parts / name starts are right, and compress() walks the additional section with OPT included
  C06.g chain depth  every dictionary hit is conditioned on a per-entry hop count within the validator's pointer budget (KNOWN FINDING D18 on the pinned tree)
  C06.c pointers     the two bytes pushed for a pointer are (ref >> 8) | 0xc0 and ref & 0xff of the offset returned by the dictionary;
                     an offset is stored in the dictionary only under `offset < 16384` (exact constant, test dominating the store and
                     every lookup result) so it fits 14 bits; a pointer replaces only suffixes of >= 3 bytes, so a name never grows
  C06.d bounded copies   no copy from the input packet into the output below compress() takes an open-ended range packet[a..] (inside the
                     record walk that would emit everything behind the current record twice: the packet grows and is no longer accepted)
  C06.e match predicate  the per-byte step of the dictionary comparison says "different" exactly when lower(c1) != lower(c2), for all 65 536
                     pairs (E3 region evaluation of the zipped byte loop)

Not decided: that decompressing gives the input back, the 16-indirection budget of the output
(design note D18), table wrap-around behaviour.
"""
from analysis import facts as F
from analysis.e4 import E4
from rules import reemit

WORK = 'compress::Compress::copy_compressed_name_with_base_offset'
CR = 'compress::Compress::compress_rdata'
INS = 'compress::SuffixDict::insert'


def dict_offsets_rule(ctx, facts, cfg):
    rid = 'C06.a'
    tops = ['renamer::Renamer::copy_with_replaced_name', 'compress::Compress::copy_compressed_name']
    # every body that calls the worker directly is a call site to discharge (the two known ones must exist; others are added as found)
    for key, f_ in sorted(facts.fns.items()):
        if key in tops or key == WORK:
            continue
        if any(b['term']['k'] == 'call' and WORK in [ck for ck in facts.callee_keys(f_, b['term'])] for _, b in F.blocks(f_)):
            tops.append(key)
    n_sites = 0
    for top in tops:
        if facts.fn(top) is None:
            ctx.missing(rid, top)
            continue
        e4 = E4(facts, rule_c06a=True, havoc=8 if top not in tops[:2] else None, opaque=['SuffixDict::insert', 'Renamer::replace_raw'])
        try:
            S = e4.summarize(top)
        except Exception as e:  # noqa
            ctx.violation(rid, top, 'undecided', 'cannot analyse %s: %s' % (top, e), kind='undecided', config=cfg)
            continue
        obs = [o for o in e4.obligations() if o['kind'].startswith('C06.a')]
        inner = [o for o in obs if ' <= ' not in o['site']]
        sites = [o for o in obs if ' <= ' in o['site']]
        for o in sites:
            n_sites += 1
            caller = o['site'].split(' <= ')[1]
            ok = o['status'] == 'proved'
            ctx.instance(rid, 'dictionary offset = output position, call site %s' % caller.split('@')[0].split('::')[-1] + '@' + caller.split(':', 1)[-1].split(':', 1)[-1], ok=ok,
                         site=caller.split('@')[-1].split(':', 1)[-1])
            if not ok:
                ctx.violation(rid, caller.split('@')[0], 'dict-offset-call-site', 'at this call the offset recorded in the suffix dictionary is not the position of the suffix in the OUTPUT '
                              '(base_offset + offset != len(output)): later pointers to it designate unrelated bytes (%s)' % o.get('detail', '')[:100], site=caller.split('@')[-1].split(':', 1)[-1], config=cfg)
        for regions, site, kind, detail in S.pre:
            if kind.startswith('C06.a'):
                ctx.violation(rid, top, 'dict-offset-precondition', '%s still requires of its callers that the offset it records equals the output position (%s)' % (top, detail[:100]),
                              site=facts.fn(top)['at'], config=cfg)
        if not inner:
            ctx.violation(rid, WORK, 'insert-site', 'the SuffixDict::insert call was not reached inside copy_compressed_name_with_base_offset', kind='undecided', config=cfg)
        bad_inner = [o for o in inner if o['status'] not in ('proved', 'lifted')]
        for o in bad_inner:
            ctx.violation(rid, WORK, 'dict-offset', 'inside the worker the recorded offset cannot be related to the output length: %s' % o.get('detail', '')[:100], site=facts.fn(WORK)['at'], config=cfg)
    if n_sites < 2:      # 3 on the pinned tree (2 in the renamer, 1 in copy_compressed_name); the renamer's two can be one
        ctx.violation(rid, '<floor>', 'call sites', 'only %d call sites of the worker were checked, expected 3 (2 in the renamer, 1 in copy_compressed_name)' % n_sites, kind='below-floor')


def _fold(e):
    if e[0] == 'binop' and e[2][0] == 'const' and e[3][0] == 'const' and isinstance(e[2][1], int) and isinstance(e[3][1], int):
        a, b = e[2][1], e[3][1]
        r = {'Shr': a >> b, 'Shl': a << b, 'Add': a + b, 'Sub': a - b, 'Mul': a * b}.get(e[1])
        if r is not None:
            return ('const', r)
    return e


def match_predicate_rule(ctx, facts, cfg):
    """C06.e: the suffix dictionary treats two stored/looked-up names as the same exactly when every pair of bytes is equal up to ASCII
    case: the per-byte step of SuffixDict::raw_names_eq_ignore_case, evaluated for all 65 536 byte pairs (E3)."""
    rid = 'C06.e'
    from rules import bytecmp
    key = 'compress::SuffixDict::raw_names_eq_ignore_case'
    f = facts.fn(key)
    if f is None:
        ctx.missing(rid, key)
        return
    table, why = bytecmp.zip_loop_table(facts, key)
    if table is None:
        ctx.violation(rid, key, 'undecided', 'the byte comparison of the suffix dictionary could not be evaluated: %s' % why, kind='undecided', site=f['at'], config=cfg)
        return
    bad = bytecmp.compare_with_spec(table)
    ctx.instance(rid, 'dictionary comparison step: "different" <=> lower(c1) != lower(c2) for all 65536 byte pairs (%d disagree)' % len(bad), ok=not bad, site=f['at'])
    if bad:
        c1, c2, got = bad[0]
        ctx.violation(rid, key, 'byte-predicate', 'the suffix dictionary compares bytes wrongly for %d of 65536 pairs, e.g. 0x%02x vs 0x%02x is treated as %s: a name can be replaced by a pointer to a '
                      'different name (or an equal name not be found)' % (len(bad), c1, c2, 'equal' if got is False else 'different' if got else 'position-dependent'), site=f['at'], config=cfg)


def _range_contains_lower(g, gd, e):
    """LO when e is `RangeInclusive::contains(&(LO..=HI), &x)` / `Range::contains(&(LO..HI), &x)` on a range of constants, else None"""
    if e[0] != 'call' or not (e[1].endswith('RangeInclusive::<Idx>::contains') or e[1].endswith('Range::<Idx>::contains')) or len(e[2]) != 2:
        return None
    r = e[2][0]
    if r[0] != 'ref' or not isinstance(r[1], dict):
        return None
    d = gd.get(r[1]['local'])
    if not d or d[0] != 'rv' or d[1]['k'] != 'use' or d[1]['x'].get('k') != 'const' or d[1]['x'].get('promoted') is None:
        return None
    pr = (g.get('promoted') or [])
    i = d[1]['x']['promoted']
    if i >= len(pr):
        return None
    for b in pr[i]['blocks']:
        t = b['term']
        if t['k'] == 'call' and ((F.call_path(t) or '').endswith('RangeInclusive::<Idx>::new')) and len(t['args']) == 2:
            lo = F.op_const(t['args'][0])
            return lo if isinstance(lo, int) else None
        for st in b['stmts']:
            if st['k'] == 'assign' and st['rv']['k'] == 'aggregate' and st['rv'].get('adt') in ('std::ops::Range', 'std::ops::RangeInclusive') and st['rv']['ops']:
                lo = F.op_const(st['rv']['ops'][0])
                return lo if isinstance(lo, int) else None
    return None


def _is_len_of_arg(g, gd, x, param):
    """is the tested value (seen through a reference) the length of the slice parameter `param`?"""
    if x[0] != 'ref' or not isinstance(x[1], dict):
        return False
    rs = F.roots_place(g, gd, {'local': x[1]['local'], 'proj': [], 'ty': {}})
    for r in rs:
        if r[0] == 'call' and r[1].endswith('::len') and r[2]['args']:
            return any(rr == ('param', param) for rr in F.roots(g, gd, r[2]['args'][0]))
    return False


def _offsets_handed_to_insert(facts):
    """largest value of the offset argument over all call sites of SuffixDict::insert (E4 probe in each caller); None if some site
    has no constant upper bound"""
    from analysis.e4 import E4
    from analysis.interp import Int
    callers = set()
    for ck, cf in facts.fns.items():
        for _, b in F.blocks(cf):
            t = b['term']
            if t['k'] == 'call' and INS in facts.callee_keys(cf, t):
                callers.add(ck)
    if not callers:
        return None
    worst = None
    for ck in sorted(callers):
        e4 = E4(facts, probes=[('SuffixDict::insert', ck)], budget_s=200)
        try:
            e4.summarize(ck)
        except Exception:  # noqa
            return None
        seen = False
        for p in e4.probes():
            if p.get('kind') != 'call' or p['fn'] != ck or not p['callee'].endswith('SuffixDict::insert') or len(p['args']) < 3:
                continue
            a = p['args'][2]
            if not isinstance(a, Int):
                return None
            hi = p['C'].bounds(a.e)[1]
            if hi is None:
                return None
            worst = hi if worst is None else max(worst, hi)
            seen = True
        if not seen:
            return None
    return worst


def pointer_rule(ctx, facts, cfg):
    rid = 'C06.c'
    f = facts.fn(WORK)
    if f is None:
        ctx.missing(rid, WORK)
        return
    defs = F.single_defs(f)
    pushes = []
    for bi, b in F.blocks(f):
        t = b['term']
        if t['k'] == 'call' and (F.call_path(t) or '').endswith('Vec::<T, A>::push'):
            e = F.expr(f, defs, t['args'][1])
            rs = F.roots(f, defs, t['args'][1])
            from_dict = any(r[0] == 'call' and r[1].endswith('SuffixDict::insert') for r in rs)
            pushes.append((e, from_dict, t['at']))
        if t['k'] == 'call' and (F.call_path(t) or '').endswith('::extend_from_slice') and len(t['args']) > 1:
            # the two bytes appended at once: extend_from_slice(&[hi, lo])
            src = t['args'][1]
            for _ in range(6):
                d_ = defs.get(src['place']['local']) if src.get('k') in ('copy', 'move') and not [q for q in src['place']['proj'] if q['k'] != 'deref'] else None
                if d_ and d_[0] == 'rv' and d_[1]['k'] in ('cast', 'use') and d_[1]['x'].get('k') in ('copy', 'move'):
                    src = d_[1]['x']
                elif d_ and d_[0] == 'rv' and d_[1]['k'] == 'ref':
                    src = {'k': 'copy', 'place': d_[1]['place']}
                else:
                    break
            if d_ and d_[0] == 'rv' and d_[1]['k'] == 'aggregate' and d_[1].get('agg') == 'array' and len(d_[1]['ops']) == 2:
                for o_ in d_[1]['ops']:
                    rs = F.roots(f, defs, o_)
                    pushes.append((F.expr(f, defs, o_), any(r[0] == 'call' and r[1].endswith('SuffixDict::insert') for r in rs), t['at']))

    def strip(e):
        while e[0] == 'cast':
            e = e[2]
        return e
    hi = [p for p in pushes if strip(p[0])[0] == 'binop' and strip(p[0])[1] == 'BitOr']
    lo = [p for p in pushes if strip(p[0])[0] == 'binop' and strip(p[0])[1] == 'BitAnd']
    ok_hi = False
    for e, fd, at in hi:
        e = strip(e)
        l, r = strip(e[2]), e[3]
        if r == ('const', 0xc0) and l[0] == 'binop' and l[1] == 'Shr' and l[3] == ('const', 8) and fd:
            ok_hi = True
    ok_lo = any(strip(e)[3] == ('const', 0xff) and fd for e, fd, at in lo)
    if not ok_lo:
        # `ref as u8`: the narrowing cast keeps exactly the low byte
        ok_lo = any(fd and e[0] == 'cast' and strip(e)[0] in ('local', 'load') for e, fd, at in pushes)
    ctx.instance(rid, 'pointer bytes pushed: (ref >> 8) | 0xc0 then ref & 0xff, ref from the dictionary', ok=ok_hi and ok_lo, site=f['at'])
    if not (ok_hi and ok_lo):
        ctx.violation(rid, WORK, 'pointer-encoding', 'the two pointer bytes are not (ref >> 8) | 0xc0 and ref & 0xff of the dictionary offset; pushes found: %s'
                      % [str(strip(p[0]))[:80] for p in pushes], site=f['at'], config=cfg)
    # SuffixDict::insert: offset < 16384 dominates the store and the lookup; suffix_len >= 3
    g = facts.fn(INS)
    if g is None:
        ctx.missing(rid, INS)
        return
    gd = F.single_defs(g)
    dom = F.dominators(g)
    safe_off = safe_len = None
    for gi, gb in F.blocks(g):
        t = gb['term']
        if t['k'] == 'switch':
            e = F.expr(g, gd, t['discr'])
            if e[0] == 'binop' and len(e) == 4:
                e = (e[0], e[1], e[2], _fold(e[3]))
            if e[0] == 'binop' and e[3][0] == 'const' and e[2] == ('local', 3):
                if (e[1], e[3][1]) in (('Ge', 16384), ('Gt', 16383)):
                    safe_off = [tb for v, tb in t['targets'] if v == 0]
                elif e[1] in ('Ge', 'Gt', 'Lt', 'Le'):
                    safe_off = safe_off or ('wrong', e[1], e[3][1])
            if e[0] == 'binop' and e[1] == 'Le' and e[3] == ('const', 2):
                safe_len = [tb for v, tb in t['targets'] if v == 0]
            if e[0] == 'binop' and e[1] == 'Lt' and e[3] == ('const', 3):
                safe_len = [tb for v, tb in t['targets'] if v == 0]
            if e[0] == 'binop' and e[1] in ('Ge', 'Gt') and e[3] == ('const', 3 if e[1] == 'Ge' else 2):
                safe_len = [t['otherwise']] if all(v == 0 for v, _ in t['targets']) else [tb for v, tb in t['targets'] if v == 1]
            lo_ = _range_contains_lower(g, gd, e)
            if lo_ is not None and lo_ >= 3 and _is_len_of_arg(g, gd, e[2][1], 2):
                # `(LO..=HI).contains(&suffix.len())` with LO >= 3: the true edge
                safe_len = [t['otherwise']] if all(v == 0 for v, _ in t['targets']) else [tb for v, tb in t['targets'] if v == 1]
    stores = [(bi, s) for bi, b in F.blocks(g) for s in b['stmts'] if s['k'] == 'assign' and F.last_field(s['place']) == ('compress::Suffix', 'offset')]
    some_rets = [bi for bi, b in F.blocks(g) for s in b['stmts'] if s['k'] == 'assign' and not s['place']['proj'] and s['place']['local'] == 0
                 and s['rv']['k'] == 'aggregate' and s['rv'].get('variant') == 'Some']
    ok_off = isinstance(safe_off, list) and bool(safe_off) and bool(stores) and all(safe_off[0] in dom.get(bi, ()) or safe_off[0] == bi for bi, s in stores) \
        and all(safe_off[0] in dom.get(bi, ()) or safe_off[0] == bi for bi in some_rets)
    where_off = 'in insert'
    if not ok_off and not (isinstance(safe_off, tuple) and safe_off and safe_off[0] == 'wrong'):
        # the guard may sit in front of the call instead: every call site hands over an offset the caller has bounded (E4 probe)
        hi = _offsets_handed_to_insert(facts)
        if hi is not None and hi <= 16383 and bool(stores):
            ok_off, where_off = True, 'at every call site (largest offset handed over: %d)' % hi
        else:
            safe_off = 'none in insert; largest offset handed over by the callers: %s' % hi
    ctx.instance(rid, 'SuffixDict::insert: `offset >= 16384 -> None` dominates the store of the offset and every lookup hit (%s)' % where_off, ok=ok_off, site=g['at'])
    if not ok_off:
        ctx.violation(rid, INS, 'offset-fits-14-bits', 'an offset can be stored in (or a hit returned from) the suffix dictionary without the dominating test `offset >= 16384 -> None` (found: %s): '
                      'a pointer to offset >= 0x4000 does not fit the 14-bit pointer field' % (safe_off,), site=g['at'], config=cfg)
    ok_len = bool(safe_len) and all(safe_len[0] in dom.get(bi, ()) or safe_len[0] == bi for bi in some_rets) and bool(some_rets)
    ctx.instance(rid, 'SuffixDict::insert: a hit is returned only for suffixes of >= 3 bytes (a 2-byte pointer never grows a name)', ok=ok_len, site=g['at'])
    if not ok_len:
        ctx.violation(rid, INS, 'min-suffix-length', 'the dictionary can return a hit for a suffix of <= 2 bytes: replacing it by a 2-byte pointer would not shrink (or would grow) the name', site=g['at'], config=cfg)


def chain_depth_rule(ctx, facts, cfg):
    """C06.g: the output must be ACCEPTED, and the validator follows at most 16 pointers per name.  An entry recorded while a name
    is emitted designates bytes that end with the pointer emitted for that same name, so reading from an entry costs one hop more
    than reading from the entry its name ended on: nested suffixes (a, b.a, c.b.a, ...) build chains of any depth unless a hit is
    conditioned on a per-entry hop count.  Decided structurally: every hit returned by SuffixDict::insert is dominated by a
    comparison of a per-entry counter (a field of Suffix other than offset / len / suffix) with a constant not above the
    validator's budget.  (That the counter is maintained correctly is not decided here.)"""
    rid = 'C06.g'
    from rules import C02
    budget = C02.policy()['pointer_max']
    g = facts.fn(INS)
    if g is None:
        ctx.missing(rid, INS)
        return
    gd = F.single_defs(g)
    dom = F.dominators(g)
    some_rets = [bi for bi, b in F.blocks(g) for s in b['stmts'] if s['k'] == 'assign' and not s['place']['proj'] and s['place']['local'] == 0
                 and s['rv']['k'] == 'aggregate' and s['rv'].get('variant') == 'Some']
    if not some_rets:
        ctx.violation(rid, INS, 'hit return', 'no `Some(offset)` return found in SuffixDict::insert', kind='anchor-missing', config=cfg)
        return
    guards = []
    for gi, gb in F.blocks(g):
        t = gb['term']
        if t['k'] != 'switch':
            continue
        e = F.expr(g, gd, t['discr'])
        if e[0] != 'binop' or e[1] not in ('Lt', 'Le', 'Gt', 'Ge', 'Eq', 'Ne'):
            continue
        rs = F.roots(g, gd, t['discr'])
        counter = [r for r in rs if r[0] == 'load' and F.last_field(r[1]) and F.last_field(r[1])[0] == 'compress::Suffix'
                   and F.last_field(r[1])[1] not in ('offset', 'len', 'suffix')]
        consts = [x[1] for x in (e[2], e[3]) if x[0] == 'const' and isinstance(x[1], int)]
        if counter and consts and max(consts) <= budget:
            for v, tb in list(t['targets']) + [(None, t['otherwise'])]:
                guards.append(tb)
    ok = all(any(gb_ in dom.get(bi, ()) or gb_ == bi for gb_ in guards) for bi in some_rets)
    ctx.instance(rid, 'SuffixDict::insert: every hit is conditioned on a per-entry hop count within the validator\'s budget of %d [%s]' % (budget, cfg), ok=ok, site=g['at'])
    if not ok:
        ctx.violation(rid, INS, 'hit-returned-without-chain-depth-bound',
                      'SuffixDict::insert returns a hit whatever the number of pointers a reader must follow from that entry: nested suffixes (a., b.a., c.b.a., ...) give chains that grow by one hop per name, '
                      'and from the 18th name on the output of compress() is refused by the parser ("Too many indirections", budget %d)' % budget, site=g['at'], config=cfg)


def run(ctx):
    for cfg in ctx.configs():
        if cfg == 'hooks':
            continue
        facts = ctx.facts(cfg)
        dict_offsets_rule(ctx, facts, cfg)
        reemit.dispatch_rule(ctx, facts, cfg, 'C06.b', CR, 'compression')
        reemit.accounting_rule(ctx, facts, cfg, 'C06.b', CR, havoc=8, opaque=['SuffixDict::insert'])
        reemit.rewrite_on_every_path_rule(ctx, facts, cfg, 'C06.b', CR, ('Compress::copy_compressed_name', 'Compress::copy_compressed_name_with_base_offset'), floor=2)
        reemit.names_on_every_path_rule(ctx, facts, cfg, 'C06.f', CR, ('Compress::copy_compressed_name', 'Compress::copy_compressed_name_with_base_offset'), 'handing the name to the compressor (names inside record data are pointer targets and candidates like any other)')
        reemit.fixed_parts_rule(ctx, facts, cfg, 'C06.b', CR)
        reemit.cursor_rule(ctx, facts, cfg, 'C06.b', ['compress::Compress::compress'])
        reemit.open_ended_rule(ctx, facts, cfg, 'C06.d', 'compress::Compress::compress', ('compress::',), 3, 'the compressor')   # 7 sites on the pinned tree
        pointer_rule(ctx, facts, cfg)
        match_predicate_rule(ctx, facts, cfg)
        chain_depth_rule(ctx, facts, cfg)
    ctx.trust('analysis/interp.py contracts; SuffixDict::insert treated as opaque for the accounting (its result is any Option<usize>)')
