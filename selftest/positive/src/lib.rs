//! Tiny positive examples for the zero-expected rules: each construct below
//! must be *found* by the corresponding rule on every run, otherwise the rule
//! has gone blind (a rule that matches nothing passes vacuously forever).
use std::cell::RefCell;
use std::collections::HashMap;
use std::sync::Mutex;

pub struct Slot {
    pub text: String,
}

// C16/C17: a process-wide, interior-mutable static
pub static SHARED: Mutex<Option<String>> = Mutex::new(None);
// C16/C17: a `static mut`
pub static mut COUNTER: u32 = 0;
// a thread-local (allowed for C16, forbidden for C17's pure entry points)
thread_local!(static TL: RefCell<Slot> = RefCell::new(Slot { text: String::new() }));

pub fn write_shared(s: &str) {
    *SHARED.lock().unwrap() = Some(s.to_owned());
}

pub fn bump() -> u32 {
    unsafe {
        COUNTER += 1;
        COUNTER
    }
}

pub fn write_tl(s: &str) {
    TL.with(|t| t.borrow_mut().text = s.to_owned());
}

// C17: pointer-to-integer cast and default-hasher map
pub fn addr_of(x: &u8) -> usize {
    x as *const u8 as usize
}

pub fn hashed(xs: &[u8]) -> Vec<u8> {
    let mut m = HashMap::new();
    for &x in xs {
        m.insert(x, ());
    }
    m.keys().copied().collect()
}

// C01: an unsafe raw dereference and a recursive function
pub fn raw_read(p: *const u8) -> u8 {
    unsafe { *p }
}

pub fn recurse(n: u32) -> u32 {
    if n == 0 { 0 } else { 1 + recurse(n - 1) }
}

// C03.b: a "getter" that writes through its receiver
pub struct Pkt {
    pub packet: Option<Vec<u8>>,
}
impl Pkt {
    pub fn peek(&mut self) -> u8 {
        let v = self.packet.as_mut().unwrap();
        v[0] = 0;
        v[0]
    }
}
