#!/usr/bin/env python3
"""Checker self-test: apply each stored mutant patch (selftest/mutants/<Cxx>-*.patch) to a scratch copy
of the repository (outside /repo and /verif), run the quick check against it and require that the
expected rule fires (or, for patches marked `expect: silent`, that the check stays green).

usage: selftest/run.py [Cxx | part-of-a-patch-name ...]        exit 0 iff every mutant behaved as expected
"""
import glob
import os
import re
import shutil
import subprocess
import sys
import tempfile

VERIF = os.path.dirname(os.path.dirname(os.path.abspath(__file__)))
REPO = os.environ.get('VERIF_REPO', '/repo')


def header(path):
    exp, desc = None, ''
    with open(path) as fh:
        for line in fh:
            if not line.startswith('#'):
                break
            m = re.match(r'#\s*expect:\s*(.+)', line)
            if m:
                exp = m.group(1).strip()
            m = re.match(r'#\s*what:\s*(.+)', line)
            if m:
                desc = m.group(1).strip()
    return exp, desc


def run_one(prop, patch):
    exp, desc = header(patch)
    work = tempfile.mkdtemp(prefix='verif-mutant-')
    try:
        scratch = os.path.join(work, 'repo')
        subprocess.run(['rsync', '-a', '--exclude', 'target', '--exclude', '.git', REPO + '/', scratch + '/'], check=True)
        r = subprocess.run(['patch', '-p1', '-s', '-i', patch], cwd=scratch, capture_output=True, text=True)
        if r.returncode != 0:
            return None, 'patch does not apply to this tree (skipped): ' + (r.stdout + r.stderr).strip()[:120].replace('\n', ' ')
        env = dict(os.environ, VERIF_REPO=scratch, VERIF_EVIDENCE_DIR=os.path.join(work, 'ev'), VERIF_TIER='quick')
        r = subprocess.run([os.path.join(VERIF, 'check'), prop, '--tier', 'quick'], env=env, capture_output=True, text=True)
        out = r.stdout
        rules = re.findall(r'kind=(\S+) rule=(\S+)', out)
        if exp == 'silent':
            ok = r.returncode == 0 and 'VIOLATION' not in out
            return ok, 'stayed silent' if ok else 'false alarm: ' + ', '.join(x[1] for x in rules)
        fired = [ru for kind, ru in rules if kind == 'rule-violated' or kind == 'undecided' or kind == 'below-floor']
        want = [w.strip() for w in (exp or '').split(',') if w.strip()]
        hit = [w for w in want if any(ru == w or ru.startswith(w) for kind, ru in rules)]
        ok = r.returncode == 1 and (bool(hit) if want else bool(fired))
        return ok, ('fired ' + ', '.join(sorted(set(ru for _, ru in rules)))) if rules else 'no violation reported (exit %d) %s' % (r.returncode, out[-300:])
    finally:
        shutil.rmtree(work, ignore_errors=True)


def main():
    props = sys.argv[1:]
    patches = sorted(glob.glob(os.path.join(VERIF, 'selftest', 'mutants', '*.patch')))
    bad = 0
    n = 0
    for p in patches:
        prop = os.path.basename(p).split('-')[0]
        if props and prop not in props and not any(len(a) > 3 and a in os.path.basename(p) for a in props):
            continue
        n += 1
        ok, msg = run_one(prop, p)
        exp, desc = header(p)
        print('%s %-44s expect=%-28s %s' % ('SKIP' if ok is None else 'ok  ' if ok else 'FAIL', os.path.basename(p), exp, msg))
        if ok is False:
            bad += 1
    print('selftest: %d mutant(s), %d unexpected' % (n, bad))
    return 1 if bad else 0


if __name__ == '__main__':
    sys.exit(main())
